(* C01Parse.v — inversion of parse_element on the plain fragment: the sub-elements stored in the
   keyword record decide the sub-schemas they were parsed from (given the induction hypothesis). *)
From Coq Require String. Import String.StringSyntax.
From Coq Require Import Lia Btauto.
From Statham.Model Require Import Str Json Elem Equality Names PyNum Validate Tables Parser Spec6 Plain.
From Statham.Proofs Require Import StrFacts JsonEqProof MetaProof DefaultsProof ParserFacts Agree_tables
     C01Vm C01Scalar C01Items C01Object C01Deep C01Element C01Plain.
Local Open Scope string_scope.
Arguments s_ : simpl never.

Section Inv.
  Variable cfg : pcfg.
  Variable O : oracles.
  Variable w : wmode.
  Notation F := (v6 O w).
  Notation B := (build O).
  Notation sim := (sim O w).
  Notation P := (parse_element cfg).

  (* the induction hypothesis for one sub-schema *)
  Definition IHs (S0 : json) : Prop := forall st e st', P S0 st = POk (e, st') -> sim e S0.

  Lemma parse_list_inv l : Forall IHs l -> forall st es st',
    parse_list P l st = POk (es, st') -> Forall2 sim es l.
  Proof.
    induction 1 as [|x r Hx Hr IH]; intros st es st' H; cbn [parse_list] in H.
    - apply ret_inv in H as [<- _]. constructor.
    - binv H. binv H. apply ret_inv in H as [<- _]. constructor; eauto.
  Qed.

  Lemma parse_assoc_inv kvs : Forall (fun kv => is_schema (snd kv) = true -> IHs (snd kv)) kvs ->
    forall st es st', parse_assoc P kvs st = POk (es, st') ->
    sim_assoc O w es (filter (fun kv => is_schema (snd kv)) kvs).
  Proof.
    induction 1 as [|[k v] r Hx Hr IH]; intros st es st' H; cbn [parse_assoc] in H.
    - apply ret_inv in H as [<- _]. constructor.
    - cbn [filter snd]. cbn [snd] in Hx. destruct (is_schema v) eqn:Es.
      + binv H. binv H. apply ret_inv in H as [<- _]. constructor; [split; [reflexivity|]|].
        * cbn [snd]. eapply Hx; eauto.
        * eapply IH; eauto.
      + eauto.
  Qed.

  Lemma filter_all {A} (f : A -> bool) l : Forall (fun x => f x = true) l -> filter f l = l.
  Proof. induction 1 as [|x l Hx Hl IH]; simpl; [reflexivity|]. rewrite Hx. now f_equal. Qed.

  Lemma sim_assoc_keys es kvs : sim_assoc O w es kvs -> keys es = keys kvs.
  Proof. induction 1 as [|ke kv es kvs [E _] _ IH]; simpl; [reflexivity|]. now rewrite E, IH. Qed.

  Lemma parse_items_inv kvs st it st' :
    Forall IHs (match lookup (s_ "items") kvs with Some (JArr l) => l | Some s => [s] | None => [] end) ->
    with_key (parse_items P) (s_ "items") kvs (ret None) st = POk (it, st') ->
    sim_items O w it (lookup (s_ "items") kvs).
  Proof.
    intros HI H. rewrite with_key_lookup in H. unfold sim_items.
    destruct (lookup (s_ "items") kvs) as [Si|]; [|apply ret_inv in H as [<- _]; reflexivity].
    unfold parse_items in H.
    destruct Si as [| | | | |l|];
      try (binv H; apply ret_inv in H as [<- _]; inversion HI as [|? ? Hx _]; subst; eexists; split; [reflexivity|]; eapply Hx; eauto; fail).
    binv H. apply ret_inv in H as [<- _]. eexists; split; [reflexivity|]. eapply parse_list_inv; eauto.
  Qed.

  Lemma parse_addl_inv key kvs st a st' :
    Forall IHs (opt_list (lookup key kvs)) ->
    with_key (parse_addl P) key kvs (ret (AddBool true)) st = POk (a, st') ->
    sim_addl O w a (lookup key kvs).
  Proof.
    intros HI H. rewrite with_key_lookup in H. unfold sim_addl.
    destruct (lookup key kvs) as [Sa|]; [|apply ret_inv in H as [<- _]; reflexivity].
    unfold parse_addl in H. cbn [opt_list] in HI. inversion HI as [|? ? H1 _]; subst.
    destruct Sa as [|b| | | | |];
      try (binv H; apply ret_inv in H as [<- _]; eexists; split; [reflexivity|]; eapply H1; eauto; fail).
    apply ret_inv in H as [<- _]. now left.
  Qed.

  Lemma parse_some_inv key kvs st oe st' :
    Forall IHs (opt_list (lookup key kvs)) ->
    with_key (parse_some P) key kvs (ret None) st = POk (oe, st') ->
    sim_opt O w oe (lookup key kvs).
  Proof.
    intros HI H. rewrite with_key_lookup in H. unfold sim_opt.
    destruct (lookup key kvs) as [Sa|]; [|apply ret_inv in H as [<- _]; reflexivity].
    unfold parse_some in H. cbn [opt_list] in HI. inversion HI as [|? ? H1 _]; subst.
    binv H. apply ret_inv in H as [<- _]. eexists; split; [reflexivity|]. eapply H1; eauto.
  Qed.

  Lemma Forall_obj_vals (Q : json -> Prop) p : Forall Q (map snd p) ->
    Forall (fun kv : str * json => is_schema (snd kv) = true -> Q (snd kv)) p.
  Proof. rewrite Forall_map. apply Forall_impl. auto. Qed.

  Lemma parse_pats_inv kvs st pats st' :
    dict_ok true (lookup (s_ "patternProperties") kvs) ->
    Forall IHs (obj_vals (lookup (s_ "patternProperties") kvs)) ->
    with_key (parse_pats P) (s_ "patternProperties") kvs (ret None) st = POk (pats, st') ->
    pats_rel O w kvs pats.
  Proof.
    intros Hok HI H. rewrite with_key_lookup in H. unfold pats_rel.
    destruct (lookup (s_ "patternProperties") kvs) as [Sp|]; [|apply ret_inv in H as [<- _]; reflexivity].
    unfold parse_pats in H. destruct Sp as [| | | | | |pp]; try (exfalso; eapply fail_inv; eauto; fail).
    binv H. apply ret_inv in H as [<- _]. cbn [dict_ok obj_vals] in *. destruct Hok as [Hnd Hall].
    pose proof (parse_assoc_inv pp (Forall_obj_vals _ _ HI) _ _ _ Hb) as Hs.
    rewrite (filter_all _ _ (Hall eq_refl)) in Hs.
    exists a. split; [|exact Hs]. f_equal. unfold dict_of_pairs. apply dict_of_nodup.
    rewrite (sim_assoc_keys _ _ Hs). exact Hnd.
  Qed.

  Lemma Forall_filter_vals (Q : json -> Prop) (p : list (str * json)) :
    Forall Q (filter is_schema (map snd p)) ->
    Forall (fun kv : str * json => is_schema (snd kv) = true -> Q (snd kv)) p.
  Proof.
    induction p as [|[k v] r IH]; simpl; intros H; constructor.
    - cbn [snd]. intros Es. rewrite Es in H. now inversion H.
    - apply IH. destruct (is_schema v); [now inversion H|exact H].
  Qed.

  Lemma parse_deps_inv kvs st deps st' :
    dict_ok false (lookup (s_ "dependencies") kvs) ->
    Forall IHs (filter is_schema (obj_vals (lookup (s_ "dependencies") kvs))) ->
    with_key (parse_deps P) (s_ "dependencies") kvs (ret None) st = POk (deps, st') ->
    deps_rel O w kvs deps.
  Proof.
    intros Hok HI H. apply deps_parsed_rel. rewrite with_key_lookup in H. unfold deps_parsed.
    destruct (lookup (s_ "dependencies") kvs) as [Sp|]; [|apply ret_inv in H as [<- _]; reflexivity].
    unfold parse_deps in H. destruct Sp as [| | | | | |dd]; try (exfalso; eapply fail_inv; eauto; fail).
    binv H. apply ret_inv in H as [<- _]. cbn [dict_ok obj_vals] in *. destruct Hok as [Hnd _].
    split; [exact Hnd|]. exists a. split; [reflexivity|].
    eapply parse_assoc_inv; eauto. now apply Forall_filter_vals.
  Qed.

  (* properties: the bound _Property looked up by its JSON name *)
  Lemma find_by_source_skip {A} (f : elem -> A) key ps : forall acc,
    ~ In key (map (fun np => p_source (snd np)) ps) -> find_by_source f key ps acc = acc.
  Proof.
    induction ps as [|[name p] r IH]; intros acc Hn; simpl; [reflexivity|].
    simpl in Hn. destruct (str_eqb_spec (p_source p) key) as [E|_]; [tauto|]. apply IH. tauto.
  Qed.

  Lemma find_by_source_unique {A} (f : elem -> A) ps : NoDup (map (fun np => p_source (snd np)) ps) ->
    forall name p acc, In (name, p) ps ->
    find_by_source f (p_source p) ps acc = Some (name, p_required p, f (p_elem p)).
  Proof.
    induction ps as [|[n0 p0] r IH]; intros Hnd name p acc Hin; [contradiction|].
    simpl in Hnd. inversion Hnd as [|? ? Hnotin Hnd']; subst. simpl.
    destruct Hin as [E|Hin].
    - inversion E; subst. rewrite str_eqb_refl. now apply find_by_source_skip.
    - destruct (str_eqb_spec (p_source p0) (p_source p)) as [E|_].
      + exfalso. apply Hnotin. rewrite E. apply in_map_iff. exists (name, p). auto.
      + eapply IH; eauto.
  Qed.

  Lemma parse_props_inv kvs st props st' :
    dict_ok true (lookup (s_ "properties") kvs) ->
    (match lookup (s_ "properties") kvs with Some (JObj p) => NoDup (map (attr cfg) (keys p)) | _ => True end) ->
    Forall IHs (obj_vals (lookup (s_ "properties") kvs)) ->
    with_key (parse_props P (attr cfg)
                (match lookup (s_ "required") kvs with Some j => jstr_list j | None => [] end))
             (s_ "properties") kvs (ret None) st = POk (props, st') ->
    props_rel O w kvs props /\
    (forall r, In r (match props with Some ps => props_required ps | None => [] end) ->
               In r (match lookup (s_ "required") kvs with Some j => jstr_list j | None => [] end)).
  Proof.
    intros Hok Hattr HI H. rewrite with_key_lookup in H. unfold props_rel.
    destruct (lookup (s_ "properties") kvs) as [Sp|]; [|apply ret_inv in H as [<- _]; split; [intros key; reflexivity|intros r []]].
    unfold parse_props in H. destruct Sp as [| | | | | |pkvs]; try (exfalso; eapply fail_inv; eauto; fail).
    binv H. apply ret_inv in H as [<- _]. cbn [dict_ok obj_vals] in *. destruct Hok as [Hnd Hall].
    pose proof (parse_assoc_inv pkvs (Forall_obj_vals _ _ HI) _ _ _ Hb) as Hs.
    rewrite (filter_all _ _ (Hall eq_refl)) in Hs.
    set (reqs := match lookup (s_ "required") kvs with Some j => jstr_list j | None => [] end) in *.
    set (ps := map (fun ke : str * elem => (attr cfg (fst ke), mkProp (snd ke) (mem_str (fst ke) reqs) (fst ke))) a).
    assert (Ekeys : keys ps = map (attr cfg) (keys pkvs)).
    { rewrite <- (sim_assoc_keys _ _ Hs). unfold ps, keys. rewrite !map_map. reflexivity. }
    assert (Esrc : map (fun np : str * prop elem => p_source (snd np)) ps = keys pkvs).
    { rewrite <- (sim_assoc_keys _ _ Hs). unfold ps, keys. rewrite !map_map. reflexivity. }
    assert (Edict : dict_of_pairs ps = ps).
    { unfold dict_of_pairs. apply dict_of_nodup. now rewrite Ekeys. }
    rewrite Edict. split.
    - intros key. cbn [find_by_source_o].
      destruct (lookup key pkvs) as [Sx|] eqn:El.
      + apply lookup_In in El.
        destruct (Forall2_In_r _ _ _ _ Hs El) as ([k' e] & Hin & Ek & He). cbn [fst snd] in *. subst k'.
        exists (attr cfg key), (mem_str key reqs), e. split; [|exact He].
        assert (Hp : In (attr cfg key, mkProp e (mem_str key reqs) key) ps).
        { unfold ps. apply in_map_iff. exists (key, e). auto. }
        apply (find_by_source_unique (fun e => e) ps (eq_ind_r (fun l => NoDup l) Hnd Esrc) _ _ None Hp).
      + apply find_by_source_skip. rewrite Esrc. now apply lookup_None.
    - intros r Hr. unfold props_required in Hr. apply in_map_iff in Hr as ([n p] & <- & Hf).
      apply filter_In in Hf as [Hin Hc]. cbn [snd] in *. apply andb_true_iff in Hc as [Hc _].
      unfold ps in Hin. apply in_map_iff in Hin as ([k' e] & E & _). inversion E; subst. cbn [p_source p_required] in *.
      now apply mem_str_In.
  Qed.
End Inv.

(* ---- composition ---- *)
Lemma eq_element e : elem_eq EElement e = true -> e = EElement.
Proof.
  unfold EElement. destruct e as [c k| | | |]; cbn [elem_eq]; try discriminate.
  intros H. apply andb_true_iff in H as [Hc H]. destruct c; try discriminate Hc. clear Hc.
  destruct k as [f1 f2 f3 f4 f5 f6 f7 f8 f9 f10 f11 f12 f13 f14 f15 f16 f17 f18 f19 f20 f21 f22 f23 f24 f25 f26 f27].
  unfold kwds_eq, k0 in H.
  cbn [k_default k_const k_enum k_items k_additionalItems k_minItems k_maxItems k_uniqueItems
       k_contains k_minimum k_maximum k_exclusiveMinimum k_exclusiveMaximum k_multipleOf k_format
       k_pattern k_minLength k_maxLength k_required k_properties k_patternProperties
       k_additionalProperties k_minProperties k_maxProperties k_propertyNames k_dependencies
       k_description] in H.
  repeat match type of H with _ && _ = true => let H2 := fresh "Hf" in apply andb_true_iff in H as [H H2] end.
  destruct f1; [discriminate|]. destruct f2; [discriminate|]. destruct f3; [discriminate|].
  destruct f4 as [[|]|]; try discriminate. destruct f5 as [[|]|]; try discriminate.
  destruct f6; [discriminate|]. destruct f7; [discriminate|]. destruct f8; [discriminate|].
  destruct f9; [discriminate|]. destruct f10; [discriminate|]. destruct f11; [discriminate|].
  destruct f12; [discriminate|]. destruct f13; [discriminate|]. destruct f14; [discriminate|].
  destruct f15; [discriminate|]. destruct f16; [discriminate|]. destruct f17; [discriminate|].
  destruct f18; [discriminate|]. destruct f19; [discriminate|]. destruct f20; [discriminate|].
  destruct f21; [discriminate|]. destruct f22 as [[|]|]; try discriminate.
  destruct f23; [discriminate|]. destruct f24; [discriminate|]. destruct f25; [discriminate|].
  destruct f26; [discriminate|]. destruct f27; [discriminate|]. reflexivity.
Qed.

Section Comp.
  Variable O : oracles.
  Notation B := (build O).

  Lemma with_elem_default_irrel e d v : B (with_elem_default e d) (Some v) = B e (Some v).
  Proof. destruct e; reflexivity. Qed.

  Definition omv (v : json) (e : elem) (b : bool) : Prop := om (B e (Some v)) b.

  Lemma Forall2_omv v es bs : Forall2 (omv v) es bs -> Forall2 om (map (fun e' => B e' (Some v)) es) bs.
  Proof. induction 1; simpl; constructor; auto. Qed.

  Lemma compose_all v es bs : Forall2 (omv v) es bs -> omv v (compose MAll es) (forallb (fun b => b) bs).
  Proof.
    intros H. unfold compose, omv.
    destruct H as [|e b es bs He Hes]; [destruct (element_ok O v) as (r & ->); reflexivity|].
    destruct Hes as [|e2 b2 es bs He2 Hes].
    - cbn [forallb]. rewrite andb_true_r. exact He.
    - cbn [build with_default]. rewrite map_elems_map.
      apply attempt_all; [discriminate|]. apply Forall2_omv. repeat constructor; auto.
  Qed.

  Lemma compose_any v es bs : es <> [] -> Forall2 (omv v) es bs -> omv v (compose MAny es) (existsb (fun b => b) bs).
  Proof.
    intros Hne H. unfold compose, omv.
    destruct H as [|e b es bs He Hes]; [congruence|].
    destruct Hes as [|e2 b2 es bs He2 Hes].
    - cbn [existsb]. rewrite orb_false_r. exact He.
    - cbn [build with_default]. rewrite map_elems_map.
      apply attempt_any. apply Forall2_omv. repeat constructor; auto.
  Qed.

  Lemma compose_one v es bs : es <> [] -> Forall2 (omv v) es bs ->
    omv v (compose MOne es) (Nat.eqb (length (filter (fun b : bool => b) bs)) 1).
  Proof.
    intros Hne H. unfold compose, omv.
    destruct H as [|e b es bs He Hes]; [congruence|].
    destruct Hes as [|e2 b2 es bs He2 Hes].
    - cbn [filter]. destruct b; exact He.
    - cbn [build with_default]. rewrite map_elems_map.
      apply attempt_one. apply Forall2_omv. repeat constructor; auto.
  Qed.

  (* dropping the members equal to Element() does not change the conjunction *)
  Lemma filter_elements v es bs : Forall2 (omv v) es bs ->
    exists bs', Forall2 (omv v) (filter (fun e => negb (elem_eq EElement e)) es) bs' /\
                forallb (fun b => b) bs' = forallb (fun b => b) bs.
  Proof.
    induction 1 as [|e b es bs He Hes (bs' & H1 & H2)]; [exists []; split; [constructor|reflexivity]|].
    cbn [filter]. destruct (elem_eq EElement e) eqn:Ee; cbn [negb].
    - exists bs'. split; [exact H1|]. apply eq_element in Ee. subst e.
      unfold omv in He. destruct (element_ok O v) as (r & Er). rewrite Er in He. simpl in He. subst b.
      cbn [forallb andb]. exact H2.
    - exists (b :: bs'). split; [constructor; auto|]. cbn [forallb]. now rewrite H2.
  Qed.
End Comp.

Section Main.
  Variable cfg : pcfg.
  Variable O : oracles.
  Variable w : wmode.
  Hypothesis Hw : w <> WAlways.
  Hypothesis Hcfg : forall key, In key (map s_ ["allOf"; "anyOf"; "oneOf"]) -> In key (c_comp_order cfg).
  Notation F := (v6 O w).
  Notation B := (build O).
  Notation sim := (sim O w).
  Notation P := (parse_element cfg).
  Notation IHs := (IHs cfg O w).

  Lemma waived_false kvs name : type_not_object kvs -> waived w kvs name = false.
  Proof.
    intros H. unfold waived.
    assert (Ht : typed_object kvs = false).
    { unfold typed_object. red in H. destruct (lookup (s_ "type") kvs) as [[| | | |t|ts|]|]; try reflexivity.
      - now apply str_eqb_neq.
      - induction H as [|tj ts Htj _ IH]; [reflexivity|]. cbn [existsb]. rewrite IH, orb_false_r.
        destruct tj; try reflexivity. apply str_eqb_neq. intros ->. now apply Htj. }
    rewrite Ht. destruct w; try reflexivity. congruence.
  Qed.

  Lemma parse_keys_lookup sub ks : forall st parsed st',
    parse_keys sub ks st = POk (parsed, st') ->
    forall key, In key ks -> exists es st1 st2, lookup key parsed = Some es /\ sub key st1 = POk (es, st2).
  Proof.
    induction ks as [|k0 r IH]; intros st parsed st' H key Hin; [contradiction|].
    cbn [parse_keys] in H.
    apply bind_inv in H as (es & st1 & Hsub & H). apply bind_inv in H as (rest & st2 & Hrest & H).
    apply ret_inv in H as [<- _]. cbn [lookup].
    destruct (str_eqb_spec key k0) as [->|Hne]; [eauto|].
    destruct Hin as [E|Hin]; [congruence|]. eapply IH; eauto.
  Qed.

  Lemma comp_list_inv key kvs st es st' : Forall IHs (arr_list (lookup key kvs)) ->
    with_key (parse_comp_list P) key kvs (ret []) st = POk (es, st') ->
    match lookup key kvs with
    | None => es = []
    | Some (JArr l) => Forall2 sim es l
    | Some _ => False
    end.
  Proof.
    intros HI H. rewrite with_key_lookup in H.
    destruct (lookup key kvs) as [Sl|]; [|apply ret_inv in H as [<- _]; reflexivity].
    unfold parse_comp_list in H. destruct Sl; try (eapply fail_inv; eauto; fail).
    cbn [arr_list] in HI. eapply parse_list_inv; eauto.
  Qed.

  Lemma lookup_filter_keep (bad : list str) (kvs : list (str * json)) key : ~ In key bad ->
    lookup key (filter (fun kv => negb (mem_str (fst kv) bad)) kvs) = lookup key kvs.
  Proof.
    intros Hn. induction kvs as [|[k v] r IH]; [reflexivity|]. cbn [filter fst lookup].
    destruct (mem_str k bad) eqn:Em; cbn [negb].
    - destruct (str_eqb_spec key k) as [->|_]; [|exact IH]. apply mem_str_In in Em. tauto.
    - cbn [lookup]. destruct (str_eqb key k); [reflexivity|exact IH].
  Qed.

  Lemma filter_map_len (l : list json) (f : json -> bool) :
    length (filter (fun b : bool => b) (map f l)) = length (filter f l).
  Proof. induction l; simpl; [reflexivity|]. destruct (f a); simpl; congruence. Qed.

  Lemma Forall2_sim_omv v es l : jwf v -> Forall2 sim es l -> Forall2 (omv O v) es (map (fun S0 => F S0 v) l).
  Proof. intros Hv. induction 1; simpl; constructor; auto. unfold omv. auto. Qed.

  Lemma Forall2_nonempty {A C} (R : A -> C -> Prop) l l' : Forall2 R l l' -> l' <> [] -> l <> [].
  Proof. destruct 1; congruence. Qed.

  Definition ofk (key : str) (parsed : list (str * list elem)) : list elem :=
    match lookup key parsed with Some l => l | None => [] end.
  Definition comp_rel (kvs : list (str * json)) (key : str) (parsed : list (str * list elem)) : Prop :=
    match lookup key kvs with
    | None => ofk key parsed = []
    | Some (JArr l) => Forall2 sim (ofk key parsed) l
    | Some _ => False
    end.
  Definition nots_rel (kvs : list (str * json)) (nots : list elem) : Prop :=
    match lookup (s_ "not") kvs with
    | Some Sn => exists en, nots = [ENot en None] /\ sim en Sn
    | None => nots = []
    end.

  (* the element assembled by _parse_composition decides the whole node *)
  Lemma comp_assemble kvs v base parsed nots e (st0 st1 : pstate) :
    jwf v -> nonempty_list (lookup (s_ "anyOf") kvs) -> nonempty_list (lookup (s_ "oneOf") kvs) ->
    omv O v base (cl_type kvs v && rest_b O w kvs v) ->
    comp_rel kvs (s_ "allOf") parsed -> comp_rel kvs (s_ "anyOf") parsed -> comp_rel kvs (s_ "oneOf") parsed ->
    nots_rel kvs nots ->
    (let all_of := base :: ofk (s_ "allOf") parsed ++ [compose MOne (ofk (s_ "oneOf") parsed); compose MAny (ofk (s_ "anyOf") parsed)] ++ nots in
     let element := compose MAll (filter (fun e0 => negb (elem_eq EElement e0)) all_of) in
     let default := match lookup (s_ "default") kvs with Some j => Some (strip_autotitle j) | None => None end in
     (if is_obj element then ret (EComp MAll [element] default)
      else ret (match default with Some d => with_elem_default element (Some d) | None => element end)) st0 = POk (e, st1)) ->
    om (B e (Some v)) (v6 O w (JObj kvs) v).
  Proof.
    intros Hv Hany Hone Hb0 Hall Hanyk Honek Hnots H. cbv zeta in H. cbn [v6].
    unfold comp_rel in *.
    set (allOfs := ofk (s_ "allOf") parsed) in *.
    set (anyOfs := ofk (s_ "anyOf") parsed) in *.
    set (oneOfs := ofk (s_ "oneOf") parsed) in *.
    assert (Ha : exists ba, Forall2 (omv O v) allOfs ba /\
              forallb (fun b => b) ba =
              wkey (fun Sl => match Sl with JArr l => forallb (fun S' => F S' v) l | _ => true end) (s_ "allOf") kvs true).
    { rewrite wkey_lookup. destruct (lookup (s_ "allOf") kvs) as [[| | | | |l|]|]; try contradiction.
      - exists (map (fun S0 => F S0 v) l). split; [now apply Forall2_sim_omv|]. clear. induction l; simpl; congruence.
      - rewrite Hall. exists []. split; [constructor|reflexivity]. }
    assert (Hy : omv O v (compose MAny anyOfs)
              (wkey (fun Sl => match Sl with JArr l => existsb (fun S' => F S' v) l | _ => true end) (s_ "anyOf") kvs true)).
    { rewrite wkey_lookup. red in Hany. destruct (lookup (s_ "anyOf") kvs) as [[| | | | |l|]|]; try contradiction.
      - eapply om_ext; [apply (compose_any O v anyOfs (map (fun S0 => F S0 v) l))|].
        + eapply Forall2_nonempty; eauto. destruct l; [contradiction|discriminate].
        + now apply Forall2_sim_omv.
        + clear. induction l; simpl; congruence.
      - rewrite Hanyk. unfold omv, compose. destruct (element_ok O v) as (r & ->). reflexivity. }
    assert (Ho : omv O v (compose MOne oneOfs)
              (wkey (fun Sl => match Sl with
                               | JArr l => Nat.eqb (length (filter (fun S' => F S' v) l)) 1
                               | _ => true end) (s_ "oneOf") kvs true)).
    { rewrite wkey_lookup. red in Hone. destruct (lookup (s_ "oneOf") kvs) as [[| | | | |l|]|]; try contradiction.
      - eapply om_ext; [apply (compose_one O v oneOfs (map (fun S0 => F S0 v) l))|].
        + eapply Forall2_nonempty; eauto. destruct l; [contradiction|discriminate].
        + now apply Forall2_sim_omv.
        + now rewrite filter_map_len.
      - rewrite Honek. unfold omv, compose. destruct (element_ok O v) as (r & ->). reflexivity. }
    assert (Hn : exists bn, Forall2 (omv O v) nots bn /\
              forallb (fun b => b) bn = wkey (fun Sn => negb (F Sn v)) (s_ "not") kvs true).
    { rewrite wkey_lookup. red in Hnots.
      destruct (lookup (s_ "not") kvs) as [Sn|].
      - destruct Hnots as (en & -> & Hen).
        exists [negb (F Sn v)]. split; [|cbn [forallb]; apply andb_true_r].
        constructor; [|constructor]. unfold omv. cbn [build with_default].
        pose proof (Hen v Hv) as Hsim.
        destruct (B en (Some v)); simpl in *; rewrite ?Hsim; reflexivity.
      - subst nots. exists []. split; [constructor|reflexivity]. }
    destruct Ha as (ba & Ha1 & Ha2). destruct Hn as (bn & Hn1 & Hn2).
    match type of Ho with omv _ _ _ ?b => set (one_b := b) in * end.
    match type of Hy with omv _ _ _ ?b => set (any_b := b) in * end.
    set (all_of := base :: allOfs ++ [compose MOne oneOfs; compose MAny anyOfs] ++ nots) in *.
    assert (Hall_of : Forall2 (omv O v) all_of
              ((cl_type kvs v && rest_b O w kvs v) :: ba ++ [one_b; any_b] ++ bn)).
    { unfold all_of. constructor; [exact Hb0|]. apply Forall2_app; [exact Ha1|].
      constructor; [exact Ho|]. constructor; [exact Hy|exact Hn1]. }
    destruct (filter_elements O v _ _ Hall_of) as (bs' & Hf1 & Hf2).
    pose proof (compose_all O v _ _ Hf1) as Hel. rewrite Hf2 in Hel.
    set (element := compose MAll (filter (fun e0 => negb (elem_eq EElement e0)) all_of)) in *.
    assert (Hfinal : om (B e (Some v)) (forallb (fun b => b)
                ((cl_type kvs v && rest_b O w kvs v) :: ba ++ [one_b; any_b] ++ bn))).
    { destruct (is_obj element).
      - apply ret_inv in H as [<- _]. cbn [build with_default map_elems]. apply attempt_single. exact Hel.
      - apply ret_inv in H as [<- _].
        destruct (match lookup (s_ "default") kvs with Some j => Some (strip_autotitle j) | None => None end);
          [rewrite with_elem_default_irrel|]; exact Hel. }
    eapply om_ext; [exact Hfinal|].
    cbn [forallb]. rewrite forallb_app. cbn [app forallb]. rewrite Ha2, Hn2.
    unfold cl_comp, rest_b. fold one_b. fold any_b. clearbody one_b any_b.
    repeat match goal with |- context [wkey ?f ?k kvs true] => generalize (wkey f k kvs true); intro end.
    generalize (cl_type kvs v) (cl_scalar O kvs v) (cl_items F kvs v) (cl_object O w F kvs v). intros.
    btauto.
  Qed.

  Lemma nocomp_assemble kvs v e :
    existsb (fun kv => mem_str (fst kv) composition_keywords) kvs = false ->
    om (B e (Some v)) (cl_type kvs v && rest_b O w kvs v) -> om (B e (Some v)) (v6 O w (JObj kvs) v).
  Proof.
    intros Ecomp H. eapply om_ext; [exact H|]. cbn [v6]. unfold rest_b.
    assert (Hc : cl_comp F kvs v = true).
    { unfold cl_comp. rewrite !wkey_lookup.
      rewrite (existsb_keys_false composition_keywords kvs (s_ "allOf") Ecomp) by (vm_compute; tauto).
      rewrite (existsb_keys_false composition_keywords kvs (s_ "anyOf") Ecomp) by (vm_compute; tauto).
      rewrite (existsb_keys_false composition_keywords kvs (s_ "oneOf") Ecomp) by (vm_compute; tauto).
      rewrite (existsb_keys_false composition_keywords kvs (s_ "not") Ecomp) by (vm_compute; tauto).
      reflexivity. }
    rewrite Hc. now rewrite andb_true_r, !andb_assoc.
  Qed.

  Theorem parse_sim : forall S0, plain cfg false S0 -> IHs S0.
  Proof.
    apply (plain_ind' cfg false IHs).
    - (* booleans *)
      intros [|] st e st' H; cbn [parse_element] in H; apply ret_inv in H as [<- _].
      + apply sim_element. reflexivity.
      + intros v _. reflexivity.
    - intros kvs Hnode _ IH st e st' H.
      pose proof (type_cond_false cfg kvs Hnode) as Hno.
      destruct Hnode as (Hnd & _ & Hconst & Henum & Hpok & Hattr & Hppok & Hdok & Hany & Hone).
      unfold subschemas in IH.
      repeat match type of IH with Forall _ (_ ++ _) => let I1 := fresh "I" in apply Forall_app in IH as [I1 IH] end.
      cbn [parse_element] in H.
      destruct (existsb (fun kv => mem_str (fst kv) (c_unsupported cfg)) kvs); [exfalso; eapply fail_inv; eauto|].
      apply bind_inv in H as (props & s1 & Hp1 & H). apply bind_inv in H as (items & s2 & Hp2 & H).
      apply bind_inv in H as (pats & s3 & Hp3 & H). apply bind_inv in H as (pnames & s4 & Hp4 & H).
      apply bind_inv in H as (contains & s5 & Hp5 & H). apply bind_inv in H as (deps & s6 & Hp6 & H).
      apply bind_inv in H as (addp & s7 & Hp7 & H). apply bind_inv in H as (addi & s8 & Hp8 & H).
      destruct (parse_props_inv cfg O w kvs _ _ _ Hpok Hattr I5 Hp1) as [Rprops Rreq].
      pose proof (parse_items_inv cfg O w kvs _ _ _ I Hp2) as Ritems.
      pose proof (parse_pats_inv cfg O w kvs _ _ _ Hppok I6 Hp3) as Rpats.
      pose proof (parse_some_inv cfg O w _ kvs _ _ _ I2 Hp4) as Rpnames.
      pose proof (parse_some_inv cfg O w _ kvs _ _ _ I1 Hp5) as Rcontains.
      pose proof (parse_deps_inv cfg O w kvs _ _ _ Hdok I7 Hp6) as Rdeps.
      pose proof (parse_addl_inv cfg O w _ kvs _ _ _ I3 Hp7) as Raddp.
      pose proof (parse_addl_inv cfg O w _ kvs _ _ _ I0 Hp8) as Raddi.
      pose proof (fun name => waived_false kvs name Hno) as Hwv.
      set (K := kw_record kvs props items pats pnames contains deps addp addi) in *.
      pose proof (finish_plain_om O w kvs props items pats pnames contains deps addp addi
                    Hconst Henum Ritems Raddi Rcontains Rpnames Rprops Rpats Raddp Rdeps Rreq cfg Hwv) as Hfin.
      fold K in Hfin.
      intros v Hv.
      destruct (existsb (fun kv => mem_str (fst kv) composition_keywords) kvs) eqn:Ecomp; cbn [negb] in H.
      + (* composition *)
        apply bind_inv in H as (base & s9 & Hbase & H). apply bind_inv in H as (parsed & s10 & Hparsed & H).
        apply bind_inv in H as (nots & s11 & Hnots & H).
        assert (Hb0 : omv O v base (cl_type kvs v && rest_b O w kvs v)).
        { refine (Hfin _ (set_default K None) _ _ _ _ _ Hno Hbase v Hv).
          - right. eexists; reflexivity.
          - apply lookup_filter_keep. vm_compute. intuition discriminate. }
        assert (Hk : forall key, In key (map s_ ["allOf"; "anyOf"; "oneOf"]) ->
                  Forall IHs (arr_list (lookup key kvs)) -> comp_rel kvs key parsed).
        { intros key Hin HI. unfold comp_rel, ofk.
          destruct (parse_keys_lookup _ _ _ _ _ Hparsed key (Hcfg key Hin)) as (es & t1 & t2 & -> & Hsub).
          exact (comp_list_inv key kvs _ _ _ HI Hsub). }
        assert (Hn : nots_rel kvs nots).
        { unfold nots_rel. rewrite with_key_lookup in Hnots.
          destruct (lookup (s_ "not") kvs) as [Sn|].
          - unfold parse_not in Hnots. apply bind_inv in Hnots as (en & t1 & Hen & Hnots).
            apply ret_inv in Hnots as [<- _]. cbn [opt_list] in I4. inversion I4 as [|? ? Hi _]; subst.
            exists en. split; [reflexivity|]. eapply Hi; eauto.
          - apply ret_inv in Hnots as [<- _]. reflexivity. }
        eapply (comp_assemble kvs v base parsed nots e); eauto.
        * exact (Hk (s_ "allOf") (or_introl eq_refl) I8).
        * exact (Hk (s_ "anyOf") (or_intror (or_introl eq_refl)) I9).
        * exact (Hk (s_ "oneOf") (or_intror (or_intror (or_introl eq_refl))) IH).
      + (* no composition keyword *)
        apply nocomp_assemble; [exact Ecomp|].
        eapply (Hfin kvs K); eauto. now left.
  Qed.
End Main.

(* ---- the statements used by Properties/C01.v ---- *)
Definition comp_complete (cfg : pcfg) : Prop :=
  forall key, In key (map s_ ["allOf"; "anyOf"; "oneOf"]) -> In key (c_comp_order cfg).

Theorem validity_plain cfg O w S0 st e st' :
  w <> WAlways -> comp_complete cfg -> plain cfg false S0 ->
  parse_element cfg S0 st = POk (e, st') ->
  forall v, jwf v -> om (build O e (Some v)) (v6 O w S0 v).
Proof. intros Hw Hc Hp H v Hv. exact (parse_sim cfg O w Hw Hc S0 Hp st e st' H v Hv). Qed.

Definition ncrash (o : outcome) : Prop := match o with Crash _ => False | _ => True end.

Corollary accepts_iff_valid cfg O S0 st e st' :
  comp_complete cfg -> plain cfg false S0 -> parse_element cfg S0 st = POk (e, st') ->
  forall v, jwf v -> ncrash (build O e (Some v)) ->
  accepts O e v = valid6 O S0 v /\ accepts O e v = valid6_strict O S0 v /\
  (build O e (Some v) = Rej <-> valid6 O S0 v = false).
Proof.
  intros Hc Hp H v Hv Hn.
  pose proof (validity_plain cfg O WCode S0 st e st' ltac:(discriminate) Hc Hp H v Hv) as H1.
  pose proof (validity_plain cfg O WNever S0 st e st' ltac:(discriminate) Hc Hp H v Hv) as H2.
  unfold accepts, valid6, valid6_strict.
  destruct (build O e (Some v)); simpl in *; try contradiction; rewrite H1, H2; repeat split; auto; discriminate.
Qed.

Lemma real_comp_complete u r un : comp_complete (mkCfg u r un Statham.Generated.Gen_parser_tables.comp_order_now).
Proof.
  intros key Hin. cbn [c_comp_order].
  destruct Statham.Proofs.Agree_tables.comp_order_complete_now as (Ha & Ho & Hl).
  cbn [map In] in Hin. destruct Hin as [<-|[<-|[<-|[]]]]; assumption.
Qed.
