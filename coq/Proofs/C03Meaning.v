(* C03Meaning.v — the document written by the JSON serializer for a reference-free element tree
   accepts exactly the values the tree accepts (up to crashes).  The element lemmas of C01 are
   reused: the keyword record of the element is the record the parser would build from the
   emitted keyword list (C03Lookup), and its sub-elements decide their emitted sub-schemas by
   induction. *)
From Coq Require String. Import String.StringSyntax.
From Coq Require Import Lia Btauto.
From Statham.Model Require Import Str Json Elem Equality PyNum Validate Tables Parser Spec6 Plain SerJson Sub SerFrag.
From Statham.Proofs Require Import StrFacts JsonEqProof MetaProof DefaultsProof ParserFacts ElemInd
     C03Lookup C01Vm C01Scalar C01Items C01Object C01Deep C01Plain C01Element C01Parse.
Local Open Scope string_scope.
Arguments s_ : simpl never.

(* ---- records that differ only in default / required / description build alike ---- *)
Definition same_but (k1 k2 : kwds elem) : Prop :=
  k_const k1 = k_const k2 /\ k_enum k1 = k_enum k2 /\ k_items k1 = k_items k2 /\
  k_additionalItems k1 = k_additionalItems k2 /\ k_minItems k1 = k_minItems k2 /\
  k_maxItems k1 = k_maxItems k2 /\ k_uniqueItems k1 = k_uniqueItems k2 /\ k_contains k1 = k_contains k2 /\
  k_minimum k1 = k_minimum k2 /\ k_maximum k1 = k_maximum k2 /\
  k_exclusiveMinimum k1 = k_exclusiveMinimum k2 /\ k_exclusiveMaximum k1 = k_exclusiveMaximum k2 /\
  k_multipleOf k1 = k_multipleOf k2 /\ k_format k1 = k_format k2 /\ k_pattern k1 = k_pattern k2 /\
  k_minLength k1 = k_minLength k2 /\ k_maxLength k1 = k_maxLength k2 /\
  k_properties k1 = k_properties k2 /\ k_patternProperties k1 = k_patternProperties k2 /\
  k_additionalProperties k1 = k_additionalProperties k2 /\ k_minProperties k1 = k_minProperties k2 /\
  k_maxProperties k1 = k_maxProperties k2 /\ k_propertyNames k1 = k_propertyNames k2 /\
  k_dependencies k1 = k_dependencies k2.

Lemma build_same O c k1 k2 v : same_but k1 k2 ->
  (forall m : list (str * json), forallb (fun r => has_key r m) (required_names k1) = forallb (fun r => has_key r m) (required_names k2)) ->
  build O (EK c k1) (Some v) = build O (EK c k2) (Some v).
Proof.
  destruct k1 as [d1 a2 a3 a4 a5 a6 a7 a8 a9 a10 a11 a12 a13 a14 a15 a16 a17 a18 r1 a20 a21 a22 a23 a24 a25 a26 s1].
  destruct k2 as [d2 b2 b3 b4 b5 b6 b7 b8 b9 b10 b11 b12 b13 b14 b15 b16 b17 b18 r2 b20 b21 b22 b23 b24 b25 b26 s2].
  unfold same_but.
  cbn [k_default k_const k_enum k_items k_additionalItems k_minItems k_maxItems k_uniqueItems
       k_contains k_minimum k_maximum k_exclusiveMinimum k_exclusiveMaximum k_multipleOf k_format
       k_pattern k_minLength k_maxLength k_required k_properties k_patternProperties
       k_additionalProperties k_minProperties k_maxProperties k_propertyNames k_dependencies
       k_description].
  intros (-> & -> & -> & -> & -> & -> & -> & -> & -> & -> & -> & -> & -> & -> & -> & -> & -> & -> & -> & -> & -> & -> & -> & ->) Hreq.
  cbn [build with_default k_default].
  assert (Es : scalar_validators O (mkK d1 b2 b3 b4 b5 b6 b7 b8 b9 b10 b11 b12 b13 b14 b15 b16 b17 b18 r1 b20 b21 b22 b23 b24 b25 b26 s1) v =
               scalar_validators O (mkK d2 b2 b3 b4 b5 b6 b7 b8 b9 b10 b11 b12 b13 b14 b15 b16 b17 b18 r2 b20 b21 b22 b23 b24 b25 b26 s2) v).
  { unfold scalar_validators.
    cbn [k_default k_const k_enum k_items k_additionalItems k_minItems k_maxItems k_uniqueItems
         k_contains k_minimum k_maximum k_exclusiveMinimum k_exclusiveMaximum k_multipleOf k_format
         k_pattern k_minLength k_maxLength k_properties k_patternProperties
         k_additionalProperties k_minProperties k_maxProperties k_propertyNames k_dependencies
         k_description].
    destruct v as [| | | | | |m]; try reflexivity. rewrite (Hreq m). reflexivity. }
  rewrite Es. reflexivity.
Qed.

Lemma same_but_filter c k1 k2 : same_but k1 k2 -> same_but (filter_kw c k1) (filter_kw c k2).
Proof.
  unfold same_but, filter_kw.
  cbn [k_default k_const k_enum k_items k_additionalItems k_minItems k_maxItems k_uniqueItems
       k_contains k_minimum k_maximum k_exclusiveMinimum k_exclusiveMaximum k_multipleOf k_format
       k_pattern k_minLength k_maxLength k_required k_properties k_patternProperties
       k_additionalProperties k_minProperties k_maxProperties k_propertyNames k_dependencies
       k_description].
  intros (-> & -> & -> & -> & -> & -> & -> & -> & -> & -> & -> & -> & -> & -> & -> & -> & -> & -> & -> & -> & -> & -> & -> & ->).
  repeat split.
Qed.

Lemma same_but_sym k1 k2 : same_but k1 k2 -> same_but k2 k1.
Proof. unfold same_but. intuition congruence. Qed.

Lemma jstr_list_map l : jstr_list (JArr (map JStr l)) = l.
Proof. unfold jstr_list. induction l; simpl; congruence. Qed.

Section M.
  Variable O : oracles.
  Variable w : wmode.
  Hypothesis Hw : w <> WAlways.
  Notation F := (v6 O w).
  Notation B := (build O).
  Notation sim := (sim O w).

  Definition ser : elem -> json := ser_top true true [].
  Definition sub (x : elem) : json :=
    match x with EObj n _ _ => ref_to n | _ => from_definitions [] x (ser x) end.

  Lemma ser_EK c k : ser (EK c k) = JObj (ser_kwds true true sub k ++ json_type c).
  Proof. reflexivity. Qed.

  Definition noobj (e : elem) : Prop := match e with EObj _ _ _ => False | _ => True end.
  Lemma sub_ser x : noobj x -> sub x = ser x.
  Proof. destruct x; try reflexivity. contradiction. Qed.

  Lemma ser_schema x : noobj x -> is_schema (ser x) = true /\ (forall l, ser x <> JArr l).
  Proof. destruct x; try contradiction; intros _; split; try reflexivity; intros l; discriminate. Qed.

  (* ---- the elements the theorem speaks about ---- *)
  Definition lclean (o : option json) : Prop := match o with Some j => clean j = true | None => True end.
  Definition addl_plain (a : addl elem) : Prop := match a with AddElem ENothing => False | _ => True end.
  (* a property both required and defaulted must also be named in the explicit required list
     (true of everything the parser builds): otherwise the element waives it and the document does not *)
  Definition props_ok (explicit : list str) (o : option (list (str * prop elem))) : Prop :=
    match o with
    | Some l => NoDup (map (fun np => p_source (snd np)) l) /\
                Forall (fun np => p_source (snd np) <> [] /\
                                  (p_required (snd np) = true ->
                                   elem_default (p_elem (snd np)) = None \/ In (p_source (snd np)) explicit)) l
    | None => True
    end.
  Definition okeys {A} (o : option (list (str * A))) : Prop :=
    match o with Some l => NoDup (keys l) | None => True end.

  Definition local_dsl (e : elem) : Prop :=
    match e with
    | EK c k =>
      lclean (k_const k) /\ (match k_enum k with Some l => clean (JArr l) = true | None => True end) /\
      same_but (filter_kw c k) k /\ (c = CArray -> k_items k <> None) /\
      (c <> CElement -> k_required k = None) /\
      props_ok (match k_required k with Some l => l | None => [] end) (k_properties k) /\
      okeys (k_patternProperties k) /\ okeys (k_dependencies k)
    | EComp _ es _ => es <> []
    | EObj _ _ _ => False
    | _ => True
    end.

  Inductive dsl : elem -> Prop :=
  | dsl_i e : local_dsl e -> Forall dsl (children e) -> dsl e.

  Lemma dsl_noobj e : dsl e -> noobj e.
  Proof. intros H. inversion H as [? Hl _]; subst. destruct e; simpl; auto. Qed.

  (* ---- composition elements ---- *)
  Ltac lits :=
    repeat match goal with |- context [str_eqb (s_ ?a) (s_ ?b)] =>
             let r := eval vm_compute in (str_eqb (s_ a) (s_ b)) in change (str_eqb (s_ a) (s_ b)) with r end;
    cbv iota.

  Lemma v6_single (d : option json) (key : String.string) (S0 : json) v :
    In key ["not"; "anyOf"; "oneOf"; "allOf"] ->
    F (JObj ((match d with Some j => [(s_ "default", j)] | None => [] end) ++ [(s_ key, S0)])) v =
    cl_comp F [(s_ key, S0)] v.
  Proof.
    intros Hk. cbn [v6].
    assert (E : forall kvs', kvs' = (match d with Some j => [(s_ "default", j)] | None => [] end) ++ [(s_ key, S0)] ->
                cl_type kvs' v = true /\ cl_scalar O kvs' v = true /\ cl_items F kvs' v = true /\
                cl_object O w F kvs' v = true /\ cl_comp F kvs' v = cl_comp F [(s_ key, S0)] v).
    { intros kvs' ->. cbn [In] in Hk.
      destruct Hk as [<-|[<-|[<-|[<-|[]]]]]; destruct d;
        unfold cl_type, cl_scalar, cl_items, cl_object, cl_comp; cbn [app lookup wkey]; lits;
        (repeat split; try reflexivity; destruct v; try reflexivity;
         cbn [andb]; rewrite ?andb_true_r; apply forallb_forall; intros; reflexivity). }
    destruct (E _ eq_refl) as (-> & -> & -> & -> & ->). reflexivity.
  Qed.

  Lemma Forall2_sub es : Forall (fun x => dsl x -> sim x (ser x)) es -> Forall dsl es ->
    Forall2 sim es (s_elems sub es).
  Proof.
    induction 1 as [|x r Hx Hr IH]; intros Hd; simpl; [constructor|].
    inversion Hd; subst. constructor; [|auto]. rewrite sub_ser by (now apply dsl_noobj). auto.
  Qed.

  Lemma map_elems_eq {A} (f : elem -> A) es : map_elems f es = map f es.
  Proof. induction es; simpl; congruence. Qed.

  (* ---- an Element / typed element ---- *)
  Section EKcase.
    Variable c : ecls.
    Variable k : kwds elem.
    Hypothesis Hloc : local_dsl (EK c k).
    Hypothesis Hsubs : Forall (fun x => sim x (sub x) /\ noobj x) (ksub k).
    Let kvs := ser_kwds true true sub k ++ json_type c.

    Lemma Htail : forall key, In key (keys (json_type c)) -> key = s_ "type" \/ key = s_ "title".
    Proof. destruct c; simpl; intuition. Qed.

    Let Hs := Hsubs.
    Lemma subs_split :
      Forall (fun x => sim x (sub x) /\ noobj x) (sub_items (k_items k)) /\
      Forall (fun x => sim x (sub x) /\ noobj x) (sub_addl (k_additionalItems k)) /\
      Forall (fun x => sim x (sub x) /\ noobj x) (sub_opt (k_contains k)) /\
      Forall (fun x => sim x (sub x) /\ noobj x) (sub_props (k_properties k)) /\
      Forall (fun x => sim x (sub x) /\ noobj x) (sub_pats (k_patternProperties k)) /\
      Forall (fun x => sim x (sub x) /\ noobj x) (sub_addl (k_additionalProperties k)) /\
      Forall (fun x => sim x (sub x) /\ noobj x) (sub_opt (k_propertyNames k)) /\
      Forall (fun x => sim x (sub x) /\ noobj x) (sub_deps (k_dependencies k)).
    Proof.
      pose proof Hsubs as H. unfold ksub in H.
      repeat match type of H with Forall _ (_ ++ _) => let I1 := fresh "I" in apply Forall_app in H as [I1 H] end.
      repeat split; assumption.
    Qed.

    Lemma sub_shape x : noobj x -> (exists l, sub x = JObj l) \/ (x = ENothing /\ sub x = JBool false).
    Proof. destruct x; try contradiction; intros _; try (left; eexists; reflexivity). right. split; reflexivity. Qed.

    Lemma R_items : sim_items O w (k_items k) (lookup (s_ "items") kvs).
    Proof.
      unfold kvs. rewrite (lk_items sub k (json_type c) Htail).
      destruct subs_split as (H & _). unfold sim_items.
      destruct (k_items k) as [[e|l]|]; cbn [items_json sub_items] in *.
      - inversion H as [|? ? [He Hn] _]; subst.
        destruct (sub_shape e Hn) as [(l & E)|(-> & E)]; rewrite E in *; eexists; split; try reflexivity; exact He.
      - exists l. split; [reflexivity|]. induction H as [|x r [Hx _] _ IH]; simpl; constructor; auto.
      - reflexivity.
    Qed.

    Lemma R_addl (a : addl elem) : Forall (fun x => sim x (sub x) /\ noobj x) (sub_addl a) ->
      sim_addl O w a (addl_json sub a).
    Proof.
      intros H. unfold sim_addl. destruct a as [[|]|e]; cbn [addl_json sub_addl] in *; try reflexivity; [now left|].
      inversion H as [|? ? [He Hn] _]; subst.
      destruct (sub_shape e Hn) as [(l & E)|(-> & E)]; rewrite E in *.
      - eexists; split; [reflexivity|exact He].
      - right. split; reflexivity.
    Qed.

    Lemma R_opt (o : option elem) : Forall (fun x => sim x (sub x) /\ noobj x) (sub_opt o) ->
      sim_opt O w o (option_map sub o).
    Proof.
      intros H. unfold sim_opt. destruct o as [e|]; cbn [option_map sub_opt] in *; [|reflexivity].
      inversion H as [|? ? [He _] _]; subst. eexists; split; [reflexivity|exact He].
    Qed.

    Lemma s_pats_keys l : keys (s_pats sub l) = keys l.
    Proof. induction l as [|[n e] r IH]; simpl; congruence. Qed.
    Lemma s_deps_keys l : keys (s_deps sub l) = keys l.
    Proof. induction l as [|[n [ns|e]] r IH]; simpl; congruence. Qed.

    Lemma R_pats : pats_rel O w kvs (k_patternProperties k).
    Proof.
      unfold pats_rel, kvs. rewrite (lk_pats sub k (json_type c) Htail).
      destruct subs_split as (_ & _ & _ & _ & H & _).
      destruct (k_patternProperties k) as [l|]; cbn [option_map sub_pats] in *; [|reflexivity].
      exists l. split; [reflexivity|]. unfold sim_assoc.
      induction l as [|[n e] r IH]; simpl in *; constructor.
      - inversion H as [|? ? [He _] _]; subst. split; [reflexivity|exact He].
      - apply IH. now inversion H.
    Qed.

    Lemma R_deps : deps_rel O w kvs (k_dependencies k).
    Proof.
      unfold deps_rel, kvs. rewrite (lk_deps sub k (json_type c) Htail).
      destruct subs_split as (_ & _ & _ & _ & _ & _ & _ & H).
      destruct Hloc as (_ & _ & _ & _ & _ & _ & _ & Hok).
      destruct (k_dependencies k) as [l|]; cbn [option_map sub_deps okeys] in *; [|reflexivity].
      split; [now rewrite s_deps_keys|]. exists l. split; [reflexivity|]. split.
      - intros key d Hin. clear Hok. induction l as [|[n d0] r IH]; [contradiction|].
        cbn [flat_map] in H. apply Forall_app in H as [H0 Hr].
        destruct Hin as [E|Hin].
        + inversion E; subst. destruct d as [ns|e]; cbn [s_deps dep_elems snd] in *.
          * left. exists (map JStr ns). split; [now left|]. now rewrite jstr_list_map.
          * right. inversion H0 as [|? ? [He Hn] _]; subst. exists e, (sub e). split; [reflexivity|].
            split; [now left|]. split; [|exact He]. rewrite (sub_ser e Hn). apply (ser_schema e Hn).
        + destruct (IH Hr Hin) as [(l0 & Hl & E)|(e & S0 & E & Hl & Hs' & He)].
          * left. exists l0. split; [|exact E]. destruct d0; simpl; now right.
          * right. exists e, S0. repeat split; auto. destruct d0; simpl; now right.
      - intros key S0 Hin _. rewrite <- s_deps_keys. unfold keys. apply in_map_iff. exists (key, S0). auto.
    Qed.

    (* properties *)
    Lemma s_props_map l : Forall (fun np : str * prop elem => p_source (snd np) <> []) l ->
      s_props true sub l = map (fun np => (p_source (snd np), sub (p_elem (snd np)))) l.
    Proof.
      induction 1 as [|[n p] r Hx _ IH]; simpl; [reflexivity|]. rewrite IH. f_equal. f_equal.
      cbn [snd] in Hx. destruct (p_source p); [congruence|reflexivity].
    Qed.

    Lemma props_lookup l : NoDup (map (fun np : str * prop elem => p_source (snd np)) l) ->
      Forall (fun np : str * prop elem => p_source (snd np) <> []) l ->
      Forall (fun x => sim x (sub x) /\ noobj x) (map (fun np => p_elem (snd np)) l) ->
      forall key,
        match lookup key (s_props true sub l) with
        | None => find_by_source (fun e => e) key l None = None
        | Some Sx => exists name req e, find_by_source (fun e => e) key l None = Some (name, req, e) /\ sim e Sx
        end.
    Proof.
      intros Hnd Hne Hs0 key. rewrite (s_props_map l Hne).
      destruct (lookup key (map (fun np => (p_source (snd np), sub (p_elem (snd np)))) l)) as [Sx|] eqn:El.
      - apply lookup_In in El. apply in_map_iff in El as ([n p] & E & Hin). inversion E; subst. clear E. cbn [snd] in *.
        exists n, (p_required p), (p_elem p). split.
        + apply (find_by_source_unique (fun e => e) l Hnd n p None Hin).
        + rewrite Forall_forall in Hs0. apply Hs0. apply in_map_iff. exists (n, p). auto.
      - apply find_by_source_skip. apply lookup_None in El. intros Hk. apply El.
        unfold keys. rewrite map_map. exact Hk.
    Qed.

    Lemma R_props : props_rel O w kvs (k_properties k).
    Proof.
      unfold props_rel, kvs. rewrite (lk_properties sub k (json_type c) Htail).
      destruct subs_split as (_ & _ & _ & H & _).
      destruct Hloc as (_ & _ & _ & _ & _ & Hpo & _).
      destruct (k_properties k) as [[|p0 r]|]; cbn [props_json find_by_source_o props_ok sub_props] in *; try (intros key; reflexivity).
      destruct Hpo as [Hnd Hall].
      apply props_lookup; auto. eapply Forall_impl; [|exact Hall]. intros a [Ha _]. exact Ha.
    Qed.

    (* required *)
    Definition E_ := match k_required k with Some l => l | None => [] end.
    Definition PR_ := match k_properties k with Some ps => props_required ps | None => [] end.
    Definition M_ := match merged_required true k with Some l => l | None => [] end.

    Lemma FP_spec l : Forall (fun np : str * prop elem => p_source (snd np) <> []) l ->
      forall r, In r (required_of_props l) <-> exists np, In np l /\ p_required (snd np) = true /\ p_source (snd np) = r.
    Proof.
      intros Hne r. unfold required_of_props. rewrite in_map_iff. split.
      - intros ([n p] & E & Hf). apply filter_In in Hf as [Hin Hr]. exists (n, p). cbn [snd fst] in *.
        rewrite Forall_forall in Hne. specialize (Hne _ Hin). cbn [snd] in Hne.
        destruct (p_source p); [congruence|]. auto.
      - intros ([n p] & Hin & Hr & E). exists (n, p). split; [|apply filter_In; auto].
        cbn [snd fst] in *. rewrite Forall_forall in Hne. specialize (Hne _ Hin). cbn [snd] in Hne.
        destruct (p_source p); [congruence|exact E].
    Qed.

    Lemma PR_spec l r : In r (props_required l) <->
      exists np, In np l /\ p_required (snd np) = true /\ elem_default (p_elem (snd np)) = None /\ p_source (snd np) = r.
    Proof.
      unfold props_required. rewrite in_map_iff. split.
      - intros (np & E & Hf). apply filter_In in Hf as [Hin Hc]. apply andb_true_iff in Hc as [H1 H2].
        exists np. repeat split; auto. destruct (elem_default (p_elem (snd np))); [discriminate|reflexivity].
      - intros (np & Hin & H1 & H2 & E). exists np. split; [exact E|]. apply filter_In. split; [exact Hin|].
        now rewrite H1, H2.
    Qed.

    Lemma M_spec r : In r M_ <-> In r E_ \/ In r PR_.
    Proof.
      unfold M_, merged_required, E_, PR_.
      destruct Hloc as (_ & _ & _ & _ & _ & Hpo & _).
      destruct (k_properties k) as [[|p0 l]|]; cbn [props_ok] in Hpo.
      - cbn [props_required filter map]. destruct (match k_required k with Some l => l | None => [] end); simpl; tauto.
      - destruct Hpo as [_ Hall].
        set (E := match k_required k with Some l0 => l0 | None => [] end) in *.
        set (ps := p0 :: l) in *.
        assert (Hne : Forall (fun np : str * prop elem => p_source (snd np) <> []) ps).
        { eapply Forall_impl; [|exact Hall]. intros a [Ha _]. exact Ha. }
        assert (G : In r (E ++ filter (fun n => negb (mem_str n E)) (required_of_props ps)) <-> In r E \/ In r (props_required ps)).
        { rewrite in_app_iff, filter_In, (FP_spec ps Hne), PR_spec. split.
          - intros [H|[(np & Hin & Hr & Es) Hn]]; [now left|].
            rewrite Forall_forall in Hall. destruct (Hall _ Hin) as [_ Hd]. destruct (Hd Hr) as [Hd0|Hd0].
            + right. exists np. auto.
            + left. now rewrite <- Es.
          - intros [H|(np & Hin & Hr & Hd & Es)]; [now left|].
            destruct (mem_str r E) eqn:Em; [left; now apply mem_str_In|].
            right. split; [exists np; auto|reflexivity]. }
        destruct (E ++ filter (fun n => negb (mem_str n E)) (required_of_props ps)) eqn:El; [|exact G]. simpl. exact G.
      - destruct (match k_required k with Some l => l | None => [] end); simpl; tauto.
    Qed.

    Lemma lk_req_list :
      match lookup (s_ "required") kvs with Some j => jstr_list j | None => [] end = M_.
    Proof.
      unfold kvs, M_. rewrite (lk_required sub k (json_type c) Htail).
      destruct (merged_required true k); cbn [option_map]; [apply jstr_list_map|reflexivity].
    Qed.

    Lemma R_req : forall r, In r PR_ -> In r (match lookup (s_ "required") kvs with Some j => jstr_list j | None => [] end).
    Proof. intros r Hr. rewrite lk_req_list. apply M_spec. now right. Qed.

    (* ---- the element's record is the record the parser would build from the emitted list ---- *)
    Let K' := kw_record kvs (k_properties k) (k_items k) (k_patternProperties k) (k_propertyNames k)
                        (k_contains k) (k_dependencies k) (k_additionalProperties k) (k_additionalItems k).

    Lemma bridge_same : same_but k K'.
    Proof.
      destruct Hloc as (Hc & He & _).
      unfold same_but, K', kw_record.
      cbn [k_default k_const k_enum k_items k_additionalItems k_minItems k_maxItems k_uniqueItems
           k_contains k_minimum k_maximum k_exclusiveMinimum k_exclusiveMaximum k_multipleOf k_format
           k_pattern k_minLength k_maxLength k_required k_properties k_patternProperties
           k_additionalProperties k_minProperties k_maxProperties k_propertyNames k_dependencies
           k_description].
      unfold kvs.
      rewrite (lk_const sub k _ Htail), (lk_enum sub k _ Htail), (lk_minItems sub k _ Htail), (lk_maxItems sub k _ Htail),
              (lk_unique sub k _ Htail), (lk_minimum sub k _ Htail), (lk_maximum sub k _ Htail),
              (lk_exmin sub k _ Htail), (lk_exmax sub k _ Htail), (lk_multipleOf sub k _ Htail),
              (lk_format sub k _ Htail), (lk_pattern sub k _ Htail), (lk_minLength sub k _ Htail),
              (lk_maxLength sub k _ Htail), (lk_minProps sub k _ Htail), (lk_maxProps sub k _ Htail).
      repeat split; try reflexivity.
      - red in Hc. destruct (k_const k); [|reflexivity]. now rewrite clean_strip.
      - destruct (k_enum k) as [l|]; cbn [option_map]; [|reflexivity]. now rewrite clean_strip.
      - destruct (k_uniqueItems k); reflexivity.
      - destruct (k_format k); reflexivity.
      - destruct (k_pattern k); reflexivity.
    Qed.

    Lemma req_names_K' : required_names K' = M_ ++ PR_.
    Proof.
      unfold required_names, K', kw_record. cbn [k_required k_properties]. f_equal.
      pose proof lk_req_list as H. destruct (lookup (s_ "required") kvs); exact H.
    Qed.

    Lemma bridge_req (m : list (str * json)) :
      forallb (fun r => has_key r m) (required_names k) = forallb (fun r => has_key r m) (required_names K').
    Proof.
      rewrite req_names_K'. unfold required_names. fold E_. fold PR_.
      apply eq_true_iff_eq. rewrite !forallb_forall. split; intros H r Hr; apply H; rewrite in_app_iff in *.
      - destruct Hr as [Hr|Hr]; [|now right]. apply M_spec in Hr. exact Hr.
      - destruct Hr as [Hr|Hr]; [left; apply M_spec; now left|now right].
    Qed.

    Lemma comp_absent v : cl_comp F kvs v = true.
    Proof.
      unfold cl_comp. rewrite !wkey_lookup. unfold kvs.
      rewrite (lk_absent sub k _ Htail "allOf"), (lk_absent sub k _ Htail "anyOf"),
              (lk_absent sub k _ Htail "oneOf"), (lk_absent sub k _ Htail "not") by (cbn; tauto).
      reflexivity.
    Qed.

    Lemma Hconst' : lit_clean kvs "const".
    Proof. red. unfold kvs. rewrite (lk_const sub k _ Htail). destruct Hloc as (Hc & _). exact Hc. Qed.
    Lemma Henum' : lit_clean kvs "enum".
    Proof.
      red. unfold kvs. rewrite (lk_enum sub k _ Htail). destruct Hloc as (_ & He & _).
      destruct (k_enum k); cbn [option_map]; auto.
    Qed.
    Lemma Raddi' : sim_addl O w (k_additionalItems k) (lookup (s_ "additionalItems") kvs).
    Proof.
      unfold kvs. rewrite (lk_addi sub k _ Htail). destruct subs_split as (_ & H & _).
      now apply R_addl.
    Qed.
    Lemma Raddp' : sim_addl O w (k_additionalProperties k) (lookup (s_ "additionalProperties") kvs).
    Proof.
      unfold kvs. rewrite (lk_addp sub k _ Htail). destruct subs_split as (_ & _ & _ & _ & _ & H & _).
      now apply R_addl.
    Qed.
    Lemma Rcontains' : sim_opt O w (k_contains k) (lookup (s_ "contains") kvs).
    Proof. unfold kvs. rewrite (lk_contains sub k _ Htail). destruct subs_split as (_ & _ & H & _). now apply R_opt. Qed.
    Lemma Rpnames' : sim_opt O w (k_propertyNames k) (lookup (s_ "propertyNames") kvs).
    Proof. unfold kvs. rewrite (lk_pnames sub k _ Htail). destruct subs_split as (_ & _ & _ & _ & _ & _ & H & _). now apply R_opt. Qed.

    Lemma type_lookup : lookup (s_ "type") kvs = lookup (s_ "type") (json_type c).
    Proof. unfold kvs. apply lk_type. Qed.

    Lemma cl_type_c v : cl_type kvs v = type_ok c v.
    Proof.
      unfold cl_type. rewrite type_lookup. destruct c; cbn [json_type lookup]; lits; cbv iota;
        try reflexivity; destruct v; vm_compute; reflexivity.
    Qed.

  End EKcase.

  Theorem ek_meaning c k (Hloc : local_dsl (EK c k))
          (Hsubs : Forall (fun x => sim x (sub x) /\ noobj x) (ksub k)) v :
    jwf v -> om (B (EK c k) (Some v)) (F (JObj (ser_kwds true true sub k ++ json_type c)) v).
  Proof.
    intros Hv. set (kvs := ser_kwds true true sub k ++ json_type c).
    set (K' := kw_record kvs (k_properties k) (k_items k) (k_patternProperties k) (k_propertyNames k)
                        (k_contains k) (k_dependencies k) (k_additionalProperties k) (k_additionalItems k)).
    cbn [v6]. rewrite (comp_absent c k Hloc), andb_true_r, (cl_type_c c k Hloc).
    pose proof Hloc as Hloc0.
    pose proof (bridge_same c k Hloc) as Hbs. pose proof (bridge_req c k Hloc) as Hbr.
    fold kvs in Hbs, Hbr. fold K' in Hbs, Hbr.
    destruct (ecls_eqb c CElement) eqn:Ec.
    - (* Element *)
      assert (c = CElement) by (destruct c; try discriminate; reflexivity). subst c.
      rewrite (build_same O CElement k K' v Hbs Hbr).
      eapply om_ext.
      + apply (untyped_om O w kvs (k_properties k) (k_items k) (k_patternProperties k) (k_propertyNames k)
                          (k_contains k) (k_dependencies k) (k_additionalProperties k) (k_additionalItems k)
                          (Hconst' _ k Hloc0) (Henum' _ k Hloc0) (R_items _ k Hloc0 Hsubs) (Raddi' _ k Hloc0 Hsubs)
                          (Rcontains' _ k Hloc0 Hsubs) (Rpnames' _ k Hloc0 Hsubs) (R_props _ k Hloc0 Hsubs) (R_pats _ k Hloc0 Hsubs)
                          (Raddp' _ k Hloc0 Hsubs) (R_deps _ k Hloc0 Hsubs) (R_req _ k Hloc0)).
        * intros name. apply (waived_false w Hw kvs name). red. unfold kvs. rewrite (type_lookup CElement k). exact I.
        * exact Hv.
      + reflexivity.
    - (* typed *)
      destruct Hloc as (_ & _ & Hsig & Harr & Hreqn & _).
      assert (Hc1 : c <> CElement) by (intros ->; discriminate).
      assert (Hrq0 : forall k0 : kwds elem, k_required k0 = None -> k_properties k0 = None -> required_names k0 = []).
      { intros k0 E1 E2. unfold required_names. now rewrite E1, E2. }
      assert (Hfp : forall k0 : kwds elem, k_required (filter_kw c k0) = None /\ k_properties (filter_kw c k0) = None).
      { intros k0. unfold filter_kw. cbn [k_required k_properties]. destruct c; try congruence; split; reflexivity. }
      assert (Hkp : k_properties k = None).
      { destruct Hsig as (_ & _ & _ & _ & _ & _ & _ & _ & _ & _ & _ & _ & _ & _ & _ & _ & _ & E & _).
        rewrite <- E. apply Hfp. }
      assert (E1 : B (EK c k) (Some v) = B (EK c (filter_kw c K')) (Some v)).
      { rewrite <- (build_same O c (filter_kw c k) k v Hsig).
        - apply build_same; [apply same_but_filter, Hbs|].
          intros m. destruct (Hfp k) as [A1 A2]. destruct (Hfp K') as [A3 A4].
          now rewrite (Hrq0 _ A1 A2), (Hrq0 _ A3 A4).
        - intros m. destruct (Hfp k) as [A1 A2]. now rewrite (Hrq0 _ A1 A2), (Hrq0 _ (Hreqn Hc1) Hkp). }
      rewrite E1.
      destruct (ecls_eqb c CArray) eqn:Ea.
      + assert (c = CArray) by (destruct c; try discriminate; reflexivity). subst c.
        assert (Earr : arr_record K' = filter_kw CArray K').
        { unfold arr_record. assert (Ei : k_items (filter_kw CArray K') = k_items k) by reflexivity.
          rewrite Ei. destruct (k_items k); [reflexivity|]. exfalso. now apply Harr. }
        rewrite <- Earr. eapply om_ext.
        * apply (array_om O w kvs (k_properties k) (k_items k) (k_patternProperties k) (k_propertyNames k)
                          (k_contains k) (k_dependencies k) (k_additionalProperties k) (k_additionalItems k)
                          (Hconst' _ k Hloc0) (Henum' _ k Hloc0) (R_items _ k Hloc0 Hsubs) (Raddi' _ k Hloc0 Hsubs)
                          (Rcontains' _ k Hloc0 Hsubs) v Hv).
        * destruct v; try reflexivity. cbn [type_ok cl_object andb]. now rewrite andb_true_r.
      + assert (Hc2 : c <> CArray) by (intros ->; discriminate).
        eapply om_ext.
        * apply (typed_scalar_om O kvs (k_properties k) (k_items k) (k_patternProperties k) (k_propertyNames k)
                          (k_contains k) (k_dependencies k) (k_additionalProperties k) (k_additionalItems k)
                          (Hconst' _ k Hloc0) (Henum' _ k Hloc0) c v Hc1 Hc2).
        * destruct (type_ok c v) eqn:Et; [|reflexivity].
          destruct (scalar_value_clauses O w kvs c v Hc1 Hc2 Et) as [-> ->]. cbn [andb]. now rewrite !andb_true_r.
  Qed.

  (* ---- the theorem ---- *)
  Theorem ser_meaning : forall e, dsl e -> sim e (ser e).
  Proof.
    apply (elem_ind' (fun e => dsl e -> sim e (ser e))).
    intros e IH Hd. inversion Hd as [? Hloc Hch]; subst.
    destruct e as [c k| |x d|m es d|n b k]; cbn [children] in *.
    - (* Element / typed element *)
      rewrite ser_EK. intros v Hv.
      apply (ek_meaning c k Hloc); [|exact Hv].
      apply Forall_forall. intros x Hx. rewrite Forall_forall in IH, Hch.
      pose proof (dsl_noobj x (Hch x Hx)) as Hn. split; [|exact Hn].
      rewrite (sub_ser x Hn). exact (IH x Hx (Hch x Hx)).
    - intros v _. reflexivity.
    - (* Not *)
      inversion IH as [|? ? Hx _]; subst. inversion Hch as [|? ? Hdx _]; subst.
      pose proof (dsl_noobj x Hdx) as Hn.
      intros v Hv. change (ser (ENot x d)) with (JObj ((match d with Some j => [(s_ "default", j)] | None => [] end) ++ [(s_ "not", sub x)])).
      rewrite (v6_single d "not" (sub x) v) by (cbn; tauto).
      unfold cl_comp. cbn [wkey]. lits. cbn [andb]. rewrite (sub_ser x Hn).
      cbn [build with_default]. pose proof (Hx Hdx v Hv) as Hs.
      destruct (B x (Some v)); simpl in *; rewrite ?Hs; reflexivity.
    - (* AnyOf / OneOf / AllOf *)
      cbn [local_dsl] in Hloc.
      pose proof (Forall2_sub es IH Hch) as H2.
      intros v Hv.
      change (ser (EComp m es d)) with (JObj ((match d with Some j => [(s_ "default", j)] | None => [] end) ++ [(mode_key m, JArr (s_elems sub es))])).
      assert (Hom : Forall2 om (map (fun e' => B e' (Some v)) es) (map (fun S0 => F S0 v) (s_elems sub es))).
      { clear - H2 Hv. induction H2; simpl; constructor; auto. }
      cbn [build with_default]. rewrite map_elems_eq.
      destruct m; unfold mode_key.
      + rewrite (v6_single d "anyOf" _ v) by (cbn; tauto). unfold cl_comp. cbn [wkey]. lits. cbn [andb]. rewrite ?andb_true_r.
        eapply om_ext; [apply attempt_any; exact Hom|]. clear. induction (s_elems sub es) as [|a l IHl]; simpl; [reflexivity|now rewrite IHl].
      + rewrite (v6_single d "oneOf" _ v) by (cbn; tauto). unfold cl_comp. cbn [wkey]. lits. cbn [andb]. rewrite ?andb_true_r.
        eapply om_ext; [apply attempt_one; exact Hom|]. now rewrite filter_map_len.
      + rewrite (v6_single d "allOf" _ v) by (cbn; tauto). unfold cl_comp. cbn [wkey]. lits. cbn [andb]. rewrite ?andb_true_r.
        eapply om_ext; [apply attempt_all; [|exact Hom]|].
        * destruct es; [congruence|discriminate].
        * clear. induction (s_elems sub es) as [|a l IHl]; simpl; [reflexivity|now rewrite IHl].
    - contradiction.
  Qed.
End M.

(* ---- the executable checker of the fragment is sound ---- *)
Lemma sig_okb_sound c k : sig_okb c k = true -> same_but (filter_kw c k) k.
Proof.
  intros H. unfold sig_okb in H.
  repeat match type of H with _ && _ = true => let H2 := fresh "Hs" in apply andb_true_iff in H as [H H2] end.
  unfold same_but, filter_kw.
  cbn [k_default k_const k_enum k_items k_additionalItems k_minItems k_maxItems k_uniqueItems
       k_contains k_minimum k_maximum k_exclusiveMinimum k_exclusiveMaximum k_multipleOf k_format
       k_pattern k_minLength k_maxLength k_required k_properties k_patternProperties
       k_additionalProperties k_minProperties k_maxProperties k_propertyNames k_dependencies
       k_description].
  destruct c;
    repeat match goal with
           | Hx : context [mem_str (s_ ?p) (signature_of ?c0)] |- _ =>
             let b := eval vm_compute in (mem_str (s_ p) (signature_of c0)) in
             change (mem_str (s_ p) (signature_of c0)) with b in Hx
           end;
    repeat match goal with
           | |- context [mem_str (s_ ?p) (signature_of ?c0)] =>
             let b := eval vm_compute in (mem_str (s_ p) (signature_of c0)) in
             change (mem_str (s_ p) (signature_of c0)) with b
           end;
    cbn [orb] in *; cbv iota;
    repeat match goal with
           | Hx : is_none ?o = true |- _ => destruct o; [discriminate Hx|clear Hx]
           | Hx : is_add_true ?a = true |- _ => destruct a as [[|]|]; try discriminate Hx; clear Hx
           | Hx : negb ?b = true |- _ => destruct b; [discriminate Hx|clear Hx]
           end;
    repeat split; reflexivity.
Qed.

Lemma elem_has_default_none e : elem_has_default e = false -> elem_default e = None.
Proof.
  destruct e; simpl; try reflexivity; intros H; apply negb_false_iff in H;
    match goal with H : is_none ?o = true |- _ => destruct o; [discriminate|reflexivity] end.
Qed.

Lemma local_dslb_sound e : local_dslb e = true -> local_dsl e.
Proof.
  destruct e as [c k| |x d|m es d|n b k]; cbn [local_dslb local_dsl]; try (intros; exact I); try discriminate.
  - intros H.
    repeat match type of H with _ && _ = true => let H2 := fresh "Hl" in apply andb_true_iff in H as [H H2] end.
    split; [unfold lclean; destruct (k_const k); auto|].
    split; [destruct (k_enum k); auto|].
    split; [now apply sig_okb_sound|].
    split; [intros ->; cbn in Hl3; destruct (k_items k); [discriminate|discriminate]|].
    split; [intros Hc; destruct c; try congruence; cbn in Hl2; destruct (k_required k); auto; discriminate|].
    split.
    { unfold props_okb in Hl1. unfold props_ok. destruct (k_properties k) as [l|]; auto.
      apply andb_true_iff in Hl1 as [H1 H2]. split; [now apply nodupb_sound|].
      apply Forall_forall. intros np Hin. rewrite forallb_forall in H2. specialize (H2 _ Hin).
      apply andb_true_iff in H2 as [H3 H4]. split.
      - destruct (p_source (snd np)); [discriminate|discriminate].
      - intros Hr. rewrite Hr in H4. cbn [negb orb] in H4. apply orb_true_iff in H4 as [H4|H4].
        + left. apply negb_true_iff in H4. now apply elem_has_default_none.
        + right. now apply mem_str_In. }
    split; [unfold okeysb in Hl0; unfold okeys; destruct (k_patternProperties k); auto; now apply nodupb_sound|].
    unfold okeysb in Hl; unfold okeys; destruct (k_dependencies k); auto; now apply nodupb_sound.
  - intros H. destruct es; [discriminate|discriminate].
Qed.

Theorem dslb_sound : forall fuel e, dslb fuel e = true -> dsl e.
Proof.
  induction fuel as [|n IH]; intros e H; [discriminate|]. cbn [dslb] in H.
  apply andb_true_iff in H as [H1 H2]. constructor; [now apply local_dslb_sound|].
  apply Forall_forall. intros x Hx. apply IH. rewrite forallb_forall in H2. auto.
Qed.

(* ---- the statement used by Properties/C03.v ---- *)
Theorem ser_meaning_checked O w fuel e :
  w <> WAlways -> dslb fuel e = true ->
  forall v, jwf v -> om (build O e (Some v)) (v6 O w (ser_top true true [] e) v).
Proof. intros Hw H v Hv. exact (ser_meaning O w Hw e (dslb_sound fuel e H) v Hv). Qed.
