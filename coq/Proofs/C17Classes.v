(* C17Classes.v - equal elements are interchangeable, for trees WITH object classes: the congruence
   lemmas of C17Cong.v with the child serializer, the tails of the keyword lists and the required
   clause as parameters; then Element / typed elements as before and object classes (whose documents
   waive a required name with a defaulted property), over the in-place documents of Resolve.ser_inl;
   with C03_inplace_meaning: equal trees give the same verdicts. *)
From Coq Require String. Import String.StringSyntax.
From Coq Require Import Lia Btauto.
From Statham.Model Require Import Str Json Elem Equality PyNum Validate Tables Parser Spec6 Plain SerJson Sub SerFrag EqFrag Resolve.
From Statham.Proofs Require Import StrFacts JsonInd DictFacts JsonEqProof EqualityProof JsonCong MetaProof ElemInd
     C03Lookup C01Vm C01Scalar C01Items C01Object C01Deep C01Plain C01Element C01Parse C03Meaning C17Cong C03Classes.
From Statham.Model Require Import ClsFrag.
From Statham.Proofs Require C03Doc.
Local Open Scope string_scope.
Arguments s_ : simpl never.

Section EKg.
  Variable O : oracles.
  Variable w : wmode.
  Notation F := (v6 O w).
  Notation Feq := (Feq O w).

  Variables G1 G2 : elem -> json.
  Variable Q : str * prop elem -> Prop.
  Variable c : ecls.
  Variables k1 k2 : kwds elem.
  Variables tail1 tail2 : list (str * json).
  Hypothesis Ht1 : forall key, In key (keys tail1) -> key = s_ "type" \/ key = s_ "title".
  Hypothesis Ht2 : forall key, In key (keys tail2) -> key = s_ "type" \/ key = s_ "title".
  Hypothesis Etype : lookup (s_ "type") tail1 = lookup (s_ "type") tail2.
  Hypothesis HE : kwds_eq elem_eq k1 k2 = true.
  Hypothesis W1 : kwf k1.
  Hypothesis W2 : kwf k2.
  Hypothesis D1 : local_g Q c k1.
  Hypothesis D2 : local_g Q c k2.
  Hypothesis N1 : Forall (gsh G1) (ksub k1).
  Hypothesis N2 : Forall (gsh G2) (ksub k2).
  Hypothesis IH : forall x y, In x (ksub k1) -> In y (ksub k2) -> elem_eq x y = true -> Feq (G1 x) (G2 y).
  Let kvs1 := ser_kwds true true G1 k1 ++ tail1.
  Let kvs2 := ser_kwds true true G2 k2 ++ tail2.
  (* the required clause (with its waiver) is supplied by the caller: Element / typed elements never waive, classes do *)
  Hypothesis L_req : forall m : list (str * json),
    (match lookup (s_ "required") kvs1 with
     | Some (JArr names) => forallb (fun n => match n with JStr name => has_key name m || waived w kvs1 name | _ => true end) names
     | _ => true end) =
    (match lookup (s_ "required") kvs2 with
     | Some (JArr names) => forallb (fun n => match n with JStr name => has_key name m || waived w kvs2 name | _ => true end) names
     | _ => true end).

  (* membership in ksub, by position *)
  Lemma ks_items k x : In x (sub_items (k_items k)) -> In x (ksub k).
  Proof. intros H. unfold ksub. rewrite !in_app_iff. tauto. Qed.
  Lemma ks_addi k x : In x (sub_addl (k_additionalItems k)) -> In x (ksub k).
  Proof. intros H. unfold ksub. rewrite !in_app_iff. tauto. Qed.
  Lemma ks_contains k x : In x (sub_opt (k_contains k)) -> In x (ksub k).
  Proof. intros H. unfold ksub. rewrite !in_app_iff. tauto. Qed.
  Lemma ks_props k x : In x (sub_props (k_properties k)) -> In x (ksub k).
  Proof. intros H. unfold ksub. rewrite !in_app_iff. tauto. Qed.
  Lemma ks_pats k x : In x (sub_pats (k_patternProperties k)) -> In x (ksub k).
  Proof. intros H. unfold ksub. rewrite !in_app_iff. tauto. Qed.
  Lemma ks_addp k x : In x (sub_addl (k_additionalProperties k)) -> In x (ksub k).
  Proof. intros H. unfold ksub. rewrite !in_app_iff. tauto. Qed.
  Lemma ks_pnames k x : In x (sub_opt (k_propertyNames k)) -> In x (ksub k).
  Proof. intros H. unfold ksub. rewrite !in_app_iff. tauto. Qed.
  Lemma ks_deps k x : In x (sub_deps (k_dependencies k)) -> In x (ksub k).
  Proof. intros H. unfold ksub. rewrite !in_app_iff. tauto. Qed.

  Lemma sub_nonarr (Gs : elem -> json) k x : Forall (gsh Gs) (ksub k) -> In x (ksub k) -> nonarr (Gs x).
  Proof.
    intros Hn Hx. rewrite Forall_forall in Hn. specialize (Hn x Hx). unfold nonarr.
    destruct Hn as [(l & E)|(_ & E)]; rewrite E; exact I.
  Qed.

  (* the fields of the equality *)
  Lemma HEf :
    items_eq elem_eq (k_items k1) (k_items k2) = true /\ addl_eq elem_eq (k_additionalItems k1) (k_additionalItems k2) = true /\
    oelem_eq elem_eq (k_contains k1) (k_contains k2) = true /\
    opt_eqb (list_eqb str_eqb) (k_required k1) (k_required k2) = true /\
    props_eq elem_eq (k_properties k1) (k_properties k2) = true /\
    pats_eq elem_eq (k_patternProperties k1) (k_patternProperties k2) = true /\
    addl_eq elem_eq (k_additionalProperties k1) (k_additionalProperties k2) = true /\
    oelem_eq elem_eq (k_propertyNames k1) (k_propertyNames k2) = true /\
    deps_eq elem_eq (k_dependencies k1) (k_dependencies k2) = true.
  Proof.
    pose proof HE as H. unfold kwds_eq in H.
    repeat match type of H with _ && _ = true => let H2 := fresh "E" in apply andb_true_iff in H as [H H2] end.
    repeat split; assumption.
  Qed.

  Lemma elems_Feq l1 : forall l2, (forall x, In x l1 -> In x (ksub k1)) -> (forall y, In y l2 -> In y (ksub k2)) ->
    elems_eq elem_eq l1 l2 = true -> Forall2 Feq (s_elems G1 l1) (s_elems G2 l2).
  Proof.
    induction l1 as [|x r IHl]; intros [|y s] A1 A2 He; simpl in He; try discriminate; [constructor|].
    apply andb_true_iff in He as [He1 He2]. simpl. constructor.
    - apply IH; [apply A1|apply A2|exact He1]; now left.
    - apply IHl; [intros; apply A1; now right|intros; apply A2; now right|exact He2].
  Qed.

  Lemma L_items : irel O w (lookup (s_ "items") kvs1) (lookup (s_ "items") kvs2).
  Proof.
    unfold kvs1, kvs2. rewrite (lk_items G1 k1 _ Ht1), (lk_items G2 k2 _ Ht2).
    destruct HEf as (H & _). unfold irel.
    destruct (k_items k1) as [[x|l1]|] eqn:E1, (k_items k2) as [[y|l2]|] eqn:E2; simpl in H; try discriminate; cbn [items_json]; auto.
    - assert (Hx : In x (ksub k1)) by (apply ks_items; rewrite E1; now left).
      assert (Hy : In y (ksub k2)) by (apply ks_items; rewrite E2; now left).
      pose proof (sub_nonarr G1 k1 x N1 Hx) as A1. pose proof (sub_nonarr G2 k2 y N2 Hy) as A2.
      pose proof (IH x y Hx Hy H) as Hf.
      destruct (G1 x), (G2 y); try contradiction; auto.
    - apply elems_Feq; [intros x Hx; apply ks_items; now rewrite E1|intros y Hy; apply ks_items; now rewrite E2|exact H].
  Qed.

  Lemma L_addl (a1 a2 : addl elem) : addl_eq elem_eq a1 a2 = true ->
    (forall x, In x (sub_addl a1) -> In x (ksub k1)) -> (forall y, In y (sub_addl a2) -> In y (ksub k2)) ->
    orel O w (addl_json G1 a1) (addl_json G2 a2).
  Proof.
    intros H A1 A2. unfold orel. destruct a1 as [[|]|x], a2 as [[|]|y]; simpl in H; try discriminate; cbn [addl_json]; auto.
    - intros v _. reflexivity.
    - apply IH; [apply A1|apply A2|exact H]; now left.
  Qed.

  Lemma L_opt (o1 o2 : option elem) : oelem_eq elem_eq o1 o2 = true ->
    (forall x, In x (sub_opt o1) -> In x (ksub k1)) -> (forall y, In y (sub_opt o2) -> In y (ksub k2)) ->
    orel O w (option_map G1 o1) (option_map G2 o2).
  Proof.
    intros H A1 A2. unfold orel. destruct o1 as [x|], o2 as [y|]; simpl in H; try discriminate; cbn [option_map]; auto.
    apply IH; [apply A1|apply A2|exact H]; now left.
  Qed.

  Definition ps1 := match k_properties k1 with Some l => l | None => [] end.
  Definition ps2 := match k_properties k2 with Some l => l | None => [] end.

  Lemma props_dict : length ps1 = length ps2 /\ dsub (prop_rel elem_eq) ps1 ps2 = true /\
                     NoDup (keys ps1) /\ NoDup (keys ps2).
  Proof.
    destruct HEf as (_ & _ & _ & _ & H & _).
    destruct W1 as (_ & _ & _ & _ & _ & _ & _ & _ & _ & _ & _ & _ & _ & _ & K1 & _).
    destruct W2 as (_ & _ & _ & _ & _ & _ & _ & _ & _ & _ & _ & _ & _ & _ & K2 & _).
    unfold ps1, ps2. destruct (k_properties k1) as [l1|], (k_properties k2) as [l2|]; simpl in H; try discriminate.
    - apply andb_true_iff in H as [Hl Hs]. apply PeanoNat.Nat.eqb_eq in Hl. rewrite props_sub_dsub in Hs. auto.
    - repeat split; constructor.
  Qed.

  Lemma PR_iff r : In r (PR_ k1) <-> In r (PR_ k2).
  Proof.
    destruct props_dict as (Hl & Hd & Hn1 & Hn2).
    assert (E1 : PR_ k1 = props_required ps1) by (unfold PR_, ps1; destruct (k_properties k1); reflexivity).
    assert (E2 : PR_ k2 = props_required ps2) by (unfold PR_, ps2; destruct (k_properties k2); reflexivity).
    rewrite E1, E2, !PR_spec. split.
    - intros ([n p] & Hin & Hr & Hdf & Es). destruct (dict_fwd _ _ _ Hd n p Hin) as (q & Hq & HR).
      unfold prop_rel in HR. apply andb_true_iff in HR as [HR Hsrc]. apply andb_true_iff in HR as [He Hrq].
      cbn [snd] in *. exists (n, q). cbn [snd]. apply Bool.eqb_prop in Hrq. apply str_eqb_eq in Hsrc.
      repeat split; auto; try congruence. now apply (proj1 (elem_eq_default _ _ He)).
    - intros ([n q] & Hin & Hr & Hdf & Es). destruct (dict_back _ _ _ Hn1 Hn2 Hl Hd n q Hin) as (p & Hp & HR).
      unfold prop_rel in HR. apply andb_true_iff in HR as [HR Hsrc]. apply andb_true_iff in HR as [He Hrq].
      cbn [snd] in *. exists (n, p). cbn [snd]. apply Bool.eqb_prop in Hrq. apply str_eqb_eq in Hsrc.
      repeat split; auto; try congruence. now apply (proj2 (elem_eq_default _ _ He)).
  Qed.

  (* ---- members ---- *)
  Lemma decl_as (Gs : elem -> json) k tl (Htl : forall key, In key (keys tl) -> key = s_ "type" \/ key = s_ "title") key :
    decl_S (ser_kwds true true Gs k ++ tl) key =
    lookup key (s_props true Gs (match k_properties k with Some l => l | None => [] end)).
  Proof.
    unfold decl_S. rewrite (lk_properties Gs k _ Htl). destruct (k_properties k) as [[|p r]|]; reflexivity.
  Qed.

  Lemma props_side k (D : local_g Q c k) :
    let ps := match k_properties k with Some l => l | None => [] end in
    NoDup (map (fun np : str * prop elem => p_source (snd np)) ps) /\
    Forall (fun np : str * prop elem => p_source (snd np) <> []) ps.
  Proof.
    destruct D as (_ & _ & _ & _ & _ & Hpo & _). cbn zeta. destruct (k_properties k) as [l|]; cbn [props_okQ] in Hpo.
    - destruct Hpo as [H1 H2]. split; [exact H1|]. eapply Forall_impl; [|exact H2]. intros a [Ha _]. exact Ha.
    - split; constructor.
  Qed.

  Lemma lookup_sprops (Gs : elem -> json) l key : Forall (fun np : str * prop elem => p_source (snd np) <> []) l ->
    NoDup (map (fun np : str * prop elem => p_source (snd np)) l) ->
    forall S0, lookup key (s_props true Gs l) = Some S0 <->
               exists n p, In (n, p) l /\ p_source p = key /\ S0 = Gs (p_elem p).
  Proof.
    intros Hne Hnd S0. rewrite (s_props_map Gs l Hne). split.
    - intros H. apply lookup_In in H. apply in_map_iff in H as ([n p] & E & Hin). inversion E; subst. eauto.
    - intros (n & p & Hin & Hs & ->). apply In_lookup.
      + unfold keys. rewrite map_map. exact Hnd.
      + apply in_map_iff. exists (n, p). cbn [snd]. rewrite Hs. auto.
  Qed.

  Lemma decl_rel2 key :
    match decl_S kvs1 key, decl_S kvs2 key with
    | Some S1, Some S2 => Feq S1 S2
    | None, None => True
    | _, _ => False
    end.
  Proof.
    unfold kvs1, kvs2. rewrite (decl_as G1 k1 _ Ht1 key), (decl_as G2 k2 _ Ht2 key). fold ps1. fold ps2.
    destruct props_dict as (Hl & Hd & Hn1 & Hn2).
    destruct (props_side k1 D1) as [Hs1 He1]. destruct (props_side k2 D2) as [Hs2 He2]. cbn zeta in *. fold ps1 in Hs1, He1. fold ps2 in Hs2, He2.
    destruct (lookup key (s_props true G1 ps1)) as [S1|] eqn:E1.
    - apply (lookup_sprops G1 ps1 key He1 Hs1) in E1 as (n & p & Hin & Hsrc & ->).
      destruct (dict_fwd _ _ _ Hd n p Hin) as (q & Hq & HR).
      unfold prop_rel in HR. apply andb_true_iff in HR as [HR Hsq]. apply andb_true_iff in HR as [Heq _]. apply str_eqb_eq in Hsq.
      assert (E2 : lookup key (s_props true G2 ps2) = Some (G2 (p_elem q))).
      { apply (lookup_sprops G2 ps2 key He2 Hs2). exists n, q. repeat split; auto. congruence. }
      rewrite E2. apply IH; [| |exact Heq].
      + apply ks_props. unfold ps1 in Hin. destruct (k_properties k1); [|contradiction]. apply in_map_iff. exists (n, p). auto.
      + apply ks_props. unfold ps2 in Hq. destruct (k_properties k2); [|contradiction]. apply in_map_iff. exists (n, q). auto.
    - destruct (lookup key (s_props true G2 ps2)) as [S2|] eqn:E2; [|exact I].
      apply (lookup_sprops G2 ps2 key He2 Hs2) in E2 as (n & q & Hin & Hsrc & ->).
      destruct (dict_back _ _ _ Hn1 Hn2 Hl Hd n q Hin) as (p & Hp & HR).
      unfold prop_rel in HR. apply andb_true_iff in HR as [HR Hsq]. apply str_eqb_eq in Hsq.
      assert (E1' : lookup key (s_props true G1 ps1) = Some (G1 (p_elem p))).
      { apply (lookup_sprops G1 ps1 key He1 Hs1). exists n, p. repeat split; auto. congruence. }
      congruence.
  Qed.

  Definition pl1 := match k_patternProperties k1 with Some l => l | None => [] end.
  Definition pl2 := match k_patternProperties k2 with Some l => l | None => [] end.

  Lemma pats_dict : length pl1 = length pl2 /\ dsub elem_eq pl1 pl2 = true /\ NoDup (keys pl1) /\ NoDup (keys pl2).
  Proof.
    destruct HEf as (_ & _ & _ & _ & _ & H & _).
    destruct W1 as (_ & _ & _ & _ & _ & _ & _ & _ & _ & _ & _ & _ & _ & _ & _ & K1 & _).
    destruct W2 as (_ & _ & _ & _ & _ & _ & _ & _ & _ & _ & _ & _ & _ & _ & _ & K2 & _).
    unfold pl1, pl2. destruct (k_patternProperties k1) as [l1|], (k_patternProperties k2) as [l2|]; simpl in H; try discriminate.
    - apply andb_true_iff in H as [Hl Hs]. apply PeanoNat.Nat.eqb_eq in Hl. rewrite pats_sub_dsub in Hs. auto.
    - repeat split; constructor.
  Qed.

  Lemma pat_as (Gs : elem -> json) k tl (Htl : forall key, In key (keys tl) -> key = s_ "type" \/ key = s_ "title") key :
    pat_Ss O (ser_kwds true true Gs k ++ tl) key =
    map (fun ne : str * elem => Gs (snd ne))
        (filter (fun ne => re_search O (fst ne) key) (match k_patternProperties k with Some l => l | None => [] end)).
  Proof.
    unfold pat_Ss. rewrite (lk_pats Gs k _ Htl). destruct (k_patternProperties k) as [l|]; cbn [option_map]; [|reflexivity].
    induction l as [|[n e] r IHl]; [reflexivity|]. cbn [s_pats filter fst]. destruct (re_search O n key); cbn [map snd]; now rewrite IHl.
  Qed.

  Lemma pat_rel2 key x : jwf x ->
    forallb (fun S0 => F S0 x) (pat_Ss O kvs1 key) = forallb (fun S0 => F S0 x) (pat_Ss O kvs2 key) /\
    (pat_Ss O kvs1 key = [] <-> pat_Ss O kvs2 key = []).
  Proof.
    intros Hx. unfold kvs1, kvs2. rewrite (pat_as G1 k1 _ Ht1 key), (pat_as G2 k2 _ Ht2 key). fold pl1. fold pl2.
    destruct pats_dict as (Hl & Hd & Hn1 & Hn2).
    assert (A1 : forall n e, In (n, e) pl1 -> In e (ksub k1)).
    { intros n e H. apply ks_pats. unfold pl1 in H. destruct (k_patternProperties k1); [|contradiction]. apply in_map_iff. exists (n, e). auto. }
    assert (A2 : forall n e, In (n, e) pl2 -> In e (ksub k2)).
    { intros n e H. apply ks_pats. unfold pl2 in H. destruct (k_patternProperties k2); [|contradiction]. apply in_map_iff. exists (n, e). auto. }
    split.
    - apply eq_true_iff_eq. rewrite !forallb_forall. split; intros H S0 HS; apply in_map_iff in HS as ([n e] & <- & Hf);
        apply filter_In in Hf as [Hin Hm]; cbn [fst snd] in *.
      + destruct (dict_back _ _ _ Hn1 Hn2 Hl Hd n e Hin) as (e1 & H1 & HR).
        rewrite <- (IH e1 e (A1 _ _ H1) (A2 _ _ Hin) HR x Hx). apply H. apply in_map_iff. exists (n, e1). split; [reflexivity|].
        apply filter_In. auto.
      + destruct (dict_fwd _ _ _ Hd n e Hin) as (e2 & H2 & HR).
        rewrite (IH e e2 (A1 _ _ Hin) (A2 _ _ H2) HR x Hx). apply H. apply in_map_iff. exists (n, e2). split; [reflexivity|].
        apply filter_In. auto.
    - split; intros H.
      + destruct (filter (fun ne => re_search O (fst ne) key) pl2) as [|[n e] r] eqn:Ef; [reflexivity|exfalso].
        assert (Hin : In (n, e) (filter (fun ne => re_search O (fst ne) key) pl2)) by (rewrite Ef; now left).
        apply filter_In in Hin as [Hin Hm]. destruct (dict_back _ _ _ Hn1 Hn2 Hl Hd n e Hin) as (e1 & H1 & _).
        assert (Hin1 : In (n, e1) (filter (fun ne => re_search O (fst ne) key) pl1)) by (apply filter_In; auto).
        destruct (filter (fun ne => re_search O (fst ne) key) pl1); [contradiction|discriminate].
      + destruct (filter (fun ne => re_search O (fst ne) key) pl1) as [|[n e] r] eqn:Ef; [reflexivity|exfalso].
        assert (Hin : In (n, e) (filter (fun ne => re_search O (fst ne) key) pl1)) by (rewrite Ef; now left).
        apply filter_In in Hin as [Hin Hm]. destruct (dict_fwd _ _ _ Hd n e Hin) as (e2 & H2 & _).
        assert (Hin2 : In (n, e2) (filter (fun ne => re_search O (fst ne) key) pl2)) by (apply filter_In; auto).
        destruct (filter (fun ne => re_search O (fst ne) key) pl2); [contradiction|discriminate].
  Qed.

  Lemma L_addp : orel O w (lookup (s_ "additionalProperties") kvs1) (lookup (s_ "additionalProperties") kvs2).
  Proof.
    unfold kvs1, kvs2. rewrite (lk_addp G1 k1 _ Ht1), (lk_addp G2 k2 _ Ht2).
    destruct HEf as (_ & _ & _ & _ & _ & _ & H & _). apply L_addl; [exact H|apply ks_addp|apply ks_addp].
  Qed.

  Lemma L_mem key x : jwf x -> member_b O w kvs1 key x = member_b O w kvs2 key x.
  Proof.
    intros Hx. unfold member_b. pose proof (decl_rel2 key) as Hd. destruct (pat_rel2 key x Hx) as [Hp He].
    pose proof L_addp as Ha. unfold addl_b.
    rewrite Hp.
    destruct (decl_S kvs1 key) as [S1|], (decl_S kvs2 key) as [S2|]; try contradiction.
    - rewrite (Hd x Hx). reflexivity.
    - f_equal. destruct (pat_Ss O kvs1 key) as [|a r] eqn:E1.
      + rewrite (proj1 He eq_refl). red in Ha.
        destruct (lookup (s_ "additionalProperties") kvs1), (lookup (s_ "additionalProperties") kvs2); try contradiction; auto.
      + destruct (pat_Ss O kvs2 key) as [|b s] eqn:E2; [|reflexivity]. pose proof (proj2 He eq_refl) as Hc. discriminate Hc.
  Qed.

  (* ---- dependencies ---- *)
  Definition dep_json (Gs : elem -> json) (d : dep_t elem) : json :=
    match d with DepNames ns => JArr (map JStr ns) | DepElem e => Gs e end.
  Lemma s_deps_map (Gs : elem -> json) l : s_deps Gs l = map (fun nd : str * dep_t elem => (fst nd, dep_json Gs (snd nd))) l.
  Proof. induction l as [|[n [ns|e]] r IHl]; simpl; congruence. Qed.

  Definition dep_body (v : json) (m : list (str * json)) (kd : str * json) : bool :=
    if has_key (fst kd) m then
      match snd kd with
      | JArr names => forallb (fun n => match n with JStr s0 => has_key s0 m | _ => true end) names
      | d => F d v
      end
    else true.

  Lemma deps_go_forallb v (m : list (str * json)) l :
    (fix go (l : list (str * json)) : bool :=
       match l with
       | [] => true
       | (key, d) :: r =>
         (if has_key key m then
            match d with
            | JArr names => forallb (fun n => match n with JStr s0 => has_key s0 m | _ => true end) names
            | _ => F d v
            end
          else true) && go r
       end) l = forallb (dep_body v m) l.
  Proof. induction l as [|[key d] r IHl]; [reflexivity|]. cbn [forallb]. rewrite IHl. unfold dep_body. cbn [fst snd]. destruct d; reflexivity. Qed.

  Definition dl1 := match k_dependencies k1 with Some l => l | None => [] end.
  Definition dl2 := match k_dependencies k2 with Some l => l | None => [] end.

  Lemma deps_dict : length dl1 = length dl2 /\ dsub (dep_rel elem_eq) dl1 dl2 = true /\ NoDup (keys dl1) /\ NoDup (keys dl2) /\
                    (k_dependencies k1 = None <-> k_dependencies k2 = None).
  Proof.
    destruct HEf as (_ & _ & _ & _ & _ & _ & _ & _ & H).
    destruct W1 as (_ & _ & _ & _ & _ & _ & _ & _ & _ & _ & _ & _ & _ & _ & _ & _ & K1).
    destruct W2 as (_ & _ & _ & _ & _ & _ & _ & _ & _ & _ & _ & _ & _ & _ & _ & _ & K2).
    unfold dl1, dl2. destruct (k_dependencies k1) as [l1|], (k_dependencies k2) as [l2|]; simpl in H; try discriminate.
    - apply andb_true_iff in H as [Hl Hs]. apply PeanoNat.Nat.eqb_eq in Hl. rewrite deps_sub_dsub in Hs.
      repeat split; auto; discriminate.
    - repeat split; auto; constructor.
  Qed.

  Lemma dep_body_rel v m n d1 d2 : jwf v -> In (n, d1) dl1 -> In (n, d2) dl2 -> dep_rel elem_eq d1 d2 = true ->
    dep_body v m (n, dep_json G1 d1) = dep_body v m (n, dep_json G2 d2).
  Proof.
    intros Hv H1 H2 HR. unfold dep_body. cbn [fst snd]. destruct (has_key n m); [|reflexivity].
    destruct d1 as [ns1|x], d2 as [ns2|y]; simpl in HR; try discriminate; cbn [dep_json].
    - apply strs_eq in HR. now subst.
    - assert (Hx : In x (ksub k1)).
      { apply ks_deps. unfold dl1 in H1. destruct (k_dependencies k1); [|contradiction]. apply in_flat_map. exists (n, DepElem x). split; [auto|now left]. }
      assert (Hy : In y (ksub k2)).
      { apply ks_deps. unfold dl2 in H2. destruct (k_dependencies k2); [|contradiction]. apply in_flat_map. exists (n, DepElem y). split; [auto|now left]. }
      pose proof (sub_nonarr G1 k1 x N1 Hx) as A1. pose proof (sub_nonarr G2 k2 y N2 Hy) as A2.
      pose proof (IH x y Hx Hy HR v Hv) as Hf.
      destruct (G1 x), (G2 y); try contradiction; exact Hf.
  Qed.

  Lemma L_deps v (m : list (str * json)) : jwf v ->
    wkey (fun Sd => match Sd with
                    | JObj deps =>
                      (fix go (l : list (str * json)) : bool :=
                         match l with
                         | [] => true
                         | (key, d) :: r =>
                           (if has_key key m then
                              match d with
                              | JArr names => forallb (fun n => match n with JStr s0 => has_key s0 m | _ => true end) names
                              | _ => F d v
                              end
                            else true) && go r
                         end) deps
                    | _ => true end) (s_ "dependencies") kvs1 true =
    wkey (fun Sd => match Sd with
                    | JObj deps =>
                      (fix go (l : list (str * json)) : bool :=
                         match l with
                         | [] => true
                         | (key, d) :: r =>
                           (if has_key key m then
                              match d with
                              | JArr names => forallb (fun n => match n with JStr s0 => has_key s0 m | _ => true end) names
                              | _ => F d v
                              end
                            else true) && go r
                         end) deps
                    | _ => true end) (s_ "dependencies") kvs2 true.
  Proof.
    intros Hv. rewrite !wkey_lookup. unfold kvs1, kvs2. rewrite (lk_deps G1 k1 _ Ht1), (lk_deps G2 k2 _ Ht2).
    destruct deps_dict as (Hl & Hd & Hn1 & Hn2 & Hnone).
    destruct (k_dependencies k1) as [l1|] eqn:E1, (k_dependencies k2) as [l2|] eqn:E2; cbn [option_map];
      try reflexivity; try (exfalso; destruct Hnone as [A B]; (discriminate (A eq_refl) || discriminate (B eq_refl))).
    rewrite !deps_go_forallb, (s_deps_map G1), (s_deps_map G2).
    assert (D1' : dl1 = l1) by (unfold dl1; now rewrite E1). assert (D2' : dl2 = l2) by (unfold dl2; now rewrite E2).
    rewrite D1', D2' in *.
    apply eq_true_iff_eq. rewrite !forallb_forall. split; intros H kd Hin; apply in_map_iff in Hin as ([n d] & <- & Hin); cbn [fst snd].
    - destruct (dict_back _ _ _ Hn1 Hn2 Hl Hd n d Hin) as (d1 & H1 & HR).
      rewrite <- (dep_body_rel v m n d1 d Hv); [|rewrite D1'; exact H1|rewrite D2'; exact Hin|exact HR].
      apply H. apply in_map_iff. exists (n, d1). auto.
    - destruct (dict_fwd _ _ _ Hd n d Hin) as (d2 & H2 & HR).
      rewrite (dep_body_rel v m n d d2 Hv); [|rewrite D1'; exact Hin|rewrite D2'; exact H2|exact HR].
      apply H. apply in_map_iff. exists (n, d2). auto.
  Qed.

  (* ---- the element ---- *)
  Theorem ek_cong :
    (forall n, onf (k_multipleOf k1) (fun m => match n, py_num m with
                              | Some vn, Some mn =>
                                match multiple_of_check vn mn with PVal b => b | PExn _ => false end
                              | _, _ => true end) =
               onf (k_multipleOf k2) (fun m => match n, py_num m with
                              | Some vn, Some mn =>
                                match multiple_of_check vn mn with PVal b => b | PExn _ => false end
                              | _, _ => true end)) ->
    forall v, jwf v -> F (JObj kvs1) v = F (JObj kvs2) v.
  Proof.
    intros Hm v Hv. cbn [v6].
    unfold kvs1 at 5, kvs2 at 5. rewrite (comp_absent O w G1 k1 tail1 Ht1 v), (comp_absent O w G2 k2 tail2 Ht2 v).
    assert (Ety : cl_type kvs1 v = cl_type kvs2 v).
    { unfold cl_type, kvs1, kvs2. now rewrite (type_lookup G1 k1 tail1), (type_lookup G2 k2 tail2), Etype. }
    rewrite Ety.
    pose proof (cl_scalar_ser O G1 k1 tail1 v Ht1) as Es1. pose proof (cl_scalar_ser O G2 k2 tail2 v Ht2) as Es2.
    fold kvs1 in Es1. fold kvs2 in Es2. rewrite Es1, Es2.
    rewrite (cls_cong O k1 k2 v Hv W1 W2 HE Hm).
    rewrite (cl_items_cong O w kvs1 kvs2 L_items) ; [|unfold kvs1, kvs2; rewrite (lk_addi G1 k1 _ Ht1), (lk_addi G2 k2 _ Ht2);
        destruct HEf as (_ & H & _); apply L_addl; [exact H|apply ks_addi|apply ks_addi]
      |unfold kvs1, kvs2; rewrite (lk_contains G1 k1 _ Ht1), (lk_contains G2 k2 _ Ht2);
        destruct HEf as (_ & _ & H & _); apply L_opt; [exact H|apply ks_contains|apply ks_contains]
      |exact Hv].
    rewrite (cl_object_cong O w kvs1 kvs2 L_req L_mem); [reflexivity|intros; now apply L_deps| |exact Hv].
    unfold kvs1, kvs2. rewrite (lk_pnames G1 k1 _ Ht1), (lk_pnames G2 k2 _ Ht2).
    destruct HEf as (_ & _ & _ & _ & _ & _ & _ & H & _). apply L_opt; [exact H|apply ks_pnames|apply ks_pnames].
  Qed.
End EKg.
(* ---- the required clause of the two kinds of documents ---- *)
Lemma local_g_mono (Q Q' : str * prop elem -> Prop) c k : (forall np, Q np -> Q' np) -> local_g Q c k -> local_g Q' c k.
Proof.
  intros Hq (H1 & H2 & H3 & H4 & H5 & H6 & H7 & H8).
  split; [exact H1|split; [exact H2|split; [exact H3|split; [exact H4|split; [exact H5|split; [|split; assumption]]]]]].
  unfold props_okQ in *. destruct (k_properties k); auto. destruct H6 as [H6a H6]. split; [exact H6a|].
  eapply Forall_impl; [|exact H6]. intros a [Ha Hb]. split; auto.
Qed.

Section ReqEK.
  Variable O : oracles.
  Notation w := WCode.
  Variable Gs : elem -> json.
  Variable c : ecls.
  Variables k1 k2 : kwds elem.
  Hypothesis HE : kwds_eq elem_eq k1 k2 = true.
  Hypothesis W1 : kwf k1.
  Hypothesis W2 : kwf k2.
  Hypothesis D1 : local_dsl (EK c k1).
  Hypothesis D2 : local_dsl (EK c k2).
  Let tail := json_type c.
  Let kvs1 := ser_kwds true true Gs k1 ++ tail.
  Let kvs2 := ser_kwds true true Gs k2 ++ tail.

  Lemma waived_ek k name : waived w (ser_kwds true true Gs k ++ json_type c) name = false.
  Proof.
    apply (waived_false w ltac:(discriminate)). red. rewrite (lk_type Gs k _).
    destruct c; cbn [json_type lookup];
      repeat match goal with |- context [str_eqb (s_ ?a) (s_ ?b)] =>
               let r := eval vm_compute in (str_eqb (s_ a) (s_ b)) in change (str_eqb (s_ a) (s_ b)) with r end;
      cbv iota; try exact I; vm_compute; discriminate.
  Qed.

  Lemma req_as_M_ek k (m : list (str * json)) :
    (match lookup (s_ "required") (ser_kwds true true Gs k ++ json_type c) with
     | Some (JArr names) => forallb (fun n => match n with JStr name => has_key name m || waived w (ser_kwds true true Gs k ++ json_type c) name | _ => true end) names
     | _ => true end) = forallb (fun r => has_key r m) (M_ k).
  Proof.
    rewrite (lk_required Gs k _ (Htail_c c)). unfold M_.
    destruct (merged_required true k) as [l|]; cbn [option_map]; [|reflexivity].
    induction l as [|r l IHl]; [reflexivity|]. cbn [map forallb]. rewrite waived_ek, orb_false_r. now f_equal.
  Qed.

  Lemma EE_eq : E_ k1 = E_ k2.
  Proof.
    pose proof HE as H. unfold kwds_eq in H.
    repeat match type of H with _ && _ = true => let H2 := fresh "E" in apply andb_true_iff in H as [H H2] end.
    unfold E_. destruct (k_required k1), (k_required k2); simpl in *; try discriminate; auto. f_equal. now apply strs_eq.
  Qed.

  Lemma L_req_ek (m : list (str * json)) :
    (match lookup (s_ "required") kvs1 with
     | Some (JArr names) => forallb (fun n => match n with JStr name => has_key name m || waived w kvs1 name | _ => true end) names
     | _ => true end) =
    (match lookup (s_ "required") kvs2 with
     | Some (JArr names) => forallb (fun n => match n with JStr name => has_key name m || waived w kvs2 name | _ => true end) names
     | _ => true end).
  Proof.
    unfold kvs1, kvs2, tail. rewrite (req_as_M_ek k1 m), (req_as_M_ek k2 m).
    apply eq_true_iff_eq. rewrite !forallb_forall.
    pose proof (local_dsl_g c k1 D1) as G1. pose proof (local_dsl_g c k2 D2) as G2.
    assert (HQ1 : forall np, Qek k1 np -> p_required (snd np) = true -> elem_default (p_elem (snd np)) = None \/ In (p_source (snd np)) (E_ k1)) by (intros np H; exact H).
    assert (HQ2 : forall np, Qek k2 np -> p_required (snd np) = true -> elem_default (p_elem (snd np)) = None \/ In (p_source (snd np)) (E_ k2)) by (intros np H; exact H).
    pose proof EE_eq as EE.
    pose proof (PR_iff k1 k2 HE W1 W2) as Hpr.
    split; intros H r Hr; apply H.
    - apply (M_spec c k1 (Qek k1) G1 HQ1). apply (M_spec c k2 (Qek k2) G2 HQ2) in Hr.
      destruct Hr as [Hr|Hr]; [left; now rewrite EE|right; now apply Hpr].
    - apply (M_spec c k2 (Qek k2) G2 HQ2). apply (M_spec c k1 (Qek k1) G1 HQ1) in Hr.
      destruct Hr as [Hr|Hr]; [left; now rewrite <- EE|right; now apply Hpr].
  Qed.
End ReqEK.

(* ---- equal trees (with classes), same meaning of their in-place documents ---- *)
Section MainC.
  Variable O : oracles.
  Notation w := WCode.
  Notation F := (v6 O w).
  Notation Feq := (Feq O w).

  Definition goodc (e : elem) : Prop := cdsl e /\ ewf e /\ mokh e.

  Lemma goodc_children e : goodc e -> Forall goodc (children e) /\ local_c e /\ local_wf e /\ mok_local e.
  Proof.
    intros (Hd & He & Hm). inversion Hd as [? Hl1 Hc1]; subst. inversion He as [? Hl2 Hc2]; subst. inversion Hm as [? Hl3 Hc3]; subst.
    split; [|split; [exact Hl1|split; [exact Hl2|exact Hl3]]]. rewrite Forall_forall in *. intros x Hx.
    split; [apply Hc1|split; [apply Hc2|apply Hc3]]; exact Hx.
  Qed.

  Ltac lits :=
    repeat match goal with |- context [str_eqb (s_ ?a) (s_ ?b)] =>
             let r := eval vm_compute in (str_eqb (s_ a) (s_ b)) in change (str_eqb (s_ a) (s_ b)) with r end;
    cbv iota.

  Lemma Hw_c : w <> WAlways.
  Proof. discriminate. Qed.

  Lemma kwds_mult k1 k2 : kwds_eq elem_eq k1 k2 = true -> opt_eqb js_eq (k_multipleOf k1) (k_multipleOf k2) = true.
  Proof.
    intros HE. unfold kwds_eq in HE.
    repeat match type of HE with _ && _ = true => let H2 := fresh "E" in apply andb_true_iff in HE as [HE H2] end.
    assumption.
  Qed.

  Theorem ser_inl_cong : forall a, goodc a -> forall b, goodc b -> elem_eq a b = true ->
    forall v, jwf v -> F (ser_inl a) v = F (ser_inl b) v.
  Proof.
    apply (elem_ind' (fun a => goodc a -> forall b, goodc b -> elem_eq a b = true -> forall v, jwf v -> F (ser_inl a) v = F (ser_inl b) v)).
    intros a IH Ga b Gb He v Hv.
    destruct (goodc_children a Ga) as (Ca & La & Wa & Ma). destruct (goodc_children b Gb) as (Cb & Lb & Wb & Mb).
    assert (Hsh : forall l, Forall (gsh ser_inl) l) by (intros l; apply Forall_forall; intros x _; apply ser_inl_shape).
    destruct a as [c1 k1| |x d1|m1 es1 d1|n1 b1 k1], b as [c2 k2| |y d2|m2 es2 d2|n2 b2 k2]; cbn [elem_eq] in He; try discriminate;
      cbn [children local_c] in *.
    - (* Element / typed *)
      apply andb_true_iff in He as [Hc HE].
      assert (c1 = c2) by (destruct c1, c2; try discriminate; reflexivity). subst c2.
      cbn [ser_inl].
      pose proof (EE_eq k1 k2 HE) as EE.
      assert (G2 : local_g (Qek k1) c1 k2).
      { apply (local_g_mono (Qek k2)); [|exact (local_dsl_g c1 k2 Lb)].
        intros np H Hr. unfold Qek in *. fold (E_ k1). fold (E_ k2) in H. rewrite EE. exact (H Hr). }
      apply (ek_cong O w ser_inl ser_inl (Qek k1) c1 k1 k2 (json_type c1) (json_type c1) (Htail_c c1) (Htail_c c1) eq_refl HE Wa Wb
                     (local_dsl_g c1 k1 La) G2 (Hsh _) (Hsh _)).
      + intros x y Hx Hy Hxy v' Hv'. rewrite Forall_forall in IH, Ca, Cb.
        exact (IH x Hx (Ca x Hx) y (Cb y Hy) Hxy v' Hv').
      + exact (L_req_ek ser_inl c1 k1 k2 HE Wa Wb La Lb).
      + apply mult_agree; [exact Ma|exact Mb|now apply kwds_mult].
      + exact Hv.
    - reflexivity.
    - (* Not *)
      apply andb_true_iff in He as [Hxy _].
      inversion IH as [|? ? IHx _]; subst. inversion Ca as [|? ? Gx _]; subst. inversion Cb as [|? ? Gy _]; subst.
      cbn [ser_inl].
      rewrite (v6_single O w d1 "not" (ser_inl x) v), (v6_single O w d2 "not" (ser_inl y) v) by (cbn; tauto).
      unfold cl_comp. cbn [wkey]. lits. now rewrite (IHx Gx y Gy Hxy v Hv).
    - (* AnyOf / OneOf / AllOf *)
      apply andb_true_iff in He as [He _]. apply andb_true_iff in He as [Hm Hes].
      assert (m1 = m2) by (destruct m1, m2; try discriminate; reflexivity). subst m2.
      cbn [ser_inl].
      assert (Hpt : map (fun S0 => F S0 v) (s_elems ser_inl es1) = map (fun S0 => F S0 v) (s_elems ser_inl es2)).
      { clear La Lb Wa Wb Ma Mb Ga Gb. revert es2 Cb Hes. induction es1 as [|x r IHl]; intros [|y s] Cb Hes; simpl in Hes; try discriminate; [reflexivity|].
        apply andb_true_iff in Hes as [Hxy Hr]. inversion IH as [|? ? IHx IHr]; subst. inversion Ca as [|? ? Gx Gr]; subst.
        inversion Cb as [|? ? Gy Gs0]; subst. simpl. f_equal.
        - exact (IHx Gx y Gy Hxy v Hv).
        - apply IHl; auto. }
      assert (Hfa : forall l, forallb (fun S' => F S' v) l = forallb (fun b => b) (map (fun S0 => F S0 v) l)).
      { induction l; simpl; congruence. }
      assert (Hex : forall l, existsb (fun S' => F S' v) l = existsb (fun b => b) (map (fun S0 => F S0 v) l)).
      { induction l; simpl; congruence. }
      destruct m1; unfold mode_key.
      + rewrite (v6_single O w d1 "anyOf" _ v), (v6_single O w d2 "anyOf" _ v) by (cbn; tauto).
        unfold cl_comp. cbn [wkey]. lits. now rewrite !Hex, Hpt.
      + rewrite (v6_single O w d1 "oneOf" _ v), (v6_single O w d2 "oneOf" _ v) by (cbn; tauto).
        unfold cl_comp. cbn [wkey]. lits. rewrite <- !(filter_map_len (s_elems ser_inl es1)), <- !(filter_map_len (s_elems ser_inl es2)).
        now rewrite Hpt.
      + rewrite (v6_single O w d1 "allOf" _ v), (v6_single O w d2 "allOf" _ v) by (cbn; tauto).
        unfold cl_comp. cbn [wkey]. lits. now rewrite !Hfa, Hpt.
    - (* object classes: names are not compared, and not read by v6 *)
      rename He into HE. destruct La as [G1 X1]. destruct Lb as [G2 X2].
      cbn [ser_inl].
      assert (Ht : forall n key, In key (keys [(s_ "type", JStr (s_ "object")); (s_ "title", JStr n)]) -> key = s_ "type" \/ key = s_ "title").
      { intros n key [<-|[<-|[]]]; auto. }
      assert (S1 : Forall (fun x => sim O w x (ser_inl x) /\ gsh ser_inl x) (ksub k1)).
      { apply Forall_forall. intros x Hx. rewrite Forall_forall in Ca. split; [exact (ser_inl_meaning O x (proj1 (Ca x Hx)))|apply ser_inl_shape]. }
      assert (S2 : Forall (fun x => sim O w x (ser_inl x) /\ gsh ser_inl x) (ksub k2)).
      { apply Forall_forall. intros x Hx. rewrite Forall_forall in Cb. split; [exact (ser_inl_meaning O x (proj1 (Cb x Hx)))|apply ser_inl_shape]. }
      apply (ek_cong O w ser_inl ser_inl (fun _ => True) CElement k1 k2 _ _ (Ht n1) (Ht n2) eq_refl HE Wa Wb G1 G2 (Hsh _) (Hsh _)).
      + intros x y Hx Hy Hxy v' Hv'. rewrite Forall_forall in IH, Ca, Cb.
        exact (IH x Hx (Ca x Hx) y (Cb y Hy) Hxy v' Hv').
      + intros m.
        pose proof (req_cls O w Hw_c ser_inl eq_refl n1 k1 (fun x _ => ser_inl_default x) G1 X1 S1 m) as R1.
        pose proof (req_cls O w Hw_c ser_inl eq_refl n2 k2 (fun x _ => ser_inl_default x) G2 X2 S2 m) as R2.
        unfold req_specw in R1, R2. rewrite <- R1, <- R2.
        unfold required_names. fold (E_ k1). fold (E_ k2). fold (PR_ k1). fold (PR_ k2).
        rewrite (EE_eq k1 k2 HE).
        apply eq_true_iff_eq. rewrite !forallb_forall. pose proof (PR_iff k1 k2 HE Wa Wb) as Hpr.
        split; intros H r Hr; apply H; rewrite in_app_iff in *; destruct Hr as [Hr|Hr]; auto; right; now apply Hpr.
      + apply mult_agree; [exact Ma|exact Mb|now apply kwds_mult].
      + exact Hv.
  Qed.

  (* with C03_inplace_meaning: equal trees accept the same values, up to crashes *)
  Corollary equal_same_verdict_classes a b : goodc a -> goodc b -> elem_eq a b = true ->
    forall v, jwf v -> ncrash (build O a (Some v)) -> ncrash (build O b (Some v)) ->
    is_ok (build O a (Some v)) = is_ok (build O b (Some v)).
  Proof.
    intros Ga Gb He v Hv N1 N2.
    pose proof (ser_inl_meaning O a (proj1 Ga) v Hv) as H1.
    pose proof (ser_inl_meaning O b (proj1 Gb) v Hv) as H2.
    pose proof (ser_inl_cong a Ga b Gb He v Hv) as Hc.
    unfold om in H1, H2. unfold ncrash in N1, N2.
    destruct (build O a (Some v)), (build O b (Some v)); try contradiction; simpl; congruence.
  Qed.
End MainC.

(* ---- the executable premise is sound ---- *)
Theorem goodcb_sound : forall fuel e, goodcb fuel e = true -> goodc e.
Proof.
  induction fuel as [|n IH]; intros e H; [discriminate|]. cbn [goodcb] in H.
  apply andb_true_iff in H as [H H4]. apply andb_true_iff in H as [H H3]. apply andb_true_iff in H as [H1 H2].
  assert (Hc : Forall goodc (children e)).
  { apply Forall_forall. intros x Hx. apply IH. rewrite forallb_forall in H4. auto. }
  split; [|split]; constructor.
  - now apply C03Doc.local_cb_sound.
  - eapply Forall_impl; [|exact Hc]. intros a (Ha & _). exact Ha.
  - now apply local_wfb_sound.
  - eapply Forall_impl; [|exact Hc]. intros a (_ & Ha & _). exact Ha.
  - now apply mok_localb_sound.
  - eapply Forall_impl; [|exact Hc]. intros a (_ & _ & Ha). exact Ha.
Qed.
