(* OrdererClasses.v — get_object_classes enumerates exactly the object classes among the roots
   and everything reachable from them; the names in a returned order are exactly their names. *)
From Coq Require Import Permutation.
From Statham.Model Require Import Str Orderer.
From Statham.Proofs Require Import StrFacts OrdererLoop OrdererSound OrdererDirect OrdererReach OrdererClosed.

Theorem object_classes_exact paths G roots ocs :
  get_object_classes paths G roots = Some ocs ->
  forall c, In c ocs <->
    is_class G c = true /\ (In c roots \/ exists r, In r roots /\ reach paths G r c).
Proof.
  unfold get_object_classes.
  destruct (all_children paths G roots) as [cs|] eqn:E; [|discriminate].
  intros H c; injection H as <-.
  rewrite filter_In, in_app_iff, (all_children_In _ _ _ _ E c). tauto.
Qed.

(* the names of a returned order are exactly the names of those classes *)
Theorem order_names_exact paths G roots l :
  orderer paths G roots = OOk l ->
  forall k, In k l <->
    exists c, class_name G c = k /\ is_class G c = true /\
              (In c roots \/ exists r, In r roots /\ reach paths G r c).
Proof.
  intros H. destruct (orderer_sound _ _ _ _ H) as (ocs & ps & Eo & Ep & Hp & _). intros k.
  assert (In k l <-> In k (map (class_name G) ocs)) as ->.
  { rewrite <- (dep_pairs_keys _ _ _ _ Ep). split; intros Hk.
    - apply (Permutation_in _ Hp) in Hk. unfold keys in Hk; apply in_map_iff in Hk as ([k' v] & <- & Hin).
      apply In_dict_merge'' in Hin as [[]|Hin]. unfold keys; apply in_map_iff; exists (k', v); auto.
    - apply (Permutation_in _ (Permutation_sym Hp)). apply keys_dict_merge; right; exact Hk. }
  rewrite in_map_iff. split.
  - intros (c & <- & Hc). exists c; split; auto. now apply (object_classes_exact _ _ _ _ Eo).
  - intros (c & <- & Hc). exists c; split; auto. now apply (object_classes_exact _ _ _ _ Eo).
Qed.

(* the schema-parse error is raised for a class that reaches itself and for nothing else *)
Lemma emit_not_refusal : forall fuel d acc, emit fuel d acc <> OSchemaParseError.
Proof.
  induction fuel as [|f IH]; intros d acc; simpl.
  - destruct d; discriminate.
  - destruct (first_free d); [apply IH|destruct d; discriminate].
Qed.

Theorem orderer_refusal_exact paths G roots ocs ps :
  get_object_classes paths G roots = Some ocs -> dep_pairs paths G ocs = Some ps ->
  (forall a b, In a ocs -> In b ocs -> class_name G a = class_name G b -> a = b) ->
  (orderer paths G roots = OSchemaParseError <-> exists c, In c ocs /\ reach paths G c c).
Proof.
  intros Ho Hp Hu. rewrite <- (has_cycle_reach _ _ _ _ _ Ho Hp Hu).
  unfold orderer; rewrite Ho, Hp. unfold order_names.
  destruct (has_cycle (dict_of_pairs ps)); split; auto; intros H.
  - now apply emit_not_refusal in H.
  - discriminate H.
Qed.
