(* OrdererSound.v — soundness and totality of the emission loop WITHOUT the premises of
   OrdererLoop.v: whatever dependency map orderer() builds, an order it returns is a
   complete topological order, and the loop never exhausts the model's fuel. *)
From Coq Require Import Lia Permutation.
From Statham.Model Require Import Str Orderer.
From Statham.Proofs Require Import StrFacts OrdererLoop.

Lemma first_free_None_emit f d acc : first_free d = None -> d <> [] ->
  emit (S f) d acc = OAssertionError.
Proof. intros H Hd; simpl; rewrite H. destruct d; [congruence|reflexivity]. Qed.

Lemma emit_sound : forall fuel d acc l',
  length d = fuel -> NoDup (keys d) -> emit fuel d acc = OOk l' ->
  exists l, l' = rev acc ++ l /\ Permutation l (keys d) /\
            forall k ds x, In (k, ds) d -> In x ds -> before x k l.
Proof.
  induction fuel as [|f IH]; intros d acc l' Hlen Hnd He.
  - destruct d; [|discriminate]. simpl in He; injection He as <-.
    exists []; rewrite app_nil_r; repeat split; auto. intros ? ? ? [].
  - destruct d as [|[k1 ds1] r] eqn:Ed; [discriminate|]. rewrite <- Ed in *.
    destruct (first_free d) as [k0|] eqn:Hff.
    2:{ rewrite first_free_None_emit in He; [discriminate|auto|subst; discriminate]. }
    pose proof (first_free_Some _ _ Hff) as Hk0.
    simpl in He; rewrite Hff in He.
    destruct (IH (pop_name k0 d) (k0 :: acc) l') as (l & El & Hp & Hb); auto.
    + pose proof (pop_length k0 d [] Hnd Hk0); lia.
    + now apply pop_nodup.
    + exists (k0 :: l); split; [|split].
      * rewrite El; simpl; now rewrite <- app_assoc.
      * rewrite <- (keys_pop_perm k0 [] d Hnd Hk0); now apply perm_skip.
      * intros k ds x Hin Hx.
        destruct (str_eq_dec k k0) as [->|Hne].
        { pose proof (In_lookup _ _ _ Hnd Hk0) as E.
          pose proof (In_lookup _ _ _ Hnd Hin) as E'. rewrite E in E'; injection E' as <-. destruct Hx. }
        assert (In (k, filter (neq_str k0) ds) (pop_name k0 d)) as Hin'.
        { apply In_pop; eauto. }
        destruct (str_eq_dec x k0) as [->|Hxe].
        { apply before_head. eapply Permutation_in; [symmetry; apply Hp|].
          unfold keys; change k with (fst (k, filter (neq_str k0) ds)); now apply in_map. }
        apply before_cons; eapply Hb; eauto.
        apply filter_In; split; auto; apply neq_str_true; congruence.
Qed.

Lemma emit_total : forall fuel d acc,
  length d = fuel -> NoDup (keys d) -> emit fuel d acc <> OOutOfFuel.
Proof.
  induction fuel as [|f IH]; intros d acc Hlen Hnd.
  - destruct d; [simpl; discriminate|discriminate].
  - simpl. destruct (first_free d) as [k0|] eqn:Hff.
    + pose proof (first_free_Some _ _ Hff) as Hk0. apply IH.
      * pose proof (pop_length k0 d [] Hnd Hk0); lia.
      * now apply pop_nodup.
    + destruct d; discriminate.
Qed.

(* every order the loop returns is a complete topological order of the map it was given *)
Theorem order_names_sound d l :
  NoDup (keys d) -> order_names d = OOk l ->
  Permutation l (keys d) /\ forall k ds x, In (k, ds) d -> In x ds -> before x k l.
Proof.
  unfold order_names; intros Hnd H. destruct (has_cycle d); [discriminate|].
  destruct (emit_sound _ d [] l eq_refl Hnd H) as (l0 & -> & Hp & Hb). simpl; auto.
Qed.

Theorem order_names_total d : NoDup (keys d) -> order_names d <> OOutOfFuel.
Proof.
  unfold order_names; intros Hnd. destruct (has_cycle d); [discriminate|].
  now apply emit_total.
Qed.

(* the assertion at the end of the loop fires only on a map that is not closed *)
Theorem order_names_assert d :
  NoDup (keys d) -> order_names d = OAssertionError -> ~ closed d.
Proof.
  intros Hnd H Hc. destruct (has_cycle d) eqn:Hcy.
  - unfold order_names in H; rewrite Hcy in H; discriminate.
  - destruct (order_names_acyclic d Hnd Hc Hcy) as (l & E & _). congruence.
Qed.

(* ---- lifted to orderer(): the map it builds is a dict, so keys are unique ---- *)
Lemma keys_dict_set_incl' {A} k (v : A) l : forall x, In x (keys (dict_set k v l)) -> x = k \/ In x (keys l).
Proof.
  induction l as [|[k' v'] r IH]; simpl; intros x H; [intuition|].
  destruct (str_eqb_spec k k') as [->|Hn]; simpl in *; [intuition|].
  destruct H as [<-|H]; [intuition|]. destruct (IH _ H); intuition.
Qed.
Lemma nodup_dict_set' {A} k (v : A) l : NoDup (keys l) -> NoDup (keys (dict_set k v l)).
Proof.
  induction l as [|[k' v'] r IH]; simpl; intros H; [constructor; [intros []|constructor]|].
  inversion H as [|? ? Hn Hr]; subst.
  destruct (str_eqb_spec k k') as [->|Hne]; simpl; [constructor; auto|].
  constructor; [|auto]. intros Hin. destruct (keys_dict_set_incl' _ _ _ _ Hin); [congruence|tauto].
Qed.
Lemma nodup_dict_of_pairs {A} (ps : list (str * A)) : NoDup (keys (dict_of_pairs ps)).
Proof.
  unfold dict_of_pairs, dict_merge.
  assert (NoDup (keys (@nil (str * A)))) as H by constructor.
  revert H; generalize (@nil (str * A)) as a.
  induction ps as [|[k v] r IH]; simpl; intros a H; [exact H|].
  apply IH. now apply nodup_dict_set'.
Qed.

Theorem orderer_sound paths G roots l :
  orderer paths G roots = OOk l ->
  exists ocs ps, get_object_classes paths G roots = Some ocs /\ dep_pairs paths G ocs = Some ps /\
    Permutation l (keys (dict_of_pairs ps)) /\
    forall k ds x, In (k, ds) (dict_of_pairs ps) -> In x ds -> before x k l.
Proof.
  unfold orderer; intros H.
  destruct (get_object_classes paths G roots) as [ocs|]; [|discriminate].
  destruct (dep_pairs paths G ocs) as [ps|] eqn:Ed; [|discriminate].
  destruct (order_names_sound _ _ (nodup_dict_of_pairs ps) H) as [Hp Hb].
  exists ocs, ps. split; [reflexivity|]. split; [exact Ed|]. split; [exact Hp|exact Hb].
Qed.

(* orderer() runs out of the model's fuel only in the graph walk, never in the loop *)
Theorem orderer_loop_total paths G roots ocs ps :
  get_object_classes paths G roots = Some ocs -> dep_pairs paths G ocs = Some ps ->
  orderer paths G roots <> OOutOfFuel.
Proof.
  unfold orderer; intros -> ->. apply order_names_total, nodup_dict_of_pairs.
Qed.
