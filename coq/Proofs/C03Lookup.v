(* C03Lookup.v — what a keyword lookup finds in the keyword list emitted by the JSON serializer. *)
From Coq Require String. Import String.StringSyntax.
From Statham.Model Require Import Str Json Elem Equality SerJson.
From Statham.Proofs Require Import StrFacts.
Local Open Scope string_scope.
Arguments s_ : simpl never.

Lemma lookup_app {A} k (a b : list (str * A)) :
  lookup k (a ++ b) = match lookup k a with Some v => Some v | None => lookup k b end.
Proof. induction a as [|[k' v] r IH]; simpl; [reflexivity|]. destruct (str_eqb k k'); auto. Qed.

Lemma lookup_opt_slot {A} k n (o : option A) (f : A -> json) :
  lookup k (match o with Some x => [(n, f x)] | None => [] end) =
  if str_eqb k n then option_map f o else None.
Proof. destruct o; simpl; destruct (str_eqb k n); reflexivity. Qed.

Section L.
  Variable F : elem -> json.
  Notation ser := (ser_kwds true true F).

  Lemma lookup_sj k name o : lookup k (sj name o) = if str_eqb k (s_ name) then o else None.
  Proof. unfold sj. destruct o; simpl; destruct (str_eqb k (s_ name)); reflexivity. Qed.
  Lemma lookup_ss k name o : lookup k (ss name o) = if str_eqb k (s_ name) then option_map JStr o else None.
  Proof. unfold ss. destruct o; simpl; destruct (str_eqb k (s_ name)); reflexivity. Qed.
  Lemma lookup_se k name o : lookup k (se F name o) = if str_eqb k (s_ name) then option_map F o else None.
  Proof. unfold se. destruct o; simpl; destruct (str_eqb k (s_ name)); reflexivity. Qed.
  Definition addl_json (a : addl elem) : option json :=
    match a with AddBool true => None | AddBool false => Some (JBool false) | AddElem e => Some (F e) end.
  Lemma lookup_addl k name a : lookup k (s_addl F name a) = if str_eqb k (s_ name) then addl_json a else None.
  Proof. unfold s_addl. destruct a as [[|]|e]; simpl; destruct (str_eqb k (s_ name)); reflexivity. Qed.
  Definition items_json (o : option (items_t elem)) : option json :=
    match o with Some (ItOne e) => Some (F e) | Some (ItMany l) => Some (JArr (s_elems F l)) | None => None end.
  Lemma lookup_items k n (o : option (items_t elem)) :
    lookup k (match o with
              | Some (ItOne e) => [(n, F e)]
              | Some (ItMany l) => [(n, JArr (s_elems F l))]
              | None => [] end) = if str_eqb k n then items_json o else None.
  Proof. destruct o as [[e|l]|]; simpl; destruct (str_eqb k n); reflexivity. Qed.
  Lemma lookup_unique k n (b : bool) :
    lookup k (if b then [(n, JBool true)] else []) = if str_eqb k n then (if b then Some (JBool true) else None) else None.
  Proof. destruct b; simpl; destruct (str_eqb k n); reflexivity. Qed.
  Definition props_json (o : option (list (str * prop elem))) : option json :=
    match o with Some (p0 :: rest) => Some (JObj (s_props true F (p0 :: rest))) | _ => None end.
  Lemma lookup_props k n (o : option (list (str * prop elem))) :
    lookup k (match o with Some (p0 :: rest) => [(n, JObj (s_props true F (p0 :: rest)))] | _ => [] end) =
    if str_eqb k n then props_json o else None.
  Proof. destruct o as [[|p0 r]|]; simpl; destruct (str_eqb k n); reflexivity. Qed.

  Ltac slots :=
    unfold ser_kwds; rewrite ?lookup_app;
    rewrite ?lookup_sj, ?lookup_ss, ?lookup_se, ?lookup_addl, ?lookup_items, ?lookup_unique, ?lookup_props, ?lookup_opt_slot;
    repeat match goal with |- context [str_eqb (s_ ?a) (s_ ?b)] =>
             let r := eval vm_compute in (str_eqb (s_ a) (s_ b)) in change (str_eqb (s_ a) (s_ b)) with r end;
    cbv iota.

  Variable k : kwds elem.
  Variable tail : list (str * json).     (* what follows the keywords: "type" / "title" *)
  Hypothesis Htail : forall key, In key (keys tail) -> key = s_ "type" \/ key = s_ "title".

  Lemma tail_none (s : String.string) : s_ s <> s_ "type" -> s_ s <> s_ "title" -> lookup (s_ s) tail = None.
  Proof. intros H1 H2. apply lookup_None. intros Hin. destruct (Htail _ Hin); congruence. Qed.

  Ltac fin := try reflexivity;
    try (rewrite tail_none by (vm_compute; discriminate));
    repeat match goal with |- context [match ?o with Some v => Some v | None => None end] => destruct o end; try reflexivity.

  Lemma opt_eta {A} (o : option A) : match o with Some v => Some v | None => None end = o.
  Proof. destruct o; reflexivity. Qed.

  Ltac lk := rewrite lookup_app; slots; rewrite ?opt_eta;
    try match goal with |- match ?o with Some v => Some v | None => _ end = _ => destruct o eqn:?; try reflexivity end;
    try (apply tail_none; vm_compute; discriminate).

  Lemma lk_default : lookup (s_ "default") (ser k ++ tail) = k_default k.  Proof. lk. Qed.
  Lemma lk_const : lookup (s_ "const") (ser k ++ tail) = k_const k.  Proof. lk. Qed.
  Lemma lk_enum : lookup (s_ "enum") (ser k ++ tail) = option_map JArr (k_enum k).  Proof. lk. Qed.
  Lemma lk_items : lookup (s_ "items") (ser k ++ tail) = items_json (k_items k).  Proof. lk. Qed.
  Lemma lk_addi : lookup (s_ "additionalItems") (ser k ++ tail) = addl_json (k_additionalItems k).  Proof. lk. Qed.
  Lemma lk_minItems : lookup (s_ "minItems") (ser k ++ tail) = k_minItems k.  Proof. lk. Qed.
  Lemma lk_maxItems : lookup (s_ "maxItems") (ser k ++ tail) = k_maxItems k.  Proof. lk. Qed.
  Lemma lk_unique : lookup (s_ "uniqueItems") (ser k ++ tail) = if k_uniqueItems k then Some (JBool true) else None.
  Proof. lk. Qed.
  Lemma lk_contains : lookup (s_ "contains") (ser k ++ tail) = option_map F (k_contains k).  Proof. lk. Qed.
  Lemma lk_minimum : lookup (s_ "minimum") (ser k ++ tail) = k_minimum k.  Proof. lk. Qed.
  Lemma lk_maximum : lookup (s_ "maximum") (ser k ++ tail) = k_maximum k.  Proof. lk. Qed.
  Lemma lk_exmin : lookup (s_ "exclusiveMinimum") (ser k ++ tail) = k_exclusiveMinimum k.  Proof. lk. Qed.
  Lemma lk_exmax : lookup (s_ "exclusiveMaximum") (ser k ++ tail) = k_exclusiveMaximum k.  Proof. lk. Qed.
  Lemma lk_multipleOf : lookup (s_ "multipleOf") (ser k ++ tail) = k_multipleOf k.  Proof. lk. Qed.
  Lemma lk_format : lookup (s_ "format") (ser k ++ tail) = option_map JStr (k_format k).  Proof. lk. Qed.
  Lemma lk_pattern : lookup (s_ "pattern") (ser k ++ tail) = option_map JStr (k_pattern k).  Proof. lk. Qed.
  Lemma lk_minLength : lookup (s_ "minLength") (ser k ++ tail) = k_minLength k.  Proof. lk. Qed.
  Lemma lk_maxLength : lookup (s_ "maxLength") (ser k ++ tail) = k_maxLength k.  Proof. lk. Qed.
  Lemma lk_required : lookup (s_ "required") (ser k ++ tail) =
    option_map (fun l => JArr (map JStr l)) (merged_required true k).  Proof. lk. Qed.
  Lemma lk_properties : lookup (s_ "properties") (ser k ++ tail) = props_json (k_properties k).  Proof. lk. Qed.
  Lemma lk_pats : lookup (s_ "patternProperties") (ser k ++ tail) =
    option_map (fun l => JObj (s_pats F l)) (k_patternProperties k).  Proof. lk. Qed.
  Lemma lk_addp : lookup (s_ "additionalProperties") (ser k ++ tail) = addl_json (k_additionalProperties k).  Proof. lk. Qed.
  Lemma lk_minProps : lookup (s_ "minProperties") (ser k ++ tail) = k_minProperties k.  Proof. lk. Qed.
  Lemma lk_maxProps : lookup (s_ "maxProperties") (ser k ++ tail) = k_maxProperties k.  Proof. lk. Qed.
  Lemma lk_pnames : lookup (s_ "propertyNames") (ser k ++ tail) = option_map F (k_propertyNames k).  Proof. lk. Qed.
  Lemma lk_deps : lookup (s_ "dependencies") (ser k ++ tail) =
    option_map (fun l => JObj (s_deps F l)) (k_dependencies k).  Proof. lk. Qed.
  Lemma lk_description : lookup (s_ "description") (ser k ++ tail) = option_map JStr (k_description k).  Proof. lk. Qed.

  (* keywords the serializer never writes for an element *)
  Lemma lk_absent (s : String.string) :
    In s ["allOf"; "anyOf"; "oneOf"; "not"; "self"; "_x_autotitle"] -> lookup (s_ s) (ser k ++ tail) = None.
  Proof.
    intros H. cbn [In] in H.
    destruct H as [<-|[<-|[<-|[<-|[<-|[<-|[]]]]]]]; lk.
  Qed.

  Lemma lk_type : lookup (s_ "type") (ser k ++ tail) = lookup (s_ "type") tail.
  Proof. rewrite lookup_app. slots. reflexivity. Qed.
End L.
