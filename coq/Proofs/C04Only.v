(* C04Only.v — the converse of C04_complete at one object: every member of the model built for an accepted object is
   either the image of a member of the input (under its Python name when declared, its JSON name otherwise) or a
   declared property: nothing else is invented. *)
From Coq Require String. Import String.StringSyntax.
From Coq Require Import Lia.
From Statham.Model Require Import Str Json Elem Equality Names PyNum Validate Tables Parser Spec6 Plain Retr Sub.
From Statham.Proofs Require Import StrFacts JsonEqProof MetaProof FaithfulProof DefaultsProof ParserFacts C01Vm C01Scalar C01Items
     C01Object C01Deep C01Plain C06Meaning C04Retrieve.
Local Open Scope string_scope.
Arguments s_ : simpl never.

Section Only.
  Variable O : oracles.
  Notation B := (build O).

  Lemma keys_dict_of_pairs_incl {A} (rs : list (str * A)) name : In name (keys (dict_of_pairs rs)) -> In name (keys rs).
  Proof.
    unfold keys. intros H. apply in_map_iff in H as ([k v] & <- & Hin). unfold dict_of_pairs in Hin.
    apply In_dict_merge' in Hin as [[]|Hin]. apply in_map_iff. exists (k, v). auto.
  Qed.

  Lemma members_names k m rs :
    Forall2 (fun out kr => fst out = fst kr /\ snd out = Ok (snd kr)) (map (fun kv => member O B k (fst kv) (snd kv)) (merged_members k m)) rs ->
    map fst rs = map (fun kv => name_of k (fst kv)) (merged_members k m).
  Proof.
    remember (map (fun kv => member O B k (fst kv) (snd kv)) (merged_members k m)) as outs eqn:Eo.
    intros Ec. revert Eo. generalize (merged_members k m) as mm. induction Ec as [|ko kr outs rs [Ef _] _ IHc]; intros mm Eo.
    - destruct mm; [reflexivity|discriminate].
    - destruct mm as [|kv mm]; [discriminate|]. simpl in Eo. inversion Eo; subst. simpl. f_equal.
      + rewrite <- Ef. apply member_fst.
      + now apply IHc.
  Qed.

  (* where a key of the merged member list comes from *)
  Lemma merged_origin k m key : (forall n p, In (n, p) (match k_properties k with Some l => l | None => [] end) -> p_source p <> []) ->
    In key (keys (merged_members k m)) ->
    (exists n p, In (n, p) (match k_properties k with Some l => l | None => [] end) /\ p_source p = key) \/ In key (keys m).
  Proof.
    intros Hne Hin. set (ps := match k_properties k with Some l => l | None => [] end) in *.
    unfold keys in Hin. apply in_map_iff in Hin as ([k0 ov] & E & Hin). cbn [fst] in E. subst k0.
    unfold merged_members in Hin. apply In_dict_merge' in Hin as [Hin|Hin].
    - left. unfold dict_of_pairs in Hin. apply In_dict_merge' in Hin as [[]|Hin].
      unfold placeholders in Hin. apply in_map_iff in Hin as ([n p] & E & Hin). inversion E; subst. clear E.
      fold ps in Hin. exists n, p. split; [exact Hin|]. cbn [snd fst].
      destruct (p_source p) eqn:Es; [exfalso; eapply Hne; eauto|reflexivity].
    - right. apply in_map_iff in Hin as ([k0 x] & E & Hin). inversion E; subst. unfold keys. apply in_map_iff. exists (key, x). auto.
  Qed.

  (* the Python name of a declared property's JSON name is the property's own name *)
  Lemma name_of_declared k n p :
    let ps := match k_properties k with Some l => l | None => [] end in
    NoDup (map (fun np : str * prop elem => p_source (snd np)) ps) -> In (n, p) ps -> name_of k (p_source p) = n.
  Proof.
    intros ps Hsrc Hin. unfold name_of.
    assert (Efo : find_by_source_o (fun e => e) (p_source p) (k_properties k) = find_by_source (fun e => e) (p_source p) ps None).
    { unfold ps. destruct (k_properties k); reflexivity. }
    rewrite Efo. destruct (find_src_some (p_source p) ps n p Hin eq_refl None) as (t & Et). rewrite Et.
    destruct (find_src_gen _ _ _ _ Et) as [?|(n2 & p2 & Hin2 & Hs2 & ->)]; [discriminate|].
    (* two entries with the same source: the same entry *)
    assert (E : (n2, p2) = (n, p)).
    { clear - Hsrc Hin Hin2 Hs2. induction ps as [|[a q] r IH]; [contradiction|]. simpl in Hsrc. inversion Hsrc as [|? ? Hnot Hr]; subst.
      destruct Hin as [E1|H1], Hin2 as [E2|H2].
      - congruence.
      - inversion E1; subst. exfalso. apply Hnot. apply in_map_iff. exists (n2, p2). cbn [snd]. auto.
      - inversion E2; subst. exfalso. apply Hnot. apply in_map_iff. exists (n, p). cbn [snd]. auto.
      - now apply IH. }
    inversion E. reflexivity.
  Qed.

  Theorem members_only e k m kvs' : props_of e = match k_properties k with Some l => l | None => [] end ->
    local_safe e (JObj m) -> build_members O B k m = (VPass, kvs') ->
    forall name, In name (keys kvs') ->
      (exists key x, In (key, x) m /\ name = name_of k key) \/ In name (keys (props_of e)).
  Proof.
    intros Ep (Hk & Hsrc & Hne & _) H name Hin. rewrite Ep in *.
    rewrite build_members_unfold in H. destruct (collect _) as [s rs] eqn:Ec. inversion H; subst. clear H.
    apply collect_pass in Ec. pose proof (members_names k m rs Ec) as Hn.
    apply keys_dict_of_pairs_incl in Hin. unfold keys in Hin. rewrite Hn in Hin.
    apply in_map_iff in Hin as ([key ov] & <- & Hmem). cbn [fst].
    assert (Hkey : In key (keys (merged_members k m))) by (unfold keys; apply in_map_iff; exists (key, ov); auto).
    destruct (merged_origin k m key Hne Hkey) as [(n & p & Hp & Hs)|Hm].
    - right. subst key. rewrite (name_of_declared k n p Hsrc Hp). unfold keys. apply in_map_iff. exists (n, p). auto.
    - left. unfold keys in Hm. apply in_map_iff in Hm as ([k0 x] & E & Hx). cbn [fst] in E. subst k0. exists key, x. auto.
  Qed.

  (* the statement for an element called on an object *)
  Theorem no_invented_members e m r : local_safe e (JObj m) -> B e (Some (JObj m)) = Ok r ->
    match e with
    | EK _ k | EObj _ _ k =>
      exists kvs', (r = RAnon kvs' \/ exists n, r = RInst n kvs') /\
        forall name, In name (keys kvs') ->
          (exists key x, In (key, x) m /\ name = name_of k key) \/ In name (keys (props_of e))
    | _ => True
    end.
  Proof.
    intros Hl H. destruct e as [c k| |x d|md es d|n b k]; try exact I.
    - cbn [build with_default] in H.
      destruct (type_ok c (JObj m)) eqn:Et; cbn [negb] in H; [|discriminate].
      destruct (vand _ _); try discriminate.
      assert (Hb : match build_members O B k m with
                   | (VPass, rs) => Ok (RAnon rs) | (VRej, _) => Rej | (VCrash x, _) => Crash x end = Ok r)
        by (destruct c; try discriminate Et; exact H).
      destruct (build_members O B k m) as [[| |x] rs] eqn:Eb; try discriminate. inversion Hb; subst.
      exists rs. split; [now left|]. exact (members_only (EK c k) k m rs eq_refl Hl Eb).
    - cbn [build with_default] in H. destruct (vand _ _); try discriminate.
      destruct (build_members O B k m) as [[| |x] rs] eqn:Eb; try discriminate. inversion H; subst.
      exists rs. split; [right; eexists; reflexivity|]. exact (members_only (EObj n b k) k m rs eq_refl Hl Eb).
  Qed.
End Only.
