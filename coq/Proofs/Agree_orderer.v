(* Agreement between the generated orderer tables and what the proofs need. *)
From Statham.Model Require Import Str Tables.
From Statham.Generated Require Import Gen_orderer_paths.

Definition incl_str (a b : list str) : bool := forallb (fun x => mem_str x b) a.

(* set equality with the audited list (order does not matter to C11) *)
Lemma orderer_paths_agree :
  incl_str Gen_orderer_paths.paths orderer_paths && incl_str orderer_paths Gen_orderer_paths.paths = true.
Proof. vm_compute. reflexivity. Qed.

(* every position an element can occupy is reached by some generated path *)
Lemma orderer_positions_covered :
  forallb (fun pp => mem_str (snd pp) Gen_orderer_paths.paths) element_positions = true.
Proof. vm_compute. reflexivity. Qed.
