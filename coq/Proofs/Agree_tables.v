(* Agreement obligations: what the code says now (coq/Generated, rewritten on every run)
   versus the audited tables the model is built on (Model/Tables.v).  Each is stated with
   the weakest relation the proofs need and closed by computation. *)
From Coq Require String. Import String.StringSyntax.
From Statham.Model Require Import Str Json Elem PyNum Tables.
Local Open Scope string_scope.
Local Open Scope list_scope.
From Statham.Generated Require Gen_constants Gen_signatures Gen_type_mapping Gen_validators Gen_parser_tables.

Fixpoint strs_eqb (a b : list str) : bool :=
  match a, b with
  | [], [] => true
  | x :: r, y :: s => str_eqb x y && strs_eqb r s
  | _, _ => false
  end.
Definition incl_strs (a b : list str) : bool := forallb (fun x => mem_str x b) a.
Definition set_eq_strs (a b : list str) : bool := incl_strs a b && incl_strs b a.

Definition pairs_eqb (a b : list (str * str)) : bool :=
  strs_eqb (map fst a) (map fst b) && strs_eqb (map snd a) (map snd b).
Definition pairs_set_eqb (a b : list (str * str)) : bool :=
  Nat.eqb (length a) (length b) &&
  forallb (fun p => match lookup (fst p) b with Some y => str_eqb (snd p) y | None => false end) a.

(* --- signatures: the keyword filter of every element class (order matters to repr) --- *)
Lemma sig_element_agree : strs_eqb (sig_names Gen_signatures.sig_Element) sig_element = true.
Proof. vm_compute. reflexivity. Qed.
Lemma sig_string_agree : strs_eqb (sig_names Gen_signatures.sig_String) sig_string = true.
Proof. vm_compute. reflexivity. Qed.
Lemma sig_integer_agree : strs_eqb (sig_names Gen_signatures.sig_Integer) sig_numeric = true.
Proof. vm_compute. reflexivity. Qed.
Lemma sig_number_agree : strs_eqb (sig_names Gen_signatures.sig_Number) sig_numeric = true.
Proof. vm_compute. reflexivity. Qed.
Lemma sig_boolean_agree : strs_eqb (sig_names Gen_signatures.sig_Boolean) sig_literal = true.
Proof. vm_compute. reflexivity. Qed.
Lemma sig_null_agree : strs_eqb (sig_names Gen_signatures.sig_Null) sig_literal = true.
Proof. vm_compute. reflexivity. Qed.
Lemma sig_array_agree : strs_eqb (sig_names Gen_signatures.sig_Array) sig_array = true.
Proof. vm_compute. reflexivity. Qed.
Lemma sig_object_agree : strs_eqb (sig_names Gen_signatures.sig_ObjectMeta) sig_object = true.
Proof. vm_compute. reflexivity. Qed.
Lemma sig_nothing_agree : sig_names Gen_signatures.sig_Nothing = [].
Proof. vm_compute. reflexivity. Qed.
Lemma sig_not_agree : strs_eqb (sig_names Gen_signatures.sig_Not) [s_ "element"; s_ "default"] = true.
Proof. vm_compute. reflexivity. Qed.
Lemma sig_comp_agree :
  strs_eqb (sig_names Gen_signatures.sig_AnyOf) [s_ "elements"; s_ "default"] &&
  strs_eqb (sig_names Gen_signatures.sig_OneOf) [s_ "elements"; s_ "default"] &&
  strs_eqb (sig_names Gen_signatures.sig_AllOf) [s_ "elements"; s_ "default"] = true.
Proof. vm_compute. reflexivity. Qed.
Lemma sig_property_agree :
  strs_eqb (sig_names Gen_signatures.sig_Property) [s_ "element"; s_ "required"; s_ "source"] = true.
Proof. vm_compute. reflexivity. Qed.

(* --- constants --- *)
Lemma composition_keywords_agree :
  strs_eqb Gen_constants.composition_keywords composition_keywords = true.
Proof. vm_compute. reflexivity. Qed.
(* every documented-unsupported keyword is in the code's refused set *)
Lemma unsupported_agree : incl_strs unsupported_keywords Gen_constants.unsupported_keywords = true.
Proof. vm_compute. reflexivity. Qed.
Lemma unsupported_no_extra : incl_strs Gen_constants.unsupported_keywords unsupported_keywords = true.
Proof. vm_compute. reflexivity. Qed.

(* --- type mappings (finite maps) --- *)
Lemma parser_type_mapping_agree : pairs_set_eqb Gen_type_mapping.parser_type_mapping type_mapping_names = true.
Proof. vm_compute. reflexivity. Qed.
Lemma json_type_mapping_agree : pairs_set_eqb Gen_type_mapping.json_type_mapping json_type_mapping = true.
Proof. vm_compute. reflexivity. Qed.

(* --- validators --- *)
Definition cmpop_eqb (a b : cmpop) : bool :=
  match a, b with OpLt, OpLt | OpLe, OpLe | OpGt, OpGt | OpGe, OpGe => true | _, _ => false end.
Fixpoint thr_eqb (a b : list (str * bool * cmpop)) : bool :=
  match a, b with
  | [], [] => true
  | (k1, l1, o1) :: r, (k2, l2, o2) :: s => str_eqb k1 k2 && Bool.eqb l1 l2 && cmpop_eqb o1 o2 && thr_eqb r s
  | _, _ => false
  end.
Lemma thresholds_agree : thr_eqb Gen_validators.thresholds thresholds = true.
Proof. vm_compute. reflexivity. Qed.

Fixpoint vtab_eqb (a b : list (str * list str * list str)) : bool :=
  match a, b with
  | [], [] => true
  | (n1, t1, k1) :: r, (n2, t2, k2) :: s =>
    str_eqb n1 n2 && set_eq_strs t1 t2 && strs_eqb k1 k2 && vtab_eqb r s
  | _, _ => false
  end.
Lemma validator_table_agree : vtab_eqb Gen_validators.validators validator_table = true.
Proof. vm_compute. reflexivity. Qed.
Lemma skipped_agree : set_eq_strs Gen_validators.skipped_validators skipped_validators = true.
Proof. vm_compute. reflexivity. Qed.
Lemma object_validators_agree : set_eq_strs Gen_validators.object_validators object_validators = true.
Proof. vm_compute. reflexivity. Qed.

(* --- parser tables --- *)
Lemma literal_keys_agree : set_eq_strs Gen_parser_tables.literal_keys literal_keys = true.
Proof. vm_compute. reflexivity. Qed.
Lemma subparser_keys_agree : strs_eqb (map fst Gen_parser_tables.subparser_table) subparser_keys = true.
Proof. vm_compute. reflexivity. Qed.
Lemma cls_args_keys_agree : set_eq_strs Gen_parser_tables.cls_args_keys cls_args_keys = true.
Proof. vm_compute. reflexivity. Qed.

(* the three list-valued composition keywords are all visited by _parse_composition *)
Lemma comp_order_complete_now :
  In (s_ "anyOf") Gen_parser_tables.comp_order_now /\ In (s_ "oneOf") Gen_parser_tables.comp_order_now /\
  In (s_ "allOf") Gen_parser_tables.comp_order_now.
Proof. vm_compute. tauto. Qed.
