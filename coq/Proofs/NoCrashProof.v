(* NoCrashProof.v — C10: Validate.build never yields Crash (an exception other than the
   validation error) as long as the two arithmetic primitives succeed on the numbers in play:
   float(int) and the multipleOf kernel.  `A` is the set of admissible numbers. *)
From Coq Require Import Lia.
From Statham.Model Require Import Str Json Elem PyNum Validate Sub.
From Statham.Proofs Require Import StrFacts ElemInd.

Definition nc (o : outcome) : Prop := match o with Crash _ => False | _ => True end.
Definition vnc (s : vres) : Prop := match s with VCrash _ => False | _ => True end.

Section NoCrash.
  Variable O : oracles.
  Variable A : num -> Prop.
  (* admissible integers convert to float *)
  Hypothesis A_float : forall z, A (NZ z) -> exists f, py_float_of_int z = PVal f.

  Fixpoint okV (v : json) : Prop :=
    match v with
    | JInt z => A (NZ z)
    | JFlt f => A (NF f)
    | JArr l => (fix go (l : list json) : Prop := match l with [] => True | x :: r => okV x /\ go r end) l
    | JObj kvs => (fix go (l : list (str * json)) : Prop := match l with [] => True | (_, x) :: r => okV x /\ go r end) kvs
    | _ => True
    end.
  Lemma okV_arr l : okV (JArr l) <-> Forall okV l.
  Proof.
    simpl. induction l as [|x r IH]; [split; constructor|].
    rewrite IH. split; [intros [a b]; constructor; auto|intros H; inversion H; auto].
  Qed.
  Lemma okV_obj kvs : okV (JObj kvs) <-> Forall (fun kv => okV (snd kv)) kvs.
  Proof.
    simpl. induction kvs as [|[k v] r IH]; [split; constructor|].
    rewrite IH. split; [intros [a b]; constructor; auto|intros H; inversion H; auto].
  Qed.
  Definition okOV (ov : option json) : Prop := match ov with Some v => okV v | None => True end.

  (* a multipleOf parameter is fine when the kernel succeeds against every admissible number *)
  Definition mult_ok (p : option json) : Prop :=
    match p with
    | Some j => match py_num j with
                | Some pn => forall vn, A vn -> exists b, multiple_of_check vn pn = PVal b
                | None => True
                end
    | None => True
    end.

  Definition local_ok (e : elem) : Prop :=
    match e with
    | EK _ k => okOV (k_default k) /\ mult_ok (k_multipleOf k)
    | EObj _ _ k => okOV (k_default k)
    | ENot _ d | EComp _ _ d => okOV d
    | ENothing => True
    end.
  Inductive okE : elem -> Prop :=
  | okE_intro e : local_ok e -> Forall okE (children e) -> okE e.
  Lemma okE_inv e : okE e -> local_ok e /\ Forall okE (children e).
  Proof. inversion 1; auto. Qed.

  (* ---- small combinators ---- *)
  Lemma vand_nc a b : vnc a -> vnc b -> vnc (vand a b).
  Proof. destruct a, b; simpl; auto. Qed.
  Lemma vb_nc b : vnc (vb b).
  Proof. destruct b; exact I. Qed.
  Lemma vall_nc l : Forall vnc l -> vnc (vall l).
  Proof. induction 1; simpl; [exact I|]. now apply vand_nc. Qed.

  Lemma collect_nc {K} (l : list (K * outcome)) : Forall (fun ko => nc (snd ko)) l -> vnc (fst (collect l)).
  Proof.
    induction 1 as [|[k o] l Ho _ IH]; simpl; [exact I|].
    destruct (collect l) as [s rs]. simpl in *. destruct o; simpl in *; auto. destruct s; simpl in *; auto.
  Qed.

  Lemma attempt_nc m os : Forall nc os -> nc (attempt m os).
  Proof.
    intros H. unfold attempt.
    assert (Hf : first_crash os = None).
    { induction H as [|o os Ho _ IH]; simpl; auto. destruct o; simpl in *; auto; contradiction. }
    rewrite Hf. destruct (ok_results os) as [|r rest]; [exact I|]. destruct m; simpl; auto.
    - destruct rest; exact I.
    - match goal with |- nc (if ?c then _ else _) => destruct c end; exact I.
  Qed.

  Lemma with_default_nc d ov create :
    (forall v, okV v -> nc (create v)) -> okOV d -> okOV ov -> nc (with_default d ov create).
  Proof.
    intros Hc Hd Ho. unfold with_default. destruct ov as [v|]; [now apply Hc|].
    destruct d as [dv|]; [|exact I]. specialize (Hc dv Hd). destruct (create dv); simpl in *; auto.
  Qed.

  (* ---- the validators ---- *)
  Lemma multiple_ok_nc p v : mult_ok p -> okV v -> vnc (multiple_ok p v).
  Proof.
    intros Hm Hv. unfold multiple_ok. destruct p as [j|]; [|exact I].
    destruct (guard_num v) as [vn|] eqn:Eg; [|exact I]. simpl in Hm.
    destruct (py_num j) as [pn|]; [|exact I].
    assert (Ha : A vn). { destruct v; simpl in *; try discriminate; injection Eg as <-; exact Hv. }
    destruct (Hm vn Ha) as (b & ->). apply vb_nc.
  Qed.

  Lemma scalar_nc k v : mult_ok (k_multipleOf k) -> okV v -> vnc (scalar_validators O k v).
  Proof.
    intros Hm Hv. unfold scalar_validators. apply vall_nc.
    repeat (constructor; [first [apply vb_nc | now apply multiple_ok_nc]|]). constructor.
  Qed.

  Section Sub.
    Variable B : elem -> option json -> outcome.
    Variable subs : list elem.
    Hypothesis HB : forall x, In x subs -> forall ov, okOV ov -> nc (B x ov).

    Lemma contains_nc c l : In c subs -> Forall okV l -> vnc (contains_loop (fun x => B c (Some x)) l).
    Proof.
      intros Hc. induction 1 as [|x r Hx _ IH]; cbn [contains_loop]; [exact I|].
      pose proof (HB c Hc (Some x) Hx) as Hn.
      destruct (B c (Some x)) as [r0| |x0]; [exact I|exact IH|exact Hn].
    Qed.
    Lemma pnames_nc pn (kvs : list (str * json)) : In pn subs -> vnc (pnames_loop (fun x => B pn (Some x)) kvs).
    Proof.
      intros Hp. induction kvs as [|[key v] r IH]; cbn [pnames_loop]; [exact I|].
      pose proof (HB pn Hp (Some (JStr key)) I) as Hn.
      destruct (B pn (Some (JStr key))) as [r0| |x0]; [exact IH|apply vand_nc; [exact I|exact IH]|exact Hn].
    Qed.
    Lemma deps_nc v kvs ds : incl (sub_deps (Some ds)) subs -> okV v -> vnc (deps_loop B v kvs ds).
    Proof.
      intros Hi Hv. induction ds as [|[key d] r IH]; cbn [deps_loop]; [exact I|].
      assert (Hr : incl (sub_deps (Some r)) subs).
      { intros z Hz. apply Hi. simpl. apply in_or_app. now right. }
      specialize (IH Hr). destruct (has_key key kvs); [|exact IH].
      destruct d as [names|de].
      - apply vand_nc; [apply vb_nc|exact IH].
      - assert (Hd : In de subs) by (apply Hi; simpl; auto).
        pose proof (HB de Hd (Some v) Hv) as Hn.
        destruct (B de (Some v)) as [r0| |x0]; [exact IH|apply vand_nc; [exact I|exact IH]|exact Hn].
    Qed.

    Lemma deep_nc k v : incl (ksub k) subs -> okV v -> vnc (deep_validators O B k v).
    Proof.
      intros Hi Hv. unfold deep_validators. apply vall_nc.
      assert (I3 : incl (sub_opt (k_contains k)) subs) by (intros z Hz; apply Hi; unfold ksub; do 2 (apply in_or_app; right); apply in_or_app; now left).
      assert (I7 : incl (sub_opt (k_propertyNames k)) subs) by (intros z Hz; apply Hi; unfold ksub; do 6 (apply in_or_app; right); apply in_or_app; now left).
      assert (I8 : incl (sub_deps (k_dependencies k)) subs) by (intros z Hz; apply Hi; unfold ksub; do 7 (apply in_or_app; right); exact Hz).
      constructor; [|constructor; [|constructor; [|constructor; [|constructor]]]].
      - destruct v; try exact I. destruct (k_contains k) as [c|]; [|exact I].
        apply contains_nc; [apply I3; simpl; auto|now apply okV_arr].
      - destruct v; try exact I. destruct (addl_truthy _); [exact I|apply vb_nc].
      - destruct v; try exact I. destruct (k_propertyNames k) as [pn|]; [|exact I].
        apply pnames_nc. apply I7; simpl; auto.
      - destruct v; try exact I. destruct (k_dependencies k) as [ds|]; [|exact I].
        now apply deps_nc.
    Qed.

    Lemma on_addl_nc (a : addl elem) x : incl (sub_addl a) subs -> okV x ->
      nc (on_addl (fun e' => B e' (Some x)) a (Ok (build_any x)) Rej).
    Proof.
      intros Hi Hx. destruct a as [[|]|e']; simpl; try exact I. apply HB; [apply Hi; simpl; auto|exact Hx].
    Qed.

    Lemma tuple_nc a its : incl its subs -> incl (sub_addl a) subs -> forall l, Forall okV l ->
      Forall (fun ko => nc (snd ko))
        (tuple_outs B (fun x => on_addl (fun e' => B e' (Some x)) a (Ok (build_any x)) Rej) its l).
    Proof.
      intros Hi Ha. induction its as [|ie ir IH]; intros l Hl; simpl.
      - rewrite Forall_map. eapply Forall_impl; [|exact Hl]. intros x Hx. simpl. now apply on_addl_nc.
      - destruct l as [|x xr]; [constructor|]. inversion Hl; subst. constructor.
        + simpl. apply HB; [apply Hi; simpl; auto|assumption].
        + apply IH; auto. intros z Hz. apply Hi. now right.
    Qed.

    Lemma build_items_nc k l : incl (ksub k) subs -> Forall okV l -> vnc (fst (build_items B k l)).
    Proof.
      intros Hi Hl. unfold build_items.
      assert (I1 : incl (sub_items (k_items k)) subs) by (intros z Hz; apply Hi; unfold ksub; apply in_or_app; now left).
      assert (I2 : incl (sub_addl (k_additionalItems k)) subs) by (intros z Hz; apply Hi; unfold ksub; apply in_or_app; right; apply in_or_app; now left).
      match goal with |- vnc (fst (let '(s, rs) := collect ?outs in _)) =>
        assert (Hn : Forall (fun ko => nc (snd ko)) outs) end.
      { destruct (k_items k) as [[ie|its]|].
        - rewrite Forall_map. eapply Forall_impl; [|exact Hl]. intros x Hx. simpl. apply HB; [apply I1; simpl; auto|exact Hx].
        - apply tuple_nc; auto.
        - rewrite Forall_map. apply Forall_forall. intros x _. exact I. }
      apply collect_nc in Hn. destruct (collect _) as [s rs]. exact Hn.
    Qed.

    Lemma map_matching_nc pred l mv : incl (map snd l) subs -> okOV mv ->
      Forall nc (map_matching (fun e' => B e' mv) pred l).
    Proof.
      intros Hi Hm. induction l as [|[p e] r IH]; simpl; [constructor|].
      assert (Hr : incl (map snd r) subs) by (intros z Hz; apply Hi; now right).
      destruct (pred p); [constructor; [apply HB; [apply Hi; simpl; auto|exact Hm]|auto]|auto].
    Qed.

    Lemma find_by_source_nc key ps mv : incl (map (fun np => p_elem (snd np)) ps) subs -> okOV mv ->
      forall acc, (match acc with Some (_, _, o) => nc o | None => True end) ->
      match find_by_source (fun e' => B e' mv) key ps acc with Some (_, _, o) => nc o | None => True end.
    Proof.
      intros Hi Hm. induction ps as [|[n p] r IH]; intros acc Ha; simpl; [exact Ha|].
      assert (Hr : incl (map (fun np => p_elem (snd np)) r) subs) by (intros z Hz; apply Hi; now right).
      destruct (str_eqb (p_source p) key); apply IH; auto.
      simpl. apply HB; [apply Hi; simpl; auto|exact Hm].
    Qed.

    Lemma member_nc k key mv : incl (ksub k) subs -> okOV mv -> nc (snd (member O B k key mv)).
    Proof.
      intros Hi Hm. unfold member.
      assert (I4 : incl (sub_props (k_properties k)) subs) by (intros z Hz; apply Hi; unfold ksub; do 3 (apply in_or_app; right); apply in_or_app; now left).
      assert (I5 : incl (sub_pats (k_patternProperties k)) subs) by (intros z Hz; apply Hi; unfold ksub; do 4 (apply in_or_app; right); apply in_or_app; now left).
      assert (I6 : incl (sub_addl (k_additionalProperties k)) subs) by (intros z Hz; apply Hi; unfold ksub; do 5 (apply in_or_app; right); apply in_or_app; now left).
      assert (Hp : Forall nc (map_matching_o (fun e' => B e' mv) (fun p => re_search O p key) (k_patternProperties k))).
      { unfold map_matching_o. destruct (k_patternProperties k) as [l|]; [|constructor]. now apply map_matching_nc. }
      assert (Hd : match find_by_source_o (fun e' => B e' mv) key (k_properties k) with Some (_, _, o) => nc o | None => True end).
      { unfold find_by_source_o. destruct (k_properties k) as [ps|]; [|exact I]. now apply find_by_source_nc. }
      destruct (find_by_source_o _ key (k_properties k)) as [[[name req] o]|];
        destruct (map_matching_o _ _ (k_patternProperties k)) as [|o1 [|o2 os]]; cbn [snd].
      - exact Hd.
      - destruct mv; [|exact I]. apply attempt_nc. constructor; [exact Hd|exact Hp].
      - destruct mv; [|exact I]. apply attempt_nc. constructor; [exact Hd|exact Hp].
      - destruct (k_additionalProperties k) as [[|]|e'] eqn:Ea; cbn [on_addl]; try (destruct mv; exact I).
        apply HB; [apply I6; simpl; auto|exact Hm].
      - inversion Hp; assumption.
      - destruct mv; [|exact I]. apply attempt_nc. exact Hp.
    Qed.

    Lemma build_members_nc k kvs : incl (ksub k) subs -> Forall (fun kv => okV (snd kv)) kvs ->
      vnc (fst (build_members O B k kvs)).
    Proof.
      intros Hi Hk. unfold build_members.
      match goal with |- vnc (fst (let '(s, rs) := collect (map ?f ?merged) in _)) =>
        assert (Hm : Forall (fun kv => okOV (snd kv)) merged) end.
      { unfold dict_merge. 
        assert (Hgen : forall (b : list (str * option json)) a, Forall (fun kv => okOV (snd kv)) a -> Forall (fun kv => okOV (snd kv)) b ->
                  Forall (fun kv => okOV (snd kv)) (fold_left (fun acc kv => dict_set (fst kv) (snd kv) acc) b a)).
        { induction b as [|[kk vv] b IHb]; intros a Ha Hb; simpl; [exact Ha|].
          inversion Hb; subst. apply IHb; auto.
          clear - Ha H1. induction a as [|[k2 v2] a IHa]; simpl; [constructor; auto|].
          inversion Ha; subst. destruct (str_eqb kk k2); constructor; auto. }
        apply Hgen.
        - unfold dict_of_pairs, dict_merge. apply Hgen; [constructor|].
          rewrite Forall_map. apply Forall_forall. intros x _. exact I.
        - rewrite Forall_map. eapply Forall_impl; [|exact Hk]. intros a Ha. exact Ha. }
      match goal with |- vnc (fst (let '(s, rs) := collect ?outs in _)) =>
        assert (Hn : Forall (fun ko => nc (snd ko)) outs) end.
      { rewrite Forall_map. eapply Forall_impl; [|exact Hm]. intros [kk mv] Hx. simpl in *. now apply member_nc. }
      apply collect_nc in Hn. destruct (collect _) as [s rs]. exact Hn.
    Qed.
  End Sub.

  (* ---- the evaluator ---- *)
  Theorem build_no_crash : forall e, okE e -> forall ov, okOV ov -> nc (build O e ov).
  Proof.
    induction e using elem_ind'. intros He ov Hov.
    apply okE_inv in He as [Hl Hc].
    assert (HB : forall x, In x (children e) -> forall ov', okOV ov' -> nc (build O x ov')).
    { intros x Hx. rewrite Forall_forall in H, Hc. apply (H x Hx (Hc x Hx)). }
    destruct e as [c k| |x d|m es d|n bs k]; cbn [build]; simpl in Hl, HB.
    - destruct Hl as [Hd Hm]. apply with_default_nc; auto. intros v Hv.
      destruct (negb (type_ok c v)); [exact I|].
      pose proof (vand_nc _ _ (scalar_nc k v Hm Hv) (deep_nc (build O) (ksub k) HB k v (incl_refl _) Hv)) as Hn.
      destruct (vand _ _); simpl in Hn; try exact I; try contradiction.
      assert (Hitems : forall l, v = JArr l -> nc (match build_items (build O) k l with
                                                  | (VPass, rs) => Ok (RList rs) | (VRej, _) => Rej | (VCrash x, _) => Crash x end)).
      { intros l ->. pose proof (build_items_nc (build O) (ksub k) HB k l (incl_refl _) (proj1 (okV_arr l) Hv)) as Hi.
        destruct (build_items _ k l) as [s rs]. destruct s; simpl in *; auto. }
      assert (Hmembers : forall kvs, v = JObj kvs -> nc (match build_members O (build O) k kvs with
                                                         | (VPass, rs) => Ok (RAnon rs) | (VRej, _) => Rej | (VCrash x, _) => Crash x end)).
      { intros kvs ->. pose proof (build_members_nc (build O) (ksub k) HB k kvs (incl_refl _) (proj1 (okV_obj kvs) Hv)) as Hi.
        destruct (build_members _ _ k kvs) as [s rs]. destruct s; simpl in *; auto. }
      destruct c; destruct v; try exact I; try (apply Hitems; reflexivity); try (apply Hmembers; reflexivity).
      simpl in Hv. destruct (A_float z Hv) as (f & ->). exact I.
    - destruct ov; exact I.
    - apply with_default_nc; auto. intros v Hv.
      pose proof (HB x (or_introl eq_refl) (Some v) Hv) as Hn. destruct (build O x (Some v)); simpl in *; auto.
    - apply with_default_nc; auto. intros v Hv. apply attempt_nc.
      clear - HB Hv. induction es as [|e0 es IH]; simpl; [constructor|].
      constructor; [apply HB; simpl; auto|apply IH; intros x Hx; apply HB; now right].
    - apply with_default_nc; auto. intros v Hv. destruct v as [| | | | | |kvs]; try exact I.
      match goal with |- nc (match vand ?a (deep_validators O (build O) ?k' (JObj kvs)) with _ => _ end) =>
        assert (Hn : vnc (vand a (deep_validators O (build O) k' (JObj kvs)))) end.
      { apply vand_nc.
        - apply vall_nc. repeat (constructor; [apply vb_nc|]). constructor.
        - apply (deep_nc (build O) (ksub k) HB); [|exact Hv].
          intros z Hz. unfold ksub in *. simpl in Hz. repeat (apply in_app_or in Hz; destruct Hz as [Hz|Hz]); try contradiction;
            repeat (first [apply in_or_app; left; exact Hz | apply in_or_app; right]); try exact Hz. }
      destruct (vand _ _); simpl in Hn; try exact I; try contradiction.
      pose proof (build_members_nc (build O) (ksub k) HB k kvs (incl_refl _) (proj1 (okV_obj kvs) Hv)) as Hi.
      destruct (build_members _ _ k kvs) as [s rs]. destruct s; simpl in *; auto.
  Qed.
End NoCrash.
