(* ParseReplay.v — parsing is stable under growth of the parse state.  If parse_element S st returns
   (e, st') then st' extends st (every name's list of classes only grows at its end), and parsing the
   SAME schema again in any state that extends st' - and whose classes are equal to themselves, as
   every well-formed class is (C17_reflexive) - returns the same element e and leaves that state
   untouched: the de-duplication finds, for every class the schema builds, the class it produced the
   first time.  This is the mechanism behind "exactly one class per distinct object schema" for a
   definition referenced several times (C02) and behind the class names being stable (C06). *)
From Coq Require String. Import String.StringSyntax.
From Coq Require Import List Bool Lia PeanoNat.
From Statham.Model Require Import Str Json Elem Equality Names Tables Parser Plain Plain2.
From Statham.Proofs Require Import StrFacts ParserFacts MetaProof.
Import ListNotations.
Local Open Scope string_scope.
Local Open Scope list_scope.
Arguments s_ : simpl never.

Definition cls_of (st : pstate) (name : str) : list elem := match lookup name st with Some l => l | None => [] end.
Definition ext (a b : pstate) : Prop := forall name, exists tl, cls_of b name = cls_of a name ++ tl.
Definition refl_state (st : pstate) : Prop := forall name x, In x (cls_of st name) -> elem_eq x x = true.

Lemma ext_refl a : ext a a.
Proof. intros name. exists []. now rewrite app_nil_r. Qed.
Lemma ext_trans a b c : ext a b -> ext b c -> ext a c.
Proof.
  intros H1 H2 name. destruct (H1 name) as (t1 & E1). destruct (H2 name) as (t2 & E2).
  exists (t1 ++ t2). now rewrite E2, E1, app_assoc.
Qed.

(* a computation that only ever extends the state and repeats itself on any extension of its result *)
Definition R {A} (m : M A) : Prop :=
  forall st a st', m st = POk (a, st') ->
    ext st st' /\ forall st2, ext st' st2 -> refl_state st2 -> m st2 = POk (a, st2).

Lemma R_ret {A} (a : A) : R (ret a).
Proof. intros st b st' H. apply ret_inv in H as [<- <-]. split; [apply ext_refl|]. intros; reflexivity. Qed.
Lemma R_fail {A} e : R (@fail A e).
Proof. intros st b st' H. exfalso. eapply fail_inv; eauto. Qed.
Lemma R_bind {A B} (m : M A) (f : A -> M B) : R m -> (forall a, R (f a)) -> R (bind m f).
Proof.
  intros Hm Hf st b st' H. apply bind_inv in H as (a & s1 & H1 & H2).
  destruct (Hm _ _ _ H1) as [E1 K1]. destruct (Hf a _ _ _ H2) as [E2 K2].
  split; [eapply ext_trans; eauto|]. intros st2 He Hr. unfold bind.
  rewrite (K1 st2 (ext_trans _ _ _ E2 He) Hr). exact (K2 st2 He Hr).
Qed.

(* ---- _ParseState.dedupe ---- *)
Lemma find_app_some {A} (f : A -> bool) l tl x : find f l = Some x -> find f (l ++ tl) = Some x.
Proof. induction l as [|y r IH]; simpl; [discriminate|]. destruct (f y); auto. Qed.
Lemma find_app_none {A} (f : A -> bool) l tl : find f l = None -> find f (l ++ tl) = find f tl.
Proof. induction l as [|y r IH]; simpl; [reflexivity|]. destruct (f y); [discriminate|auto]. Qed.

Lemma elem_eq_set_name cls n : elem_eq cls (set_name cls n) = elem_eq (set_name cls n) (set_name cls n).
Proof. destruct cls; reflexivity. Qed.

Lemma R_dedupe cls : R (dedupe cls).
Proof.
  intros st x st' H. unfold dedupe in H.
  change (match lookup (obj_name cls) st with Some l => l | None => [] end) with (cls_of st (obj_name cls)) in H.
  set (name := obj_name cls) in *. set (existing := cls_of st name) in *.
  destruct (find (fun y => elem_eq cls y) existing) as [y|] eqn:Ef.
  - inversion H; subst. split; [apply ext_refl|]. intros st2 He Hr. unfold dedupe.
    change (match lookup (obj_name cls) st2 with Some l => l | None => [] end) with (cls_of st2 name).
    destruct (He name) as (tl & E). fold existing in E. rewrite E, (find_app_some _ _ tl _ Ef). reflexivity.
  - set (cls' := match length existing with O => cls | S _ => set_name cls (name ++ c_us :: str_of_nat (length existing)) end) in *.
    inversion H; subst. clear H.
    assert (Hnew : cls_of (dict_set name (existing ++ [cls']) st) name = existing ++ [cls']).
    { unfold cls_of. now rewrite lookup_dict_set, str_eqb_refl. }
    split.
    + intros nm. destruct (str_eqb_spec nm name) as [->|Hne].
      * exists [cls']. exact Hnew.
      * exists []. unfold cls_of. rewrite lookup_dict_set. destruct (str_eqb_spec nm name); [congruence|]. now rewrite app_nil_r.
    + intros st2 He Hr. unfold dedupe.
      change (match lookup (obj_name cls) st2 with Some l => l | None => [] end) with (cls_of st2 name).
      destruct (He name) as (tl & E). rewrite Hnew in E. rewrite E, <- app_assoc, (find_app_none _ _ _ Ef).
      cbn [app find].
      assert (Hin : In cls' (cls_of st2 name)) by (rewrite E; apply in_or_app; left; apply in_or_app; right; now left).
      pose proof (Hr name cls' Hin) as Hrefl.
      assert (Eq : elem_eq cls cls' = true).
      { unfold cls' in *. destruct (length existing); [exact Hrefl|]. now rewrite elem_eq_set_name. }
      now rewrite Eq.
Qed.

(* ---- a size measure for the induction over schemas ---- *)
Fixpoint jsize (j : json) : nat :=
  match j with
  | JArr l => S ((fix go (l : list json) : nat := match l with [] => 0 | x :: r => jsize x + go r end) l)
  | JObj kvs => S ((fix go (l : list (str * json)) : nat := match l with [] => 0 | (_, v) :: r => jsize v + go r end) kvs)
  | _ => 1
  end.

Lemma jsize_pos j : 0 < jsize j.
Proof. destruct j; simpl; lia. Qed.
Lemma jsize_arr x l : In x l -> jsize x < jsize (JArr l).
Proof.
  induction l as [|y r IH]; [contradiction|]. intros [->|H]; simpl in *; [lia|]. specialize (IH H). lia.
Qed.
Lemma jsize_obj k v kvs : In (k, v) kvs -> jsize v < jsize (JObj kvs).
Proof.
  induction kvs as [|[k' v'] r IH]; [contradiction|]. intros [E|H]; simpl in *; [inversion E; subst; lia|].
  specialize (IH H). lia.
Qed.
Lemma jsize_lookup k v kvs : lookup k kvs = Some v -> jsize v < jsize (JObj kvs).
Proof. intros H. apply lookup_In in H. eapply jsize_obj; eauto. Qed.

(* ---- the sub-parsers ---- *)
Section Sub.
  Variable P : json -> M elem.

  Lemma R_parse_list l : Forall (fun x => R (P x)) l -> R (parse_list P l).
  Proof.
    induction 1 as [|x r Hx _ IH]; cbn [parse_list]; [apply R_ret|].
    apply R_bind; [exact Hx|]. intros e. apply R_bind; [exact IH|]. intros es. apply R_ret.
  Qed.

  Lemma R_parse_assoc kvs : Forall (fun kv : str * json => R (P (snd kv))) kvs -> R (parse_assoc P kvs).
  Proof.
    induction 1 as [|[k v] r Hx _ IH]; cbn [parse_assoc]; [apply R_ret|].
    destruct (is_schema v); [|exact IH].
    apply R_bind; [exact Hx|]. intros e. apply R_bind; [exact IH|]. intros es. apply R_ret.
  Qed.

  Lemma R_with_key {A} (f : json -> M A) key kvs (d : M A) :
    (forall v, lookup key kvs = Some v -> R (f v)) -> R d -> R (with_key f key kvs d).
  Proof.
    intros Hf Hd. rewrite with_key_lookup. destruct (lookup key kvs) as [v|]; [now apply Hf|exact Hd].
  Qed.

  (* everything parse_element calls P on lies strictly inside the schema *)
  Variable S0 : json.
  Hypothesis IH : forall x, jsize x < jsize S0 -> R (P x).

  Lemma IH_list l : jsize (JArr l) <= jsize S0 -> Forall (fun x => R (P x)) l.
  Proof. intros H. apply Forall_forall. intros x Hx. apply IH. pose proof (jsize_arr x l Hx). lia. Qed.
  Lemma IH_vals kvs : jsize (JObj kvs) <= jsize S0 -> Forall (fun kv : str * json => R (P (snd kv))) kvs.
  Proof. intros H. apply Forall_forall. intros [k v] Hx. apply IH. pose proof (jsize_obj k v kvs Hx). cbn [snd]. lia. Qed.

  Lemma R_some j : jsize j < jsize S0 -> R (parse_some P j).
  Proof. intros H. unfold parse_some. apply R_bind; [now apply IH|]. intros. apply R_ret. Qed.
  Lemma R_addl j : jsize j < jsize S0 -> R (parse_addl P j).
  Proof. intros H. unfold parse_addl. destruct j; try (apply R_bind; [now apply IH|intros; apply R_ret]). apply R_ret. Qed.
  Lemma R_items j : jsize j < jsize S0 -> R (parse_items P j).
  Proof.
    intros H. unfold parse_items. destruct j; try (apply R_bind; [now apply IH|intros; apply R_ret]).
    apply R_bind; [apply R_parse_list, IH_list; lia|intros; apply R_ret].
  Qed.
  Lemma R_deps j : jsize j < jsize S0 -> R (parse_deps P j).
  Proof.
    intros H. unfold parse_deps. destruct j; try apply R_fail.
    apply R_bind; [apply R_parse_assoc, IH_vals; lia|intros; apply R_ret].
  Qed.
  Lemma R_props attr req j : jsize j < jsize S0 -> R (parse_props P attr req j).
  Proof.
    intros H. unfold parse_props. destruct j; try apply R_fail.
    apply R_bind; [apply R_parse_assoc, IH_vals; lia|intros; apply R_ret].
  Qed.
  Lemma R_pats j : jsize j < jsize S0 -> R (parse_pats P j).
  Proof.
    intros H. unfold parse_pats. destruct j; try apply R_fail.
    apply R_bind; [apply R_parse_assoc, IH_vals; lia|intros; apply R_ret].
  Qed.
  Lemma R_comp_list j : jsize j < jsize S0 -> R (parse_comp_list P j).
  Proof. intros H. unfold parse_comp_list. destruct j; try apply R_fail. apply R_parse_list, IH_list. lia. Qed.
  Lemma R_not j : jsize j < jsize S0 -> R (parse_not P j).
  Proof. intros H. unfold parse_not. apply R_bind; [now apply IH|intros; apply R_ret]. Qed.
End Sub.

Lemma R_parse_keys (sub : str -> M (list elem)) ks : (forall key, R (sub key)) -> R (parse_keys sub ks).
Proof.
  intros H. induction ks as [|k r IH]; cbn [parse_keys]; [apply R_ret|].
  apply R_bind; [apply H|]. intros es. apply R_bind; [exact IH|]. intros. apply R_ret.
Qed.

Section Node.
  Variable cfg : pcfg.

  Lemma R_parse_object S K : R (parse_object cfg S K).
  Proof.
    unfold parse_object. destruct (obj_title S) as [[| | | |t| |]|]; try apply R_fail;
      try (match goal with |- R (if ?b then _ else _) => destruct b; apply R_fail end).
    destruct t; [apply R_fail|apply R_dedupe].
  Qed.

  Lemma R_typed_single t S K : R (typed_single cfg t S K).
  Proof.
    unfold typed_single. destruct (str_eqb t (s_ "object")); [apply R_parse_object|].
    destruct (has_key (s_ "self") S); [apply R_fail|].
    destruct (str_eqb t (s_ "array")); [apply R_ret|].
    destruct (lookup t type_mapping); [apply R_ret|apply R_fail].
  Qed.

  Lemma R_finish_plain S K : R (finish_plain cfg S K).
  Proof.
    unfold finish_plain. destruct (lookup (s_ "type") S) as [[| | | |t|ts|]|]; try apply R_fail.
    - apply R_typed_single.
    - assert (Hgo : forall S' K' l, R ((fix go (l : list json) : M (list elem) :=
                match l with
                | [] => ret []
                | JStr t :: r => do e <- typed_single cfg t S' K';; do es <- go r;; ret (e :: es)
                | _ :: _ => fail PCrash
                end) l)).
      { intros S' K'. induction l as [|x r IHl]; [apply R_ret|]. destruct x; try apply R_fail.
        apply R_bind; [apply R_typed_single|]. intros e. apply R_bind; [exact IHl|]. intros. apply R_ret. }
      destruct ts as [|[| | | |t| |] [|t2 tr]];
        repeat first [ apply R_typed_single | apply R_ret | apply R_fail | apply Hgo
                     | (apply R_bind; [|intros ?])
                     | match goal with |- R (match ?es with [] => _ | _ :: _ => _ end) => destruct es end
                     | match goal with |- R (match ?j with JStr _ => _ | _ => _ end) => destruct j end ].
    - destruct (has_key (s_ "self") S); [apply R_fail|apply R_ret].
  Qed.

  Theorem parse_R : forall n S, jsize S <= n -> R (parse_element cfg S).
  Proof.
    induction n as [|n IHn]; intros S Hs; [pose proof (jsize_pos S); lia|].
    assert (IH : forall x, jsize x < jsize S -> R (parse_element cfg x)) by (intros x Hx; apply IHn; lia).
    destruct S as [|b| | | | |kvs]; cbn [parse_element]; try apply R_fail.
    - destruct b; apply R_ret.
    - destruct (existsb (fun kv => mem_str (fst kv) (c_unsupported cfg)) kvs); [apply R_fail|].
      assert (Hl : forall key v, lookup key kvs = Some v -> jsize v < jsize (JObj kvs)) by (intros; eapply jsize_lookup; eauto).
      apply R_bind; [apply R_with_key; [intros v Hv; apply (R_props _ _ IH); eauto|apply R_ret]|]. intros props.
      apply R_bind; [apply R_with_key; [intros v Hv; apply (R_items _ _ IH); eauto|apply R_ret]|]. intros items.
      apply R_bind; [apply R_with_key; [intros v Hv; apply (R_pats _ _ IH); eauto|apply R_ret]|]. intros pats.
      apply R_bind; [apply R_with_key; [intros v Hv; apply (R_some _ _ IH); eauto|apply R_ret]|]. intros pnames.
      apply R_bind; [apply R_with_key; [intros v Hv; apply (R_some _ _ IH); eauto|apply R_ret]|]. intros contains.
      apply R_bind; [apply R_with_key; [intros v Hv; apply (R_deps _ _ IH); eauto|apply R_ret]|]. intros deps.
      apply R_bind; [apply R_with_key; [intros v Hv; apply (R_addl _ _ IH); eauto|apply R_ret]|]. intros addp.
      apply R_bind; [apply R_with_key; [intros v Hv; apply (R_addl _ _ IH); eauto|apply R_ret]|]. intros addi.
      match goal with |- R (if ?b then _ else _) => destruct b end; [apply R_finish_plain|].
      apply R_bind; [apply R_finish_plain|]. intros base.
      apply R_bind.
      { apply R_parse_keys. intros key. apply R_with_key; [intros v Hv; apply (R_comp_list _ _ IH); eauto|apply R_ret]. }
      intros parsed.
      apply R_bind; [apply R_with_key; [intros v Hv; apply (R_not _ _ IH); eauto|apply R_ret]|]. intros nots.
      match goal with |- R (if ?b then _ else _) => destruct b end; apply R_ret.
  Qed.
End Node.

(* ---- the statements ---- *)
Theorem replay cfg S st e st' : parse_element cfg S st = POk (e, st') ->
  ext st st' /\ forall st2, ext st' st2 -> refl_state st2 -> parse_element cfg S st2 = POk (e, st2).
Proof. exact (parse_R cfg (jsize S) S (le_n _) st e st'). Qed.

(* parsing the same schema again, right away or at any later point of the same parse, gives the very
   same element: one class per distinct object schema, however often it is referenced *)
Corollary reparse_same cfg S st e st' : parse_element cfg S st = POk (e, st') -> refl_state st' ->
  parse_element cfg S st' = POk (e, st').
Proof. intros H Hr. destruct (replay cfg S st e st' H) as [_ K]. exact (K st' (ext_refl _) Hr). Qed.

Corollary reparse_later cfg S st e st' S2 e2 st2 :
  parse_element cfg S st = POk (e, st') -> parse_element cfg S2 st' = POk (e2, st2) -> refl_state st2 ->
  parse_element cfg S st2 = POk (e, st2).
Proof.
  intros H1 H2 Hr. destruct (replay cfg S st e st' H1) as [_ K]. destruct (replay cfg S2 st' e2 st2 H2) as [E2 _].
  exact (K st2 E2 Hr).
Qed.

(* the states of a parse only grow *)
Corollary parse_extends cfg S st e st' : parse_element cfg S st = POk (e, st') -> ext st st'.
Proof. intros H. exact (proj1 (replay cfg S st e st' H)). Qed.

(* executable form of the premise: every class of the state equals itself *)
Lemma refl_stateb_sound st : refl_stateb st = true -> refl_state st.
Proof.
  unfold refl_stateb, refl_state, cls_of. intros H name x Hx. rewrite forallb_forall in H.
  destruct (lookup name st) as [l|] eqn:El; [|contradiction]. apply lookup_In in El.
  specialize (H _ El). cbn [snd] in H. rewrite forallb_forall in H. now apply H.
Qed.
