(* OrdererLoop.v — the emission loop of orderer() yields a topological
   permutation of the keys of any closed, irreflexive dependency map. *)
From Coq Require Import Lia Permutation.
From Statham.Model Require Import Str Orderer.
From Statham.Proofs Require Import StrFacts.

Definition closed (d : deps_t) : Prop :=
  forall k ds x, In (k, ds) d -> In x ds ->
    exists ds', lookup x d = Some ds' /\ incl ds' ds.

Definition irrefl (d : deps_t) : Prop :=
  forall k ds, In (k, ds) d -> ~ In k ds.

Definition before (x k : str) (l : list str) : Prop :=
  exists l1 l2, l = l1 ++ x :: l2 /\ In k l2.

Lemma has_cycle_false d : has_cycle d = false <-> irrefl d.
Proof.
  unfold has_cycle, irrefl; split.
  - intros H k ds Hin Hk.
    assert (existsb (fun kv => mem_str (fst kv) (snd kv)) d = true) as E; [|congruence].
    apply existsb_exists; exists (k, ds); split; auto; simpl; now apply mem_str_In.
  - intros H; destruct (existsb _ d) eqn:E; auto.
    apply existsb_exists in E as ([k ds] & Hin & Hm); simpl in Hm.
    apply mem_str_In in Hm; exfalso; eapply H; eauto.
Qed.

Lemma has_cycle_true d : has_cycle d = true <-> exists k ds, In (k, ds) d /\ In k ds.
Proof.
  unfold has_cycle; rewrite existsb_exists; split.
  - intros ([k ds] & Hin & Hm); simpl in Hm; apply mem_str_In in Hm; eauto.
  - intros (k & ds & Hin & Hk); exists (k, ds); split; auto; simpl; now apply mem_str_In.
Qed.

Lemma first_free_Some d k : first_free d = Some k -> In (k, []) d.
Proof.
  induction d as [|[k' [|y ys]] r IH]; simpl; try discriminate.
  - intros H; injection H as ->; auto.
  - auto.
Qed.

Lemma first_free_exists d k : In (k, []) d -> exists k', first_free d = Some k'.
Proof.
  induction d as [|[k' [|y ys]] r IH]; simpl; [tauto| eauto |].
  intros [E|I]; [discriminate|auto].
Qed.

(* --- progress: a closed irreflexive non-empty map has a free key --- *)
Lemma nodup_lt (a b : list str) x :
  incl a b -> In x b -> ~ In x a ->
  length (nodup str_eq_dec a) < length (nodup str_eq_dec b).
Proof.
  intros Hi Hx Hn.
  assert (NoDup (x :: nodup str_eq_dec a)) as Hnd.
  { constructor; [rewrite nodup_In; auto | apply NoDup_nodup]. }
  apply NoDup_incl_length with (l' := nodup str_eq_dec b) in Hnd; [simpl in Hnd; lia|].
  intros y [<-|Hy]; apply nodup_In; auto. apply Hi. now apply nodup_In in Hy.
Qed.

Lemma free_exists d : closed d -> irrefl d ->
  forall n k ds, In (k, ds) d -> length (nodup str_eq_dec ds) <= n -> exists k', In (k', []) d.
Proof.
  intros Hc Hi; induction n as [|n IH]; intros k ds Hin Hlen.
  - destruct ds as [|x r]; [eauto|].
    exfalso. assert (In x (nodup str_eq_dec (x :: r))) as Hx by (apply nodup_In; simpl; auto).
    destruct (nodup str_eq_dec (x :: r)); simpl in *; [tauto|lia].
  - destruct ds as [|x r]; [eauto|].
    destruct (Hc k (x :: r) x Hin (or_introl eq_refl)) as (ds' & Hl & Hincl).
    apply lookup_In in Hl.
    apply (IH x ds' Hl).
    assert (length (nodup str_eq_dec ds') < length (nodup str_eq_dec (x :: r))); [|lia].
    apply nodup_lt with (x := x); [exact Hincl | simpl; auto | eapply Hi; eauto].
Qed.

(* --- pop_name preserves the invariants --- *)
Lemma keys_map_fst (d : deps_t) (f : list str -> list str) :
  keys (map (fun kv => (fst kv, f (snd kv))) d) = keys d.
Proof. unfold keys; rewrite map_map; simpl; reflexivity. Qed.

Lemma In_pop k0 k ds d :
  In (k, ds) (pop_name k0 d) <->
  exists ds0, In (k, ds0) d /\ ds = filter (neq_str k0) ds0 /\ k <> k0.
Proof.
  unfold pop_name; rewrite In_remove_key, in_map_iff; split.
  - intros (([k1 ds1] & E & Hin) & Hne); simpl in E; injection E as -> <-; eauto.
  - intros (ds0 & Hin & -> & Hne); split; auto. exists (k, ds0); auto.
Qed.

Lemma filter_nodup_keys (l : list str) f : NoDup l -> NoDup (filter f l).
Proof. apply NoDup_filter. Qed.

Lemma pop_nodup k0 d : NoDup (keys d) -> NoDup (keys (pop_name k0 d)).
Proof.
  intros H; unfold pop_name; rewrite keys_remove_key, keys_map_fst.
  now apply NoDup_filter.
Qed.

Lemma lookup_pop k0 x d ds :
  NoDup (keys d) -> lookup x d = Some ds -> x <> k0 ->
  lookup x (pop_name k0 d) = Some (filter (neq_str k0) ds).
Proof.
  intros Hnd Hl Hne; apply In_lookup; [now apply pop_nodup|].
  apply In_pop; exists ds; split; [now apply lookup_In|auto].
Qed.

Lemma neq_str_true a b : neq_str a b = true <-> a <> b.
Proof. unfold neq_str; rewrite negb_true_iff; apply str_eqb_neq. Qed.

Lemma pop_closed k0 d : NoDup (keys d) -> closed d -> closed (pop_name k0 d).
Proof.
  intros Hnd Hc k ds x Hin Hx.
  apply In_pop in Hin as (ds0 & Hin & -> & Hne).
  apply filter_In in Hx as [Hx Hxk]; apply neq_str_true in Hxk.
  destruct (Hc k ds0 x Hin Hx) as (ds' & Hl & Hincl).
  exists (filter (neq_str k0) ds'); split; [apply lookup_pop; auto|].
  intros y Hy; apply filter_In in Hy as [Hy Hyk]; apply filter_In; auto.
Qed.

Lemma pop_irrefl k0 d : irrefl d -> irrefl (pop_name k0 d).
Proof.
  intros Hi k ds Hin Hk; apply In_pop in Hin as (ds0 & Hin & -> & Hne).
  apply filter_In in Hk as [Hk _]; eapply Hi; eauto.
Qed.

Lemma pop_length k0 d ds : NoDup (keys d) -> In (k0, ds) d ->
  S (length (pop_name k0 d)) = length d.
Proof.
  unfold pop_name; intros Hnd Hin.
  set (d' := map _ d).
  assert (length d' = length d) as <- by (unfold d'; apply map_length).
  assert (NoDup (keys d')) as Hnd' by (unfold d'; now rewrite keys_map_fst).
  assert (In k0 (keys d')) as Hk.
  { unfold d'; rewrite keys_map_fst; unfold keys; change k0 with (fst (k0, ds)); now apply in_map. }
  clearbody d'; clear - Hnd' Hk.
  induction d' as [|[k v] r IH]; simpl in *; [tauto|].
  inversion Hnd' as [|? ? Hni Hr]; subst.
  destruct (str_eqb_spec k0 k) as [->|Hne].
  - f_equal. clear - Hni. induction r as [|[k2 v2] r IH]; simpl in *; auto.
    destruct (str_eqb_spec k k2) as [->|Hn]; [tauto|]. simpl; f_equal; apply IH; tauto.
  - simpl; f_equal; apply IH; auto. destruct Hk; [congruence|auto].
Qed.

Lemma filter_all {A} (f : A -> bool) l : (forall x, In x l -> f x = true) -> filter f l = l.
Proof.
  induction l as [|a l IH]; simpl; intros H; [reflexivity|].
  rewrite (H a (or_introl eq_refl)); f_equal; apply IH; intros; apply H; auto.
Qed.

Lemma keys_pop_perm k0 ds d : NoDup (keys d) -> In (k0, ds) d ->
  Permutation (k0 :: keys (pop_name k0 d)) (keys d).
Proof.
  intros Hnd Hin. unfold pop_name; rewrite keys_remove_key, keys_map_fst.
  assert (In k0 (keys d)) as Hk.
  { unfold keys; change k0 with (fst (k0, ds)); now apply in_map. }
  clear Hin; induction (keys d) as [|k r IH]; simpl in *; [tauto|].
  inversion Hnd as [|? ? Hni Hr]; subst.
  destruct (str_eqb_spec k0 k) as [->|Hne]; simpl.
  - apply perm_skip. rewrite filter_all; auto.
    intros y Hy. apply negb_true_iff, str_eqb_neq; congruence.
  - rewrite perm_swap; apply perm_skip; apply IH; auto. destruct Hk; [congruence|auto].
Qed.

Lemma before_cons x k y l : before x k l -> before x k (y :: l).
Proof. intros (l1 & l2 & -> & H); exists (y :: l1), l2; auto. Qed.

Lemma before_head x k l : In k l -> before x k (x :: l).
Proof. intros H; exists [], l; auto. Qed.

Lemma emit_inv : forall fuel d acc,
  length d = fuel -> NoDup (keys d) -> closed d -> irrefl d ->
  exists l, emit fuel d acc = OOk (rev acc ++ l) /\ Permutation l (keys d) /\
            forall k ds x, In (k, ds) d -> In x ds -> before x k l.
Proof.
  induction fuel as [|f IH]; intros d acc Hlen Hnd Hc Hi.
  - destruct d; [|discriminate]. exists []; simpl; rewrite app_nil_r; repeat split; auto.
    intros ? ? ? [].
  - destruct d as [|[k1 ds1] r] eqn:Ed; [discriminate|]. rewrite <- Ed in *.
    assert (exists k', In (k', []) d) as (k' & Hk').
    { apply (free_exists d Hc Hi (length (nodup str_eq_dec ds1)) k1 ds1); [subst; simpl; auto|lia]. }
    destruct (first_free_exists _ _ Hk') as (k0 & Hff).
    pose proof (first_free_Some _ _ Hff) as Hk0.
    simpl; rewrite Hff.
    destruct (IH (pop_name k0 d) (k0 :: acc)) as (l & He & Hp & Hb).
    + pose proof (pop_length k0 d [] Hnd Hk0); lia.
    + now apply pop_nodup.
    + now apply pop_closed.
    + now apply pop_irrefl.
    + exists (k0 :: l); split; [|split].
      * rewrite He; simpl; now rewrite <- app_assoc.
      * rewrite <- (keys_pop_perm k0 [] d Hnd Hk0); now apply perm_skip.
      * intros k ds x Hin Hx.
        destruct (str_eq_dec k k0) as [->|Hne].
        { pose proof (In_lookup _ _ _ Hnd Hk0) as E.
          pose proof (In_lookup _ _ _ Hnd Hin) as E'. rewrite E in E'; injection E' as <-. destruct Hx. }
        assert (In (k, filter (neq_str k0) ds) (pop_name k0 d)) as Hin'.
        { apply In_pop; eauto. }
        destruct (str_eq_dec x k0) as [->|Hxe].
        { apply before_head. eapply Permutation_in; [symmetry; apply Hp|].
          unfold keys; change k with (fst (k, filter (neq_str k0) ds)); now apply in_map. }
        apply before_cons; eapply Hb; eauto.
        apply filter_In; split; auto; apply neq_str_true; congruence.
Qed.

Theorem order_names_acyclic d :
  NoDup (keys d) -> closed d -> has_cycle d = false ->
  exists l, order_names d = OOk l /\ Permutation l (keys d) /\
            forall k ds x, In (k, ds) d -> In x ds -> before x k l.
Proof.
  intros Hnd Hc Hcy; unfold order_names; rewrite Hcy.
  apply has_cycle_false in Hcy.
  destruct (emit_inv (length d) d [] eq_refl Hnd Hc Hcy) as (l & He & Hp & Hb).
  exists l; auto.
Qed.

Theorem order_names_cyclic d :
  (exists k ds, In (k, ds) d /\ In k ds) -> order_names d = OSchemaParseError.
Proof. intros H; apply has_cycle_true in H; unfold order_names; now rewrite H. Qed.
