(* C01Object.v — the object clauses: properties x patternProperties x additionalProperties
   member by member (Properties.__getitem__ / __call__), and the AdditionalProperties validator. *)
From Coq Require String. Import String.StringSyntax.
From Coq Require Import Lia.
From Statham.Model Require Import Str Json Elem PyNum Validate Tables Parser Spec6.
From Statham.Proofs Require Import StrFacts JsonEqProof MetaProof DefaultsProof C01Vm C01Items.
Local Open Scope string_scope.
Arguments s_ : simpl never.

(* ---- normal forms of the continuation-parameterised traversals ---- *)
Fixpoint matching (pred : str -> bool) (l : list (str * elem)) : list elem :=
  match l with
  | [] => []
  | (p, e) :: r => if pred p then e :: matching pred r else matching pred r
  end.

Lemma map_matching_map {A} (f : elem -> A) pred l : map_matching f pred l = map f (matching pred l).
Proof. induction l as [|[p e] r IH]; simpl; [reflexivity|]. destruct (pred p); simpl; now rewrite IH. Qed.

Definition lift3 {A} (f : elem -> A) (t : str * bool * elem) : str * bool * A :=
  (fst (fst t), snd (fst t), f (snd t)).

Lemma find_by_source_map {A} (f : elem -> A) key ps : forall acc,
  find_by_source f key ps (option_map (lift3 f) acc) =
  option_map (lift3 f) (find_by_source (fun e => e) key ps acc).
Proof.
  induction ps as [|[name p] r IH]; intros acc; simpl; [reflexivity|].
  destruct (str_eqb (p_source p) key); [|apply IH].
  apply (IH (Some (name, p_required p, p_elem p))).
Qed.

Lemma build_none_not_rej O e : build O e None <> Rej.
Proof.
  destruct e; cbn [build]; unfold with_default; try discriminate.
  - destruct (k_default k) as [dv|]; [|discriminate].
    match goal with |- (match ?x with _ => _ end) <> _ => destruct x end; discriminate.
  - destruct d as [dv|]; [|discriminate].
    match goal with |- (match ?x with _ => _ end) <> _ => destruct x end; discriminate.
  - destruct d as [dv|]; [|discriminate].
    match goal with |- (match ?x with _ => _ end) <> _ => destruct x end; discriminate.
  - destruct (k_default k) as [dv|]; [|discriminate].
    match goal with |- (match ?x with _ => _ end) <> _ => destruct x end; discriminate.
Qed.

Section Obj.
  Variable O : oracles.
  Variable w : wmode.
  Notation F := (v6 O w).
  Notation B := (build O).
  Notation sim := (sim O w).
  Notation sim_assoc := (sim_assoc O w).
  Notation sim_addl := (sim_addl O w).

  Lemma matching_rel pred es pp : sim_assoc es pp ->
    Forall2 sim (matching pred es) (map snd (filter (fun pe => pred (fst pe)) pp)).
  Proof.
    induction 1 as [|[p e] [p' S0] es pp [E He] Hr IH]; simpl in *; [constructor|].
    subst p'. destruct (pred p); simpl; [constructor|]; auto.
  Qed.

  Variable kvs : list (str * json).
  Variables (props : option (list (str * prop elem))) (pats : option (list (str * elem))) (addp : addl elem).

  Definition props_rel : Prop :=
    match lookup (s_ "properties") kvs with
    | None => forall key, find_by_source_o (fun e => e) key props = None
    | Some (JObj pkvs) =>
        forall key, match lookup key pkvs with
                    | None => find_by_source_o (fun e => e) key props = None
                    | Some Sx => exists name req e,
                        find_by_source_o (fun e => e) key props = Some (name, req, e) /\ sim e Sx
                    end
    | Some _ => False
    end.
  Definition pats_rel : Prop :=
    match lookup (s_ "patternProperties") kvs with
    | None => pats = None
    | Some (JObj pp) => exists es, pats = Some es /\ sim_assoc es pp
    | Some _ => False
    end.
  Hypothesis Hprops : props_rel.
  Hypothesis Hpats : pats_rel.
  Hypothesis Haddp : sim_addl addp (lookup (s_ "additionalProperties") kvs).

  (* the schema declared for / the pattern schemas matching a member name *)
  Definition decl_S (key : str) : option json :=
    match lookup (s_ "properties") kvs with
    | Some (JObj pkvs) => lookup key pkvs
    | _ => None
    end.
  Definition pat_Ss (key : str) : list json :=
    match lookup (s_ "patternProperties") kvs with
    | Some (JObj pp) => map snd (filter (fun pe => re_search O (fst pe) key) pp)
    | _ => []
    end.
  Definition decl_e (key : str) : option (str * bool * elem) :=
    find_by_source_o (fun e => e) key props.
  Definition pat_es (key : str) : list elem :=
    match pats with Some es => matching (fun p => re_search O p key) es | None => [] end.

  Lemma decl_rel key :
    match decl_S key with
    | None => decl_e key = None
    | Some Sx => exists name req e, decl_e key = Some (name, req, e) /\ sim e Sx
    end.
  Proof.
    unfold decl_S, decl_e. red in Hprops.
    destruct (lookup (s_ "properties") kvs) as [Sp|]; [|apply Hprops].
    destruct Sp; try contradiction. apply Hprops.
  Qed.

  Lemma pat_rel key : Forall2 sim (pat_es key) (pat_Ss key).
  Proof.
    unfold pat_es, pat_Ss. red in Hpats.
    destruct (lookup (s_ "patternProperties") kvs) as [Sp|]; [|subst pats; constructor].
    destruct Sp; try contradiction. destruct Hpats as (es & -> & H).
    apply (matching_rel (fun p => re_search O p key)); exact H.
  Qed.

  Definition addl_b (x : json) : bool :=
    match lookup (s_ "additionalProperties") kvs with Some Sa => F Sa x | None => true end.

  Definition member_b (key : str) (x : json) : bool :=
    (match decl_S key with Some Sx => F Sx x | None => true end)
    && forallb (fun S0 => F S0 x) (pat_Ss key)
    && (match decl_S key, pat_Ss key with
        | None, [] => addl_b x
        | _, _ => true
        end).

  (* the spec's per-member body, in these terms *)
  Lemma spec_member key x :
    (let declared := match lookup (s_ "properties") kvs with
                     | Some (JObj pkvs) => has_key key pkvs | _ => false end in
     let matched := match lookup (s_ "patternProperties") kvs with
                    | Some (JObj pp) => existsb (fun pe => re_search O (fst pe) key) pp
                    | _ => false end in
     wkey (fun Sp => match Sp with
                     | JObj pkvs => wkey (fun Sx => F Sx x) key pkvs true
                     | _ => true end) (s_ "properties") kvs true
     && wkey (fun Spp => match Spp with
                         | JObj pp =>
                           (fix go (l : list (str * json)) : bool :=
                              match l with
                              | [] => true
                              | (pat, Sx) :: r =>
                                (if re_search O pat key then F Sx x else true) && go r
                              end) pp
                         | _ => true end) (s_ "patternProperties") kvs true
     && (if declared || matched then true
         else wkey (fun Sa => F Sa x) (s_ "additionalProperties") kvs true)) = member_b key x.
  Proof.
    cbv zeta. rewrite !wkey_lookup. unfold member_b, decl_S, pat_Ss, addl_b.
    assert (Hgo : forall pp,
      (fix go (l : list (str * json)) : bool :=
         match l with
         | [] => true
         | (pat, Sx) :: r => (if re_search O pat key then F Sx x else true) && go r
         end) pp = forallb (fun S0 => F S0 x) (map snd (filter (fun pe => re_search O (fst pe) key) pp))
      /\ existsb (fun pe => re_search O (fst pe) key) pp =
         match map snd (filter (fun pe => re_search O (fst pe) key) pp) with [] => false | _ => true end).
    { induction pp as [|[pat Sx] r [IH1 IH2]]; simpl; [split; reflexivity|].
      destruct (re_search O pat key); simpl; rewrite IH1; auto. }
    f_equal; [f_equal|].
    - destruct (lookup (s_ "properties") kvs) as [[| | | | | |pkvs]|]; try reflexivity.
      now rewrite wkey_lookup.
    - destruct (lookup (s_ "patternProperties") kvs) as [[| | | | | |pp]|]; try reflexivity.
      apply Hgo.
    - destruct (lookup (s_ "properties") kvs) as [[| | | | | |pkvs]|];
        destruct (lookup (s_ "patternProperties") kvs) as [[| | | | | |pp]|];
        unfold has_key; try destruct (lookup key pkvs); try reflexivity;
        cbn [orb]; try (rewrite (proj2 (Hgo pp)); destruct (map snd _); reflexivity).
  Qed.

  Section WithK.
    Variable k : kwds elem.
    Hypothesis Ek1 : k_properties k = props.
    Hypothesis Ek2 : k_patternProperties k = pats.
    Hypothesis Ek3 : k_additionalProperties k = addp.

    Lemma member_shape {A} (f : elem -> A) key :
      find_by_source_o f key (k_properties k) = option_map (lift3 f) (decl_e key) /\
      map_matching_o f (fun p => re_search O p key) (k_patternProperties k) = map f (pat_es key).
    Proof.
      rewrite Ek1, Ek2. unfold decl_e, pat_es, find_by_source_o, map_matching_o. split.
      - destruct props as [ps|]; [|reflexivity]. exact (find_by_source_map f key ps None).
      - destruct pats as [es|]; [|reflexivity]. apply map_matching_map.
    Qed.

    Lemma Forall2_sim_om es Ss x : Forall2 sim es Ss -> jwf x ->
      Forall2 om (map (fun e' => B e' (Some x)) es) (map (fun S0 => F S0 x) Ss).
    Proof. induction 1; intros Hx; simpl; constructor; auto. Qed.

    Lemma forallb_map_id {A} (g : A -> bool) l : forallb (fun b => b) (map g l) = forallb g l.
    Proof. induction l; simpl; congruence. Qed.

    Lemma member_om key x : jwf x -> om (snd (member O B k key (Some x))) (member_b key x).
    Proof.
      intros Hx. unfold member.
      destruct (member_shape (fun e' => B e' (Some x)) key) as [-> ->].
      pose proof (decl_rel key) as Hd. pose proof (pat_rel key) as Hp.
      unfold member_b.
      set (Ss := pat_Ss key) in *. set (es := pat_es key) in *. clearbody Ss es.
      pose proof (Forall2_sim_om _ _ x Hp Hx) as Hom.
      destruct (decl_S key) as [Sx|].
      - destruct Hd as (name & req & e & -> & He). cbn [option_map lift3 fst snd].
        pose proof (He x Hx) as Hox.
        destruct Hp as [|e1 S1 er Sr H1 Hr].
        + cbn [map forallb snd]. rewrite andb_true_r. rewrite andb_true_r. exact Hox.
        + cbn [snd]. rewrite andb_true_r.
          set (os := map (fun e' => B e' (Some x)) (e1 :: er)) in *.
          change (om (attempt MAll (B e (Some x) :: os)) (F Sx x && forallb (fun S0 => F S0 x) (S1 :: Sr))).
          rewrite <- (forallb_map_id (fun S0 => F S0 x)).
          apply (attempt_all (B e (Some x) :: os) (F Sx x :: map (fun S0 => F S0 x) (S1 :: Sr))); [discriminate|].
          constructor; auto.
      - rewrite Hd. cbn [option_map].
        destruct Hp as [|e1 S1 er Sr H1 Hr]; [|destruct Hr as [|e2 S2 er Sr H2 Hr]].
        + cbn [map forallb snd andb]. rewrite Ek3. unfold addl_b.
          pose proof (addl_om O w addp _ x Haddp Hx) as Ha. exact Ha.
        + cbn [map forallb snd]. rewrite !andb_true_r. cbn [andb]. exact (H1 x Hx).
        + cbn [snd]. rewrite andb_true_r. cbn [andb].
          rewrite <- (forallb_map_id (fun S0 => F S0 x)).
          apply attempt_all; [discriminate|exact Hom].
    Qed.

    Lemma member_none key : om (snd (member O B k key None)) true.
    Proof.
      unfold member.
      destruct (member_shape (fun e' => B e' None) key) as [-> ->].
      assert (Hn : forall e, om (B e None) true).
      { intros e. pose proof (build_none_not_rej O e). destruct (B e None); simpl; try exact I; congruence. }
      destruct (decl_e key) as [[[name req] e]|]; cbn [option_map lift3 fst snd].
      - destruct (pat_es key); cbn [map snd]; [apply Hn|reflexivity].
      - destruct (pat_es key) as [|e1 [|e2 er]]; cbn [map snd]; try reflexivity; [|apply Hn].
        unfold on_addl. destruct (k_additionalProperties k) as [[|]|e']; try reflexivity. apply Hn.
    Qed.

    (* every member of the value, whatever the placeholders *)
    Lemma In_dict_set {A} (x : str * A) kk v l : In x (dict_set kk v l) -> x = (kk, v) \/ In x l.
    Proof.
      induction l as [|[k' v'] r IH]; simpl; [intuition|].
      destruct (str_eqb_spec kk k') as [->|Hn]; simpl.
      - intros [<-|H]; auto.
      - intros [<-|H]; auto. destruct (IH H); auto.
    Qed.
    Lemma In_dict_merge {A} (x : str * A) b : forall a, In x (dict_merge a b) -> In x a \/ In x b.
    Proof.
      unfold dict_merge. induction b as [|[kk v] r IH]; simpl; intros a H; [auto|].
      destruct (IH _ H) as [H1|H1]; auto.
      destruct (In_dict_set _ _ _ _ H1); auto.
    Qed.

    Lemma members_vm m : jwf (JObj m) ->
      vm (fst (build_members O B k m)) (forallb (fun kx => member_b (fst kx) (snd kx)) m).
    Proof.
      intros Hm. apply jwf_obj in Hm as [Hnd Hvals].
      rewrite build_members_unfold.
      set (hb := fun kv : str * option json =>
                   match snd kv with None => true | Some x => member_b (fst kv) x end).
      pose proof (collect_vm_map (fun kv => member O B k (fst kv) (snd kv)) hb (merged_members k m)) as Hc.
      destruct (collect _) as [s rs]. cbn [fst] in *.
      assert (Hin : forall kv, In kv (merged_members k m) ->
                      snd kv = None \/ exists x, snd kv = Some x /\ In (fst kv, x) m).
      { intros [kk ov] H. unfold merged_members in H. apply In_dict_merge in H as [H|H].
        - left. unfold dict_of_pairs in H. apply In_dict_merge in H as [[]|H].
          unfold placeholders in H. apply in_map_iff in H as (np & E & _). now inversion E.
        - right. apply in_map_iff in H as ([k2 x] & E & H). inversion E; subst. simpl. eauto. }
      eapply vm_ext.
      - apply Hc. intros [kk ov] H. unfold hb. cbn [fst snd].
        destruct (Hin _ H) as [E|(x & E & Hx)]; cbn [snd fst] in E; subst ov.
        + apply member_none.
        + apply member_om. rewrite Forall_forall in Hvals. exact (Hvals _ Hx).
      - apply eq_true_iff_eq. rewrite !forallb_forall. split.
        + intros H [kk x] Hx. cbn [fst snd].
          assert (Hl : lookup kk (merged_members k m) = Some (Some x)).
          { apply supplied_wins; auto. now apply In_lookup. }
          apply lookup_In in Hl. exact (H _ Hl).
        + intros H [kk ov] Hkv. unfold hb. cbn [fst snd].
          destruct (Hin _ Hkv) as [E|(x & E & Hx)]; cbn [snd fst] in E; subst ov; [reflexivity|].
          exact (H _ Hx).
    Qed.

    (* the AdditionalProperties validator is implied by the member clauses *)
    Lemma declared_implied key x : jwf x -> addl_truthy addp = false ->
      member_b key x = true -> declared O k key = true.
    Proof.
      intros Hx Ht Hb. unfold declared.
      destruct (member_shape (fun _ : elem => tt) key) as [_ ->].
      destruct (member_shape is_nothing key) as [-> ->].
      pose proof (decl_rel key) as Hd. pose proof (pat_rel key) as Hp.
      unfold member_b in Hb.
      set (Ss := pat_Ss key) in *. set (es := pat_es key) in *. clearbody Ss es.
      destruct (decl_S key) as [Sx|].
      - destruct Hd as (name & req & e & -> & He). cbn [option_map lift3 fst snd].
        destruct Hp as [|e1 S1 er Sr H1 Hr]; cbn [map]; [|reflexivity].
        destruct e; try reflexivity. exfalso.
        pose proof (He x Hx) as Hf. simpl in Hf. rewrite Hf in Hb. discriminate.
      - rewrite Hd. cbn [option_map].
        destruct Hp as [|e1 S1 er Sr H1 Hr]; [|destruct Hr as [|e2 S2 er Sr H2 Hr]]; cbn [map]; try reflexivity.
        + exfalso. cbn [forallb andb] in Hb. unfold addl_b in Hb.
          pose proof (addl_falsy O w addp _ x Haddp Hx Ht) as Hf. congruence.
        + destruct e1; try reflexivity. exfalso.
          pose proof (H1 x Hx) as Hf. simpl in Hf. cbn [forallb] in Hb. rewrite Hf in Hb. discriminate.
    Qed.
  End WithK.
End Obj.
