(* UnsupportedProof.v — if parse_element returns an element, no documented-unsupported
   keyword occurs at any position it interprets as a schema (C20, safety half). *)
From Coq Require Import String.
From Statham.Model Require Import Str Json Elem Equality Names Tables Parser Unsupported.
From Statham.Proofs Require Import StrFacts JsonInd ParserFacts.
Local Open Scope string_scope.
Local Open Scope list_scope.

Section Generic.
  Variable P : json -> M elem.
  Variable F : json -> bool.
  Definition clean (x : json) : Prop := forall st e st', P x st = POk (e, st') -> F x = false.

  Lemma parse_list_clean l : Forall clean l ->
    forall st es st', parse_list P l st = POk (es, st') -> any_list F l = false.
  Proof.
    induction 1 as [|x r Hx Hr IH]; intros st es st' H; simpl in *; [reflexivity|].
    binv H. binv H. apply Hx in Hb. rewrite Hb. simpl. eauto.
  Qed.

  Lemma parse_assoc_clean kvs : Forall clean (map snd kvs) ->
    forall st es st', parse_assoc P kvs st = POk (es, st') -> any_assoc F kvs = false.
  Proof.
    induction kvs as [|[k v] r IH]; intros Hc st es st' H; simpl in *; [reflexivity|].
    inversion Hc as [|? ? Hv Hr]; subst.
    destruct (is_schema v).
    - binv H. binv H. apply Hv in Hb. rewrite Hb. simpl. eauto.
    - simpl. eauto.
  Qed.

  (* one lemma per sub-parser: success implies the position test is false *)
  Lemma parse_props_clean a req j st x st' : Forall clean (kids j) ->
    parse_props P a req j st = POk (x, st') -> u_assoc F j = false.
  Proof.
    destruct j; simpl; intros Hc H; try reflexivity.
    binv H. eapply parse_assoc_clean; eauto.
  Qed.
  Lemma parse_pats_clean j st x st' : Forall clean (kids j) ->
    parse_pats P j st = POk (x, st') -> u_assoc F j = false.
  Proof.
    destruct j; simpl; intros Hc H; try reflexivity.
    binv H. eapply parse_assoc_clean; eauto.
  Qed.
  Lemma parse_deps_clean j st x st' : Forall clean (kids j) ->
    parse_deps P j st = POk (x, st') -> u_assoc F j = false.
  Proof.
    destruct j; simpl; intros Hc H; try reflexivity.
    binv H. eapply parse_assoc_clean; eauto.
  Qed.
  Lemma parse_items_clean j st x st' : clean j -> Forall clean (kids j) ->
    parse_items P j st = POk (x, st') -> u_items F j = false.
  Proof.
    intros Hj Hc H. destruct j; simpl in *;
      try (binv H; eapply Hj; eauto; fail).
    binv H. eapply parse_list_clean; eauto.
  Qed.
  Lemma parse_some_clean j st x st' : clean j ->
    parse_some P j st = POk (x, st') -> F j = false.
  Proof. intros Hj H. unfold parse_some in H. binv H. eapply Hj; eauto. Qed.
  Lemma parse_addl_clean j st x st' : clean j ->
    parse_addl P j st = POk (x, st') -> u_addl F j = false.
  Proof.
    intros Hj H. destruct j; simpl in *; try reflexivity; binv H; eapply Hj; eauto.
  Qed.
  Lemma parse_comp_list_clean j st x st' : Forall clean (kids j) ->
    parse_comp_list P j st = POk (x, st') -> u_list F j = false.
  Proof.
    destruct j; simpl; intros Hc H; try reflexivity.
    eapply parse_list_clean; eauto.
  Qed.
  Lemma parse_not_clean j st x st' : clean j ->
    parse_not P j st = POk (x, st') -> F j = false.
  Proof. intros Hj H. unfold parse_not in H. binv H. eapply Hj; eauto. Qed.
End Generic.

(* with_key: success of the sub-parser under a key gives falsity of the test under that key *)
Lemma wk_clean {A} (pf : json -> M A) (uf : json -> bool) k kvs d st x st' :
  (forall v, In v (map snd kvs) -> forall st x st', pf v st = POk (x, st') -> uf v = false) ->
  with_key pf k kvs d st = POk (x, st') -> with_key uf k kvs false = false.
Proof.
  intros Hc. rewrite !with_key_lookup. destruct (lookup k kvs) as [v|] eqn:E; [|reflexivity].
  intros H. eapply Hc; eauto. eapply lookup_In_snd; eauto.
Qed.

Lemma parse_keys_ok sub ks : forall st r st', parse_keys sub ks st = POk (r, st') ->
  forall k, In k ks -> exists st1 es st2, sub k st1 = POk (es, st2).
Proof.
  induction ks as [|k0 ks IH]; intros st r st' H k Hin; [destruct Hin|].
  simpl in H. binv H. binv H. destruct Hin as [->|Hin]; eauto.
Qed.

Section Main.
  Variable cfg : pcfg.
  Hypothesis comp_order_complete :
    In (s_ "anyOf") (c_comp_order cfg) /\ In (s_ "oneOf") (c_comp_order cfg) /\ In (s_ "allOf") (c_comp_order cfg).

  Let uu := uses_unsupported (c_unsupported cfg).
  Let PE := parse_element cfg.
  Let C := clean PE uu.

  Lemma Forall_In {A} (Q : A -> Prop) l x : Forall Q l -> In x l -> Q x.
  Proof. intros H; rewrite Forall_forall in H; auto. Qed.

  Lemma step j : Forall C (kids j) -> Forall (fun x => Forall C (kids x)) (kids j) -> C j.
  Proof.
    intros Hk Hg. destruct j as [| | | | | |kvs]; try (intros st e st' _; reflexivity).
    simpl in Hk, Hg.
    assert (HkI : forall v, In v (map snd kvs) -> C v) by (intros v; apply Forall_In; auto).
    assert (HgI : forall v, In v (map snd kvs) -> Forall C (kids v)) by (intros v; apply (Forall_In _ _ _ Hg)).
    intros st e st' H. unfold PE in H. cbn [parse_element] in H.
    unfold uu. cbn [uses_unsupported].
    destruct (existsb (fun kv => mem_str (fst kv) (c_unsupported cfg)) kvs) eqn:Euns;
      [exfalso; eapply fail_inv; eauto|].
    cbn [orb].
    binv H. rename Hb into Hprops.
    binv H. rename Hb into Hitems.
    binv H. rename Hb into Hpats.
    binv H. rename Hb into Hpn.
    binv H. rename Hb into Hcont.
    binv H. rename Hb into Hdeps.
    binv H. rename Hb into Haddp.
    binv H. rename Hb into Haddi.
    pose proof (wk_clean _ (u_assoc uu) _ _ _ _ _ _
      (fun v Hv st0 x0 st0' Hq => parse_props_clean PE uu _ _ v st0 x0 st0' (HgI v Hv) Hq) Hprops) as Xprops.
    pose proof (wk_clean _ (u_items uu) _ _ _ _ _ _
      (fun v Hv st0 x0 st0' Hq => parse_items_clean PE uu v st0 x0 st0' (HkI v Hv) (HgI v Hv) Hq) Hitems) as Xitems.
    pose proof (wk_clean _ (u_assoc uu) _ _ _ _ _ _
      (fun v Hv st0 x0 st0' Hq => parse_pats_clean PE uu v st0 x0 st0' (HgI v Hv) Hq) Hpats) as Xpats.
    pose proof (wk_clean _ uu _ _ _ _ _ _
      (fun v Hv st0 x0 st0' Hq => parse_some_clean PE uu v st0 x0 st0' (HkI v Hv) Hq) Hpn) as Xpn.
    pose proof (wk_clean _ uu _ _ _ _ _ _
      (fun v Hv st0 x0 st0' Hq => parse_some_clean PE uu v st0 x0 st0' (HkI v Hv) Hq) Hcont) as Xcont.
    pose proof (wk_clean _ (u_assoc uu) _ _ _ _ _ _
      (fun v Hv st0 x0 st0' Hq => parse_deps_clean PE uu v st0 x0 st0' (HgI v Hv) Hq) Hdeps) as Xdeps.
    pose proof (wk_clean _ (u_addl uu) _ _ _ _ _ _
      (fun v Hv st0 x0 st0' Hq => parse_addl_clean PE uu v st0 x0 st0' (HkI v Hv) Hq) Haddp) as Xaddp.
    pose proof (wk_clean _ (u_addl uu) _ _ _ _ _ _
      (fun v Hv st0 x0 st0' Hq => parse_addl_clean PE uu v st0 x0 st0' (HkI v Hv) Hq) Haddi) as Xaddi.
    fold uu.
    rewrite Xprops, Xitems, Xpats, Xpn, Xcont, Xdeps, Xaddp, Xaddi. cbn [orb].
    match type of H with (if negb ?c then _ else _) _ = _ => destruct c eqn:Ecomp end; cbn [negb] in H.
    - (* composition branch *)
      binv H. clear Hb.
      binv H. rename Hb into Hkeys.
      binv H. rename Hb into Hnot.
      destruct comp_order_complete as (Hany & Hone & Hall).
      pose proof (parse_keys_ok _ _ _ _ _ Hkeys _ Hany) as (s1 & es1 & s1' & H1).
      pose proof (parse_keys_ok _ _ _ _ _ Hkeys _ Hone) as (s2 & es2 & s2' & H2).
      pose proof (parse_keys_ok _ _ _ _ _ Hkeys _ Hall) as (s3 & es3 & s3' & H3).
      pose proof (wk_clean _ (u_list uu) _ _ _ _ _ _
        (fun v Hv st0 x0 st0' Hq => parse_comp_list_clean PE uu v st0 x0 st0' (HgI v Hv) Hq) H1) as X1.
      pose proof (wk_clean _ (u_list uu) _ _ _ _ _ _
        (fun v Hv st0 x0 st0' Hq => parse_comp_list_clean PE uu v st0 x0 st0' (HgI v Hv) Hq) H2) as X2.
      pose proof (wk_clean _ (u_list uu) _ _ _ _ _ _
        (fun v Hv st0 x0 st0' Hq => parse_comp_list_clean PE uu v st0 x0 st0' (HgI v Hv) Hq) H3) as X3.
      pose proof (wk_clean _ uu _ _ _ _ _ _
        (fun v Hv st0 x0 st0' Hq => parse_not_clean PE uu v st0 x0 st0' (HkI v Hv) Hq) Hnot) as Xnot.
      rewrite X1, X2, X3, Xnot. reflexivity.
    - (* no composition keyword is present *)
      rewrite !with_key_lookup.
      rewrite (existsb_keys_false composition_keywords kvs (s_ "anyOf") Ecomp) by (simpl; tauto).
      rewrite (existsb_keys_false composition_keywords kvs (s_ "oneOf") Ecomp) by (simpl; tauto).
      rewrite (existsb_keys_false composition_keywords kvs (s_ "allOf") Ecomp) by (simpl; tauto).
      rewrite (existsb_keys_false composition_keywords kvs (s_ "not") Ecomp) by (simpl; tauto).
      reflexivity.
  Qed.

  Theorem parse_element_ok_no_unsupported S st e st' :
    parse_element cfg S st = POk (e, st') -> uses_unsupported (c_unsupported cfg) S = false.
  Proof. exact (C_all C step S st e st'). Qed.

  (* root keyword: refused with the not-implemented error, whatever else the schema holds *)
  Theorem root_unsupported_refused kvs st :
    existsb (fun kv => mem_str (fst kv) (c_unsupported cfg)) kvs = true ->
    parse_element cfg (JObj kvs) st = PErr PNotImpl.
  Proof. intros H. cbn [parse_element]. rewrite H. reflexivity. Qed.

End Main.

Theorem parse_ok_no_unsupported cfg
  (Hc : In (s_ "anyOf") (c_comp_order cfg) /\ In (s_ "oneOf") (c_comp_order cfg) /\ In (s_ "allOf") (c_comp_order cfg)) S l :
    parse cfg S = POk l -> doc_uses_unsupported (c_unsupported cfg) S = false.
  Proof.
    unfold parse, doc_uses_unsupported. intros H.
    match type of H with match ?m [] with _ => _ end = _ => destruct (m []) as [[r stf]|err] eqn:E end;
      [|discriminate].
    binv E. binv E.
    rewrite (parse_element_ok_no_unsupported cfg Hc _ _ _ _ Hb). cbn [orb].
    destruct S as [| | | | | |kvs]; try reflexivity.
    destruct (lookup (s_ "definitions") kvs) as [[| | | | | |d]|] eqn:Ed; try reflexivity.
    clear - Hc Hb0. revert st a0 st0 Hb0.
    induction d as [|[k v] d IH]; intros sq a0 st0 H; cbn [filter map snd any_assoc parse_list] in *; [reflexivity|].
    destruct (is_schema v); cbn [filter map snd any_assoc parse_list] in H.
    - binv H. binv H. rewrite (parse_element_ok_no_unsupported cfg Hc _ _ _ _ Hb). cbn [orb]. eauto.
    - cbn [orb]. eauto.
  Qed.
