(* NamesProof.v — C12: shape of the names produced by _parse_attribute_name and _title_format. *)
From Coq Require Import Lia String ZifyBool ZifyN.
Local Open Scope string_scope.
Local Open Scope list_scope.
From Statham.Model Require Import Str Names.
From Statham.Proofs Require Import StrFacts.

(* ---------------------------------------------------------------- attribute names *)
Section Attr.
  Variable U : unicode.
  Variable reserved : list str.
  Variable good : N -> bool.          (* the character class we show the result stays in *)

  (* unicodedata names are over [A-Z0-9 -]: lower-cased, over [a-z0-9 -] (checked on the running
     interpreter for every code point by the translator; recorded in Gen_unicode) *)
  Definition label_char (x : N) : bool := is_lower x || is_digit x || N.eqb x c_sp || N.eqb x c_hy.
  Hypothesis label_ok : forall c, forallb label_char (u_name_lower U c) = true.
  Hypothesis good_label : forall x, is_lower x || is_digit x = true -> good x = true.
  Hypothesis good_us : good c_us = true.

  Definition pre (x : N) : bool := good x || N.eqb x c_sp || N.eqb x c_hy.

  Lemma pre_label x : label_char x = true -> pre x = true.
  Proof.
    unfold label_char, pre. intros H.
    destruct (is_lower x || is_digit x) eqn:E; [now rewrite (good_label x E)|].
    simpl in H. destruct (good x); simpl; auto.
  Qed.

  Lemma forallb_app' {A} (f : A -> bool) a b : forallb f (a ++ b) = forallb f a && forallb f b.
  Proof. induction a; simpl; auto. now rewrite IHa, andb_assoc. Qed.

  Lemma label_pre c : forallb pre (u_name_lower U c) = true.
  Proof.
    specialize (label_ok c). induction (u_name_lower U c) as [|x r IH]; simpl in *; auto.
    apply andb_prop in label_ok as [H1 H2]. now rewrite (pre_label x H1), IH.
  Qed.

  Lemma pre_us : pre c_us = true.
  Proof. unfold pre. now rewrite good_us. Qed.

  Lemma char_map_pre prev c next : (kept_char U c = true -> pre c = true) -> forallb pre (char_map U prev c next) = true.
  Proof.
    intros Hk. unfold char_map. destruct (kept_char U c) eqn:E; [simpl; now rewrite Hk|].
    destruct (is_py_whitespace c); [simpl; now rewrite pre_us|].
    assert (H1 : forallb pre (match prev with
                              | Some p => if N.eqb p c_us then u_name_lower U c else c_us :: u_name_lower U c
                              | None => u_name_lower U c end) = true).
    { destruct prev as [p|]; [destruct (N.eqb p c_us)|]; simpl; rewrite ?pre_us, ?label_pre; reflexivity. }
    cbv zeta. destruct next as [n|]; [destruct (N.eqb n c_us)|]; auto.
    rewrite forallb_app'. apply andb_true_intro. split; [exact H1|simpl; now rewrite pre_us].
  Qed.

  Lemma map_chars_pre name : forall prev, (forall c, In c name -> kept_char U c = true -> pre c = true) ->
    forallb pre (map_chars U prev name) = true.
  Proof.
    induction name as [|c r IH]; intros prev H; simpl; [reflexivity|].
    rewrite forallb_app', char_map_pre, IH; auto.
    - intros x Hx. apply H. now right.
    - apply H. now left.
  Qed.

  Lemma sp_hy_good l : forallb pre l = true -> forallb good (sp_hy_to_us l) = true.
  Proof.
    induction l as [|x r IH]; simpl; [reflexivity|]. intros H. apply andb_prop in H as [H1 H2].
    rewrite IH by assumption. unfold pre in H1.
    destruct (N.eqb x c_sp || N.eqb x c_hy) eqn:E; [now rewrite good_us|].
    apply orb_false_iff in E as [E1 E2]. rewrite E1, E2, !orb_false_r in H1. now rewrite H1.
  Qed.

  Hypothesis good_blank : forallb good (s_ "blank") = true.

  Theorem attr_name_good name : (forall c, In c name -> kept_char U c = true -> pre c = true) ->
    forallb good (attr_name U reserved name) = true.
  Proof.
    intros H. unfold attr_name.
    pose proof (sp_hy_good _ (map_chars_pre name None H)) as Hn1.
    destruct (sp_hy_to_us (map_chars U None name)) as [|c r] eqn:E; [exact good_blank|].
    cbv zeta. destruct (is_ascii_alpha c || N.eqb c c_us).
    - destruct (mem_str (c :: r) reserved); [|exact Hn1].
      rewrite forallb_app', Hn1. simpl. now rewrite good_us.
    - assert (Hn2 : forallb good (c_us :: c :: r) = true) by (simpl; rewrite good_us; exact Hn1).
      destruct (mem_str (c_us :: c :: r) reserved); [|exact Hn2].
      rewrite forallb_app', Hn2. simpl. now rewrite good_us.
  Qed.

  (* the result is never empty and starts with an ASCII letter or an underscore *)
  Definition head_ok (s : str) : bool :=
    match s with [] => false | c :: _ => is_ascii_alpha c || N.eqb c c_us end.
  Theorem attr_name_head name : head_ok (attr_name U reserved name) = true.
  Proof.
    unfold attr_name. destruct (sp_hy_to_us (map_chars U None name)) as [|c r]; [reflexivity|].
    destruct (is_ascii_alpha c || N.eqb c c_us) eqn:E.
    - destruct (mem_str (c :: r) reserved); simpl; exact E.
    - destruct (mem_str (c_us :: c :: r) reserved); reflexivity.
  Qed.

  (* never a reserved attribute name or keyword, provided the reserved table is closed under
     "append an underscore" (a finite fact about the table, computed on the generated one) *)
  Hypothesis reserved_closed : forallb (fun r => negb (mem_str (r ++ [c_us]) reserved)) reserved = true.
  Hypothesis blank_free : mem_str (s_ "blank") reserved = false.
  Theorem attr_name_not_reserved name : mem_str (attr_name U reserved name) reserved = false.
  Proof.
    unfold attr_name. destruct (sp_hy_to_us (map_chars U None name)) as [|c r]; [exact blank_free|].
    cbv zeta.
    assert (K : forall n2, mem_str (if mem_str n2 reserved then n2 ++ [c_us] else n2) reserved = false).
    { intros n2. destruct (mem_str n2 reserved) eqn:E; [|exact E].
      rewrite forallb_forall in reserved_closed. apply mem_str_In in E.
      specialize (reserved_closed _ E). now apply negb_true_iff in reserved_closed. }
    apply K.
  Qed.
End Attr.

(* ---------------------------------------------------------------- class names *)
Definition titled (s : str) : Prop :=
  s = [] \/ (exists c r, s = c :: r /\ is_upper c = true) /\ forallb is_ascii_alnum s = true.

Lemma titled_app a b : titled a -> titled b -> titled (a ++ b).
Proof.
  intros [->|[(c & r & -> & Hc) Ha]] Hb; [exact Hb|].
  right. split; [exists c, (r ++ b); auto|].
  rewrite forallb_app. destruct Hb as [->|[_ Hb]]; [now rewrite Ha|now rewrite Ha, Hb].
Qed.

Lemma titled_flat_map {A} (f : A -> str) l : (forall x, In x l -> titled (f x)) -> titled (flat_map f l).
Proof.
  induction l as [|x l IH]; intros H; simpl; [now left|].
  apply titled_app; [apply H; now left|apply IH; intros y Hy; apply H; now right].
Qed.

Ltac cb := unfold to_upper, to_lower; unfold is_ascii_alnum, is_ascii_alpha, is_upper, is_lower, is_digit in *.
Lemma to_upper_alnum c : is_ascii_alnum c = true -> is_ascii_alnum (to_upper c) = true.
Proof. cb. intros H. destruct ((97 <=? c)%N && (c <=? 122)%N) eqn:E; lia. Qed.
Lemma to_lower_alnum c : is_ascii_alnum c = true -> is_ascii_alnum (to_lower c) = true.
Proof. cb. intros H. destruct ((65 <=? c)%N && (c <=? 90)%N) eqn:E; lia. Qed.
Lemma to_upper_upper c : is_upper c = true -> to_upper c = c.
Proof. cb. intros H. destruct ((97 <=? c)%N && (c <=? 122)%N) eqn:E; lia. Qed.
Lemma upper_alpha c : is_upper c = true -> is_ascii_alpha c = true.
Proof. cb. lia. Qed.

Lemma py_title_alnum l : forall b, forallb is_ascii_alnum l = true -> forallb is_ascii_alnum (py_title l b) = true.
Proof.
  induction l as [|c r IH]; intros b H; simpl in *; [reflexivity|].
  apply andb_prop in H as [H1 H2].
  destruct (is_ascii_alpha c); simpl; rewrite IH by assumption.
  - destruct b; [now rewrite to_lower_alnum|now rewrite to_upper_alnum].
  - now rewrite H1.
Qed.

Lemma py_title_titled c r : is_upper c = true -> forallb is_ascii_alnum (c :: r) = true -> titled (py_title (c :: r) false).
Proof.
  intros Hc Ha. right. split.
  - simpl. rewrite (upper_alpha c Hc). exists (to_upper c), (py_title r true). split; [reflexivity|].
    now rewrite (to_upper_upper c Hc).
  - now apply py_title_alnum.
Qed.

(* a segment: non-empty, starts with an upper-case letter, all ASCII alphanumeric *)
Definition seg_ok (s : str) : Prop :=
  (exists c r, s = c :: r /\ is_upper c = true) /\ forallb is_ascii_alnum s = true.

Lemma segments_ok l : forall cur,
  forallb is_ascii_alnum l = true ->
  (match cur with Some s => seg_ok (rev s) | None => True end) ->
  forall x, In x (segments l cur) -> seg_ok x.
Proof.
  induction l as [|c r IH]; intros cur Hl Hcur x Hx; simpl in *.
  - destruct cur as [s|]; simpl in Hx; [destruct Hx as [<-|[]]; exact Hcur|destruct Hx].
  - apply andb_prop in Hl as [Hc Hr].
    destruct (is_upper c) eqn:Eu.
    + assert (Hnew : seg_ok (rev [c])).
      { simpl. split; [exists c, []; auto|simpl; now rewrite Hc]. }
      destruct cur as [s|]; simpl in Hx.
      * destruct Hx as [<-|Hx]; [exact Hcur|]. eapply (IH (Some [c])); eauto.
      * eapply (IH (Some [c])); eauto.
    + destruct cur as [s|].
      * eapply (IH (Some (c :: s))); eauto. simpl.
        destruct Hcur as [(c0 & r0 & E & Hu) Ha]. split.
        -- exists c0, (r0 ++ [c]). rewrite E. auto.
        -- rewrite forallb_app, Ha. simpl. now rewrite Hc.
      * eapply (IH None); eauto.
Qed.

Lemma split_words_alnum l : forall cur, forallb is_ascii_alnum cur = true ->
  forall w, In w (split_words l cur) -> forallb is_ascii_alnum w = true.
Proof.
  induction l as [|c r IH]; intros cur Hcur w Hw; simpl in *.
  - destruct cur; simpl in Hw; [destruct Hw|]. destruct Hw as [<-|[]].
    rewrite forallb_app. simpl in Hcur. apply andb_prop in Hcur as [H1 H2].
    assert (forallb is_ascii_alnum (rev cur) = true).
    { clear - H2. induction cur; simpl in *; auto. apply andb_prop in H2 as [? ?]. rewrite forallb_app, IHcur; simpl; auto. now rewrite H. }
    rewrite H. simpl. now rewrite H1.
  - destruct (is_ascii_alnum c) eqn:Ec.
    + eapply (IH (c :: cur)); eauto. simpl. now rewrite Ec.
    + destruct cur as [|c0 cur'].
      * eapply (IH []); eauto.
      * simpl in Hw. destruct Hw as [<-|Hw]; [|eapply (IH []); eauto].
        simpl in Hcur. apply andb_prop in Hcur as [H1 H2]. rewrite forallb_app.
        assert (forallb is_ascii_alnum (rev cur') = true).
        { clear - H2. induction cur'; simpl in *; auto. apply andb_prop in H2 as [? ?]. rewrite forallb_app, IHcur'; simpl; auto. now rewrite H. }
        rewrite H. simpl. now rewrite H1.
Qed.

Lemma cap_first_alnum w : forallb is_ascii_alnum w = true -> forallb is_ascii_alnum (cap_first w) = true.
Proof.
  destruct w as [|c r]; simpl; auto. intros H. apply andb_prop in H as [H1 H2]. now rewrite to_upper_alnum, H2.
Qed.

(* the class name: empty, or an upper-case ASCII letter followed by ASCII letters and digits *)
Theorem title_format_titled name : titled (title_format name).
Proof.
  unfold title_format. apply titled_flat_map. intros w Hw.
  apply titled_flat_map. intros sgm Hs.
  pose proof (split_words_alnum name [] eq_refl w Hw) as Hwa.
  pose proof (segments_ok (cap_first w) None (cap_first_alnum w Hwa) I sgm Hs) as [(c & r & -> & Hu) Ha].
  now apply py_title_titled.
Qed.
