(* MetaProof.v — C15: a subclass is the flat class declared with its effective keywords and
   properties; each effective keyword is the child's if passed, else the parent's. *)
From Statham.Model Require Import Str Json Elem Meta Store.
From Statham.Proofs Require Import StrFacts.

Lemma dict_set_notin {A} k (v : A) l : ~ In k (keys l) -> dict_set k v l = l ++ [(k, v)].
Proof.
  induction l as [|[k' v'] r IH]; simpl; intros H; [reflexivity|].
  destruct (str_eqb_spec k k') as [->|Hn]; [tauto|]. rewrite IH; tauto.
Qed.

Lemma dict_merge_nodup {A} (l : list (str * A)) : forall acc,
  NoDup (keys acc ++ keys l) -> dict_merge acc l = acc ++ l.
Proof.
  unfold dict_merge. induction l as [|[k v] r IH]; intros acc H; simpl.
  - now rewrite app_nil_r.
  - simpl in H. rewrite dict_set_notin.
    + rewrite IH.
      * now rewrite <- app_assoc.
      * unfold keys in *. rewrite map_app. simpl. rewrite <- app_assoc. simpl. exact H.
    + apply NoDup_remove_2 in H. intros Hin. apply H. apply in_or_app. now left.
Qed.

Lemma dict_of_nodup {A} (l : list (str * A)) : NoDup (keys l) -> dict_merge [] l = l.
Proof. intros H. now rewrite dict_merge_nodup. Qed.

(* flattening: declaring, without a parent, a class with exactly the subclass's effective
   keywords and properties gives the subclass *)
Theorem meta_flatten parent passed ap own :
  let C := meta_new parent passed ap own in
  NoDup (keys (match k_properties C with Some l => l | None => [] end)) ->
  meta_new None C true (match k_properties C with Some l => l | None => [] end) = C.
Proof.
  intros C.
  assert (F1 : k_items C = None) by reflexivity.
  assert (F2 : k_additionalItems C = AddBool true) by reflexivity.
  assert (F3 : k_minItems C = None /\ k_maxItems C = None /\ k_uniqueItems C = false /\ k_contains C = None) by (repeat split).
  assert (F4 : k_minimum C = None /\ k_maximum C = None /\ k_exclusiveMinimum C = None /\ k_exclusiveMaximum C = None /\
               k_multipleOf C = None /\ k_format C = None /\ k_pattern C = None /\ k_minLength C = None /\ k_maxLength C = None)
    by (repeat split).
  assert (F5 : exists l, k_properties C = Some l) by (eexists; reflexivity).
  clearbody C. destruct F5 as (l & F5). destruct C. simpl in *.
  destruct F3 as (? & ? & ? & ?). destruct F4 as (? & ? & ? & ? & ? & ? & ? & ? & ?). subst.
  intros H. unfold meta_new. simpl. rewrite (dict_of_nodup _ H).
  repeat match goal with |- context [match ?x with Some _ => _ | None => _ end] => destruct x end; reflexivity.
Qed.

(* what each effective keyword is *)
Theorem meta_keyword_source parent passed ap own :
  let C := meta_new parent passed ap own in
  let from {A} (f : kwds elem -> option A) :=
      match f passed with Some x => Some x | None => match parent with Some p => f p | None => None end end in
  k_default C = from k_default /\ k_const C = from k_const /\ k_enum C = from k_enum /\
  k_required C = from k_required /\ k_minProperties C = from k_minProperties /\
  k_maxProperties C = from k_maxProperties /\ k_patternProperties C = from k_patternProperties /\
  k_propertyNames C = from k_propertyNames /\ k_dependencies C = from k_dependencies /\
  k_description C = from k_description /\
  k_additionalProperties C = (if ap then k_additionalProperties passed
                              else match parent with Some p => k_additionalProperties p | None => AddBool true end).
Proof. simpl. repeat split. Qed.

(* properties: every property of the body is there; a parent property survives iff the body
   does not redeclare its name *)
Lemma lookup_dict_set {A} k k' (v : A) r :
  lookup k (dict_set k' v r) = if str_eqb k k' then Some v else lookup k r.
Proof.
  induction r as [|[k2 v2] r IH]; simpl.
  - destruct (str_eqb k k'); reflexivity.
  - destruct (str_eqb_spec k' k2) as [->|Hn]; simpl.
    + destruct (str_eqb k k2); reflexivity.
    + destruct (str_eqb_spec k k2) as [->|Hn2].
      * destruct (str_eqb_spec k2 k') as [E|_]; [congruence|reflexivity].
      * exact IH.
Qed.
Lemma lookup_dict_merge {A} k (b : list (str * A)) : forall a,
  lookup k (dict_merge a b) = match lookup k (rev b) with Some v => Some v | None => lookup k a end.
Proof.
  unfold dict_merge. induction b as [|[k' v'] r IH]; intros a; simpl; [reflexivity|].
  rewrite IH, lookup_dict_set. clear IH.
  induction (rev r) as [|[k2 v2] t IHt]; simpl.
  - destruct (str_eqb k k'); reflexivity.
  - destruct (str_eqb k k2); [reflexivity|exact IHt].
Qed.

Theorem meta_properties parent passed ap own name :
  let C := meta_new parent passed ap own in
  let pp := match parent with Some p => match k_properties p with Some l => l | None => [] end | None => [] end in
  lookup name (match k_properties C with Some l => l | None => [] end) =
  match lookup name (rev own) with Some p => Some p | None => lookup name pp end.
Proof. simpl. apply lookup_dict_merge. Qed.

(* isolation frame: binding (any write to) one property cell leaves every other cell alone —
   the child's cloned cells are distinct from the parent's *)
Lemma nth_set_nth_other s : forall i j c, i <> j -> nth_error (set_nth s i c) j = nth_error s j.
Proof.
  induction s as [|x r IH]; intros [|i] [|j] c H; simpl; try reflexivity; try congruence.
  apply IH. congruence.
Qed.
Theorem step_frame s i n p j : i <> j -> nth_error (step s (OBind i n p)) j = nth_error s j.
Proof.
  intros H. simpl. destruct (nth_error s i); [|reflexivity]. now apply nth_set_nth_other.
Qed.
