(* C01Items.v — simulation relations between parsed sub-elements and the sub-schemas they
   came from, and the array clauses: items / additionalItems / contains. *)
From Coq Require String. Import String.StringSyntax.
From Coq Require Import Lia.
From Statham.Model Require Import Str Json Elem PyNum Validate Tables Parser Spec6.
From Statham.Proofs Require Import StrFacts JsonEqProof C01Vm.
Local Open Scope string_scope.
Arguments s_ : simpl never.

Section Sim.
  Variable O : oracles.
  Variable w : wmode.
  Notation F := (v6 O w).
  Notation B := (build O).

  (* element e decides membership in sub-schema S (up to crashes) *)
  Definition sim (e : elem) (S : json) : Prop :=
    forall v, jwf v -> om (B e (Some v)) (F S v).

  Lemma sim_nothing_false S x : sim ENothing S -> jwf x -> F S x = false.
  Proof. intros H Hx. exact (H x Hx). Qed.


  Definition sim_addl (a : addl elem) (oS : option json) : Prop :=
    match oS with
    | None => a = AddBool true
    | Some (JBool b) => a = AddBool b \/ (b = false /\ a = AddElem ENothing)
    | Some Sa => exists e, a = AddElem e /\ sim e Sa
    end.

  Definition sim_opt (oe : option elem) (oS : option json) : Prop :=
    match oS with
    | None => oe = None
    | Some S0 => exists e, oe = Some e /\ sim e S0
    end.

  Definition sim_items (it : option (items_t elem)) (oS : option json) : Prop :=
    match oS with
    | None => it = None
    | Some (JArr l) => exists es, it = Some (ItMany es) /\ Forall2 sim es l
    | Some Si => exists e, it = Some (ItOne e) /\ sim e Si
    end.

  Definition sim_assoc (es : list (str * elem)) (kvs : list (str * json)) : Prop :=
    Forall2 (fun ke kv => fst ke = fst kv /\ sim (snd ke) (snd kv)) es kvs.

  (* what on_addl answers for one extra item / member *)
  Lemma addl_om a oS x : sim_addl a oS -> jwf x ->
    om (on_addl (fun e' => B e' (Some x)) a (Ok (build_any x)) Rej)
       (match oS with Some Sa => F Sa x | None => true end).
  Proof.
    intros H Hx. unfold sim_addl in H. destruct oS as [Sa|]; [|subst a; reflexivity].
    destruct Sa; try (destruct H as (e & -> & He); exact (He x Hx)).
    destruct H as [->|[-> ->]]; [destruct b; reflexivity|reflexivity].
  Qed.

  Lemma addl_falsy a oS x : sim_addl a oS -> jwf x -> addl_truthy a = false ->
    (match oS with Some Sa => F Sa x | None => true end) = false.
  Proof.
    intros H Hx Ht. unfold sim_addl in H. destruct oS as [Sa|]; [|subst a; discriminate].
    destruct Sa; try (destruct H as (e & -> & He); simpl in Ht; apply negb_false_iff in Ht;
                      destruct e; try discriminate; exact (He x Hx)).
    destruct H as [->|[-> ->]]; [simpl in Ht; subst b; reflexivity|reflexivity].
  Qed.

  (* ---- items ---- *)
  Section Items.
    Variable kvs : list (str * json).
    Variables (items : option (items_t elem)) (addi : addl elem).
    Hypothesis Hitems : sim_items items (lookup (s_ "items") kvs).
    Hypothesis Haddi : sim_addl addi (lookup (s_ "additionalItems") kvs).

    Definition spec_rest (ys : list json) : bool :=
      match lookup (s_ "additionalItems") kvs with Some Sa => forallb (F Sa) ys | None => true end.

    Fixpoint spec_tuple (ss : list json) (ys : list json) {struct ss} : bool :=
      match ss with
      | s1 :: sr => match ys with [] => true | y :: yr => F s1 y && spec_tuple sr yr end
      | [] => spec_rest ys
      end.

    Definition items_part (xs : list json) : bool :=
      match lookup (s_ "items") kvs with
      | Some (JArr schemas) => spec_tuple schemas xs
      | Some Si => forallb (F Si) xs
      | None => true
      end.

    Lemma wkey_lookup {A} (f : json -> A) k (l : list (str * json)) d :
      wkey f k l d = match lookup k l with Some v => f v | None => d end.
    Proof. induction l as [|[k' v] r IH]; simpl; [reflexivity|]. destruct (str_eqb k k'); auto. Qed.

    Lemma cl_items_unfold (v : json) :
      cl_items F kvs v =
      match v with
      | JArr xs => items_part xs &&
                   match lookup (s_ "contains") kvs with Some Sc => existsb (F Sc) xs | None => true end
      | _ => true
      end.
    Proof.
      clear Hitems Haddi. unfold cl_items, items_part. destruct v; try reflexivity.
      rewrite !wkey_lookup. apply f_equal2; [|reflexivity].
      destruct (lookup (s_ "items") kvs) as [Si|]; [|reflexivity].
      destruct Si; try reflexivity.
      generalize l. induction l0 as [|s1 sr IH]; intros ys; simpl.
      - unfold spec_rest. apply wkey_lookup.
      - destruct ys; [reflexivity|]. f_equal. apply IH.
    Qed.

    Lemma tuple_vm es ss : Forall2 sim es ss -> forall xs, Forall jwf xs ->
      vm (fst (collect (tuple_outs B
                 (fun x => on_addl (fun e' => B e' (Some x)) addi (Ok (build_any x)) Rej) es xs)))
         (spec_tuple ss xs).
    Proof.
      induction 1 as [|e s es ss He Hes IH]; intros xs Hxs.
      - cbn [tuple_outs spec_tuple]. unfold spec_rest.
        eapply vm_ext; [apply (collect_vm_map _ (fun x => match lookup (s_ "additionalItems") kvs with Some Sa => F Sa x | None => true end))|].
        + intros x Hx. cbn [snd]. apply addl_om; auto. rewrite Forall_forall in Hxs; auto.
        + destruct (lookup (s_ "additionalItems") kvs); [reflexivity|].
          clear. induction xs; simpl; auto.
      - destruct xs as [|x xr]; [reflexivity|]. cbn [tuple_outs spec_tuple collect].
        inversion Hxs as [|? ? Hx Hxr]; subst.
        specialize (IH xr Hxr). pose proof (He x Hx) as Hox.
        destruct (collect (tuple_outs B _ es xr)) as [s0 rs]; cbn [fst] in *.
        destruct (B e (Some x)); simpl in *; rewrite ?Hox; simpl; auto.
        destruct s0; simpl; auto.
    Qed.

    Lemma items_vm k xs : k_items k = items -> k_additionalItems k = addi -> Forall jwf xs ->
      vm (fst (build_items B k xs)) (items_part xs).
    Proof.
      intros Ei Ea Hxs. unfold build_items, items_part. rewrite Ei, Ea.
      red in Hitems. destruct (lookup (s_ "items") kvs) as [Si|].
      - assert (Hone : forall e, sim e Si ->
                  vm (fst (let '(s, rs) := collect (map (fun x => (tt, B e (Some x))) xs) in (s, map snd rs)))
                     (forallb (F Si) xs)).
        { intros e He.
          pose proof (collect_vm_map (fun x => (tt, B e (Some x))) (F Si) xs) as Hc.
          destruct (collect (map (fun x => (tt, B e (Some x))) xs)) as [s rs]. apply Hc.
          intros x Hx. apply He. rewrite Forall_forall in Hxs; auto. }
        destruct Si; try (destruct Hitems as (e & -> & He); apply Hone; exact He).
        destruct Hitems as (es & -> & Hes).
        pose proof (tuple_vm es l Hes xs Hxs) as Ht.
        destruct (collect _) as [s rs]. exact Ht.
      - subst items.
        pose proof (collect_vm_map (fun x => (tt, Ok (build_any x))) (fun _ => true) xs) as Hc.
        destruct (collect _) as [s rs]. eapply vm_ext; [apply Hc; intros; reflexivity|].
        clear. induction xs; simpl; auto.
    Qed.

    (* the additionalItems validator is implied by the items clause *)

    Lemma addi_implied xs : Forall jwf xs -> items_part xs = true ->
      (match items with
       | Some (ItMany its) => (Nat.leb (length xs) (length its)) || addl_truthy addi
       | _ => true end) = true.
    Proof.
      intros Hxs Hp. destruct items as [[e|its]|] eqn:Eit; try reflexivity.
      destruct (addl_truthy addi) eqn:Et; [apply orb_true_r|]. rewrite orb_false_r.
      unfold items_part in Hp. red in Hitems.
      destruct (lookup (s_ "items") kvs) as [Si|]; [|discriminate].
      assert (exists ss, Si = JArr ss /\ Forall2 sim its ss) as (ss & -> & Hes).
      { destruct Si; try (destruct Hitems as (e & E & _); discriminate).
        destruct Hitems as (es & E & H). injection E as <-. eauto. }
      apply PeanoNat.Nat.leb_le. clear Hitems Eit.
      revert xs Hxs Hp. induction Hes as [|e s es ss He Hes IH]; intros xs Hxs Hp.
      - destruct xs as [|x xr]; [simpl; lia|]. exfalso.
        cbn [spec_tuple] in Hp. unfold spec_rest in Hp.
        inversion Hxs as [|? ? Hx Hxr]; subst.
        pose proof (addl_falsy addi _ x Haddi Hx Et) as Hf.
        destruct (lookup (s_ "additionalItems") kvs); [|discriminate].
        simpl in Hp. rewrite Hf in Hp. discriminate.
      - destruct xs as [|x xr]; [simpl; lia|]. cbn [spec_tuple] in Hp.
        apply andb_true_iff in Hp as [_ Hp]. inversion Hxs; subst.
        assert (length xr <= length es) by (apply IH; auto). simpl. lia.
    Qed.
  End Items.
End Sim.
