(* C06Image.v — the parser's image lies in the normal form: for every schema of the class-free
   fragment that is `named` (no empty property name) and `tidy` (no empty required list, no empty
   properties object, additionalItems / additionalProperties a boolean or a schema without
   composition keywords), the element the parser returns satisfies C06RoundBase.nf.  With
   C06Round.ser_parse_id: on that fragment a second round trip reproduces the first exactly. *)
From Coq Require String. Import String.StringSyntax.
From Coq Require Import List Bool Lia.
From Statham.Model Require Import Str Json Elem Equality Names PyNum Validate Tables Parser Plain SerJson Sub SerFrag NfFrag.
From Statham.Proofs Require Import StrFacts MetaProof ParserFacts ElemInd C01Scalar C01Plain C01Element C01Parse
     C03Meaning C06Meaning C06RoundBase C06Round.
Import ListNotations.
Local Open Scope string_scope.
Local Open Scope list_scope.
Arguments s_ : simpl never.

Definition addl_okS (o : option json) : Prop :=
  match o with Some (JObj kvs') => has_comp kvs' = false | _ => True end.

Definition tidy_node (kvs : list (str * json)) : Prop :=
  (match lookup (s_ "required") kvs with Some j => jstr_list j <> [] | None => True end) /\
  (match lookup (s_ "properties") kvs with Some (JObj []) => False | _ => True end) /\
  addl_okS (lookup (s_ "additionalProperties") kvs) /\ addl_okS (lookup (s_ "additionalItems") kvs).

Inductive tidy : json -> Prop :=
| tidy_bool b : tidy (JBool b)
| tidy_obj kvs : tidy_node kvs -> Forall tidy (subschemas kvs) -> tidy (JObj kvs).

(* ---- literals after _parse_literal are clean ---- *)
Lemma strip_clean : forall j, clean (strip_autotitle j) = true.
Proof.
  fix IH 1. intros [| | | | |l|kvs]; simpl; try reflexivity.
  - induction l as [|x r IHl]; simpl; [reflexivity|]. now rewrite IH, IHl.
  - induction kvs as [|[k v] r IHl]; simpl; [reflexivity|].
    destruct (str_eqb k (s_ "_x_autotitle")) eqn:E; [exact IHl|]. simpl. rewrite E. simpl. now rewrite IH, IHl.
Qed.

Lemma has_default_sig c : mem_str (s_ "default") (signature_of c) = true.
Proof. destruct c; vm_compute; reflexivity. Qed.

Lemma filter_set_default c k d : filter_kw c (set_default k d) = set_default (filter_kw c k) d.
Proof.
  unfold filter_kw, set_default.
  cbn [k_default k_const k_enum k_items k_additionalItems k_minItems k_maxItems k_uniqueItems
       k_contains k_minimum k_maximum k_exclusiveMinimum k_exclusiveMaximum k_multipleOf k_format
       k_pattern k_minLength k_maxLength k_required k_properties k_patternProperties
       k_additionalProperties k_minProperties k_maxProperties k_propertyNames k_dependencies
       k_description].
  rewrite (has_default_sig c). reflexivity.
Qed.

Lemma ksub_set_default k d : ksub (set_default k d) = ksub k.
Proof. reflexivity. Qed.

(* disjoint selections of a dictionary with unique keys *)
Lemma keys_filter_incl {A} (f : str * A -> bool) l : incl (keys (filter f l)) (keys l).
Proof.
  induction l as [|x r IH]; simpl; intros y Hy; [exact Hy|].
  destruct (f x); simpl in *; [destruct Hy as [<-|Hy]; auto|auto].
Qed.

Lemma nodup_split {A} (p q : A -> bool) (l : list (str * A)) :
  (forall x, p x = true -> q x = false) -> NoDup (keys l) ->
  NoDup (keys (filter (fun kv => p (snd kv)) l) ++ keys (filter (fun kv => q (snd kv)) l)).
Proof.
  intros Hpq. induction l as [|[k v] r IH]; simpl; intros H; [constructor|].
  inversion H as [|? ? Hn Hr]; subst. specialize (IH Hr).
  assert (Hk : ~ In k (keys (filter (fun kv => p (snd kv)) r) ++ keys (filter (fun kv => q (snd kv)) r))).
  { intros Hin. apply in_app_iff in Hin as [Hin|Hin]; apply keys_filter_incl in Hin; contradiction. }
  destruct (p v) eqn:Ep.
  - rewrite (Hpq v Ep). simpl. constructor; assumption.
  - destruct (q v); simpl; [|exact IH].
    eapply Permutation.Permutation_NoDup; [apply Permutation.Permutation_middle|]. constructor; assumption.
Qed.

Lemma sorted_elems (b : list (str * dep_t elem)) :
  Forall (fun x => match snd x with DepElem _ => True | _ => False end) b -> deps_sortedb true b = true.
Proof. induction 1 as [|[n [ns|e]] r Hx _ IH]; simpl in *; auto; contradiction. Qed.

Lemma sorted_app (a b : list (str * dep_t elem)) :
  Forall (fun x => match snd x with DepNames _ => True | _ => False end) a ->
  Forall (fun x => match snd x with DepElem _ => True | _ => False end) b ->
  deps_sortedb false (a ++ b) = true.
Proof.
  intros Ha Hb. induction Ha as [|[n [ns|e]] r Hx _ IH]; simpl in *; try contradiction; [|exact IH].
  destruct b as [|[n [ns|e]] r]; [reflexivity| |].
  - inversion Hb as [|? ? Hx _]; subst. contradiction.
  - simpl. inversion Hb; subst. now apply sorted_elems.
Qed.

Section Img.
  Variable cfg : pcfg.
  Notation P := (parse_element cfg).
  Notation nf := (nf cfg).
  Definition IHn (S0 : json) : Prop := forall st e st', P S0 st = POk (e, st') -> nf e.

  Lemma nf_element : nf EElement.
  Proof.
    constructor; [|constructor]. unfold EElement.
    cbn [local_nf k0 k_default k_const k_enum k_items k_required k_properties k_patternProperties
         k_dependencies k_additionalItems k_additionalProperties props_nf okeys lclean addl_plain].
    repeat split; try exact I; try (intros; congruence); try reflexivity.
  Qed.

  Lemma nf_nothing : nf ENothing.
  Proof. constructor; [exact I|constructor]. Qed.

  Lemma nf_with_default e d : lclean d -> nf e -> nf (with_elem_default e d).
  Proof.
    intros Hd H. inversion H as [? Hl Hc]; subst. destruct e as [c k| |x d0|m es d0|n b k]; cbn [with_elem_default] in *.
    - constructor; [|exact Hc]. cbn [local_nf] in *.
      destruct Hl as (H1 & H2 & H3 & H4 & H5 & H6 & H7 & H8 & H9 & H10 & H11 & H12).
      rewrite filter_set_default, H4. repeat split; assumption.
    - exact H.
    - constructor; [exact Hd|exact Hc].
    - constructor; [|exact Hc]. cbn [local_nf] in *. destruct Hl as (_ & H2 & H3). repeat split; assumption.
    - contradiction.
  Qed.

  Lemma nf_compose m es : Forall nf es ->
    (m = MAll -> Forall (fun e' => elem_eq EElement e' = false) es) -> nf (compose m es).
  Proof.
    intros H Hm. unfold compose. destruct es as [|e [|e2 r]]; [apply nf_element|now inversion H|].
    constructor; [|exact H]. cbn [local_nf lclean length]. repeat split; auto. lia.
  Qed.

  Lemma list_nf l : Forall IHn l -> forall st es st', parse_list P l st = POk (es, st') -> Forall nf es.
  Proof.
    induction 1 as [|x r Hx Hr IH]; intros st es st' H; cbn [parse_list] in H.
    - apply ret_inv in H as [<- _]. constructor.
    - apply bind_inv in H as (e & s1 & He & H). apply bind_inv in H as (es' & s2 & Hes & H).
      apply ret_inv in H as [<- _]. constructor; eauto.
  Qed.

  Lemma list_len l : forall st es st', parse_list P l st = POk (es, st') -> length es = length l.
  Proof.
    induction l as [|x r IH]; intros st es st' H; cbn [parse_list] in H.
    - apply ret_inv in H as [<- _]. reflexivity.
    - apply bind_inv in H as (e & s1 & He & H). apply bind_inv in H as (es' & s2 & Hes & H).
      apply ret_inv in H as [<- _]. simpl. f_equal. eauto.
  Qed.

  Lemma assoc_nf kvs : Forall (fun kv => is_schema (snd kv) = true -> IHn (snd kv)) kvs ->
    forall st es st', parse_assoc P kvs st = POk (es, st') ->
    Forall nf (map snd es) /\ keys es = keys (filter (fun kv => is_schema (snd kv)) kvs).
  Proof.
    induction 1 as [|[k v] r Hx Hr IH]; intros st es st' H; cbn [parse_assoc] in H.
    - apply ret_inv in H as [<- _]. split; [constructor|reflexivity].
    - cbn [filter snd] in *. destruct (is_schema v) eqn:Es.
      + apply bind_inv in H as (e & s1 & He & H). apply bind_inv in H as (es' & s2 & Hes & H).
        apply ret_inv in H as [<- _]. destruct (IH _ _ _ Hes) as [H1 H2].
        split; [constructor; [eapply Hx; eauto|exact H1]|]. cbn [keys map fst]. f_equal. exact H2.
      + eauto.
  Qed.

  Lemma items_nf kvs st it st' :
    Forall IHn (match lookup (s_ "items") kvs with Some (JArr l) => l | Some s => [s] | None => [] end) ->
    with_key (parse_items P) (s_ "items") kvs (ret None) st = POk (it, st') -> Forall nf (sub_items it).
  Proof.
    intros HI H. rewrite with_key_lookup in H.
    destruct (lookup (s_ "items") kvs) as [Si|]; [|apply ret_inv in H as [<- _]; constructor].
    unfold parse_items in H.
    destruct Si as [| | | | |l|];
      try (apply bind_inv in H as (e & s1 & He & H); apply ret_inv in H as [<- _]; inversion HI as [|? ? Hx _]; subst;
           cbn [sub_items]; constructor; [eapply Hx; eauto|constructor]).
    apply bind_inv in H as (es & s1 & Hes & H). apply ret_inv in H as [<- _]. cbn [sub_items]. eapply list_nf; eauto.
  Qed.

  Lemma some_nf key kvs st oe st' : Forall IHn (opt_list (lookup key kvs)) ->
    with_key (parse_some P) key kvs (ret None) st = POk (oe, st') -> Forall nf (sub_opt oe).
  Proof.
    intros HI H. rewrite with_key_lookup in H.
    destruct (lookup key kvs) as [Sa|]; [|apply ret_inv in H as [<- _]; constructor].
    unfold parse_some in H. cbn [opt_list] in HI. inversion HI as [|? ? Hx _]; subst.
    apply bind_inv in H as (e & s1 & He & H). apply ret_inv in H as [<- _]. cbn [sub_opt].
    constructor; [eapply Hx; eauto|constructor].
  Qed.

  Lemma pats_nf kvs st pats st' :
    dict_ok true (lookup (s_ "patternProperties") kvs) ->
    Forall IHn (obj_vals (lookup (s_ "patternProperties") kvs)) ->
    with_key (parse_pats P) (s_ "patternProperties") kvs (ret None) st = POk (pats, st') ->
    Forall nf (sub_pats pats) /\ okeys pats.
  Proof.
    intros Hok HI H. rewrite with_key_lookup in H.
    destruct (lookup (s_ "patternProperties") kvs) as [Sp|]; [|apply ret_inv in H as [<- _]; split; [constructor|exact I]].
    unfold parse_pats in H. destruct Sp as [| | | | | |pp]; try (exfalso; eapply fail_inv; exact H).
    apply bind_inv in H as (es & s1 & Hes & H). apply ret_inv in H as [<- _].
    cbn [dict_ok obj_vals] in *. destruct Hok as [Hnd Hall].
    destruct (assoc_nf pp (Forall_obj_vals _ _ HI) _ _ _ Hes) as [H1 H2].
    rewrite (filter_all _ _ (Hall eq_refl)) in H2.
    assert (E : dict_of_pairs es = es) by (unfold dict_of_pairs; apply dict_of_nodup; now rewrite H2).
    rewrite E. cbn [sub_pats okeys]. split; [exact H1|now rewrite H2].
  Qed.

  Definition is_arr (j : json) : bool := match j with JArr _ => true | _ => false end.

  Lemma deps_nf kvs st deps st' :
    dict_ok false (lookup (s_ "dependencies") kvs) ->
    Forall IHn (filter is_schema (obj_vals (lookup (s_ "dependencies") kvs))) ->
    with_key (parse_deps P) (s_ "dependencies") kvs (ret None) st = POk (deps, st') ->
    Forall nf (sub_deps deps) /\ okeys deps /\
    (match deps with Some l => deps_sortedb false l = true | None => True end).
  Proof.
    intros Hok HI H. rewrite with_key_lookup in H.
    destruct (lookup (s_ "dependencies") kvs) as [Sp|]; [|apply ret_inv in H as [<- _]; repeat split; constructor].
    unfold parse_deps in H. destruct Sp as [| | | | | |dd]; try (exfalso; eapply fail_inv; exact H).
    apply bind_inv in H as (es & s1 & Hes & H). apply ret_inv in H as [<- _]. cbn [obj_vals dict_ok] in *.
    destruct Hok as [Hnd _].
    destruct (assoc_nf dd (Forall_filter_vals _ _ HI) _ _ _ Hes) as [H1 H2].
    set (names := flat_map (fun kv : str * json => match snd kv with
                                                   | JArr _ => [(fst kv, @DepNames elem (jstr_list (snd kv)))]
                                                   | _ => [] end) dd).
    set (els := map (fun ke : str * elem => (fst ke, DepElem (snd ke))) es).
    assert (Kn : keys names = keys (filter (fun kv => is_arr (snd kv)) dd)).
    { unfold names. clear. induction dd as [|[k v] r IH]; simpl; [reflexivity|].
      destruct v; simpl; try exact IH. now rewrite IH. }
    assert (Ke : keys els = keys (filter (fun kv => is_schema (snd kv)) dd)).
    { unfold els, keys. rewrite map_map. cbn [fst]. exact H2. }
    assert (Hnd2 : NoDup (keys names ++ keys els)).
    { rewrite Kn, Ke. apply nodup_split; [|exact Hnd]. intros x Hx. destruct x; simpl in *; congruence. }
    assert (E : dict_merge (dict_of_pairs names) els = names ++ els).
    { unfold dict_of_pairs. rewrite dict_of_nodup by (eapply NoDup_app_l; exact Hnd2). now apply dict_merge_nodup. }
    rewrite E. cbn [okeys sub_deps]. split; [|split].
    - apply Forall_forall. intros x Hx. apply in_flat_map in Hx as ([key d] & Hin & Hd). cbn [snd] in Hd.
      apply in_app_iff in Hin as [Hin|Hin].
      + unfold names in Hin. apply in_flat_map in Hin as ([k' j] & _ & Hj). cbn [fst snd] in Hj. destruct j; try contradiction.
        destruct Hj as [E2|[]]. inversion E2; subst. contradiction.
      + unfold els in Hin. apply in_map_iff in Hin as ([k' e] & E2 & Hin). inversion E2; subst. cbn [dep_elems] in Hd.
        destruct Hd as [E3|[]]. subst x. rewrite Forall_forall in H1. apply H1. apply in_map_iff. exists (key, e). auto.
    - rewrite keys_app. exact Hnd2.
    - apply sorted_app.
      + apply Forall_forall. intros x Hx. unfold names in Hx. apply in_flat_map in Hx as ([k' j] & _ & Hj).
        cbn [fst snd] in Hj. destruct j; try contradiction. destruct Hj as [<-|[]]. exact I.
      + apply Forall_forall. intros x Hx. unfold els in Hx. apply in_map_iff in Hx as (ke & <- & _). exact I.
  Qed.

  Lemma props_nf' kvs st props st' :
    dict_ok true (lookup (s_ "properties") kvs) ->
    (match lookup (s_ "properties") kvs with Some (JObj p) => NoDup (map (attr cfg) (keys p)) | _ => True end) ->
    (match lookup (s_ "properties") kvs with Some (JObj p) => Forall (fun kv : str * json => fst kv <> []) p | _ => True end) ->
    (match lookup (s_ "properties") kvs with Some (JObj []) => False | _ => True end) ->
    Forall IHn (obj_vals (lookup (s_ "properties") kvs)) ->
    with_key (parse_props P (attr cfg) (req_names kvs)) (s_ "properties") kvs (ret None) st = POk (props, st') ->
    Forall nf (sub_props props) /\ props_nf cfg (req_names kvs) props.
  Proof.
    intros Hok Hattr Hnm Hne HI H. rewrite with_key_lookup in H.
    destruct (lookup (s_ "properties") kvs) as [Sp|]; [|apply ret_inv in H as [<- _]; split; [constructor|exact I]].
    unfold parse_props in H. destruct Sp as [| | | | | |pkvs]; try (exfalso; eapply fail_inv; exact H).
    apply bind_inv in H as (es & s1 & Hes & H). apply ret_inv in H as [<- _].
    cbn [dict_ok obj_vals] in *. destruct Hok as [Hnd Hall].
    destruct (assoc_nf pkvs (Forall_obj_vals _ _ HI) _ _ _ Hes) as [H1 H2].
    rewrite (filter_all _ _ (Hall eq_refl)) in H2.
    set (ps := map (fun ke : str * elem => (attr cfg (fst ke), mkProp (snd ke) (mem_str (fst ke) (req_names kvs)) (fst ke))) es).
    assert (Ekeys : keys ps = map (attr cfg) (keys pkvs)).
    { rewrite <- H2. unfold ps, keys. rewrite !map_map. reflexivity. }
    assert (Edict : dict_of_pairs ps = ps) by (unfold dict_of_pairs; apply dict_of_nodup; now rewrite Ekeys).
    rewrite Edict. cbn [sub_props props_nf]. split.
    - unfold ps. rewrite map_map. cbn [snd p_elem]. exact H1.
    - split; [|split].
      + intros E. assert (El : keys ps = []) by now rewrite E. rewrite Ekeys in El.
        destruct pkvs; [contradiction|discriminate].
      + now rewrite Ekeys.
      + apply Forall_forall. intros [n p] Hin. cbn [snd fst].
        unfold ps in Hin. apply in_map_iff in Hin as ([key e] & E & Hin). inversion E; subst.
        cbn [p_source p_required p_elem fst snd]. split; [|split; reflexivity].
        assert (Hk : In key (keys pkvs)) by (rewrite <- H2; apply in_map_iff; exists (key, e); auto).
        unfold keys in Hk. apply in_map_iff in Hk as ([k2 S2] & Ek & Hk). cbn [fst] in Ek. subst k2.
        rewrite Forall_forall in Hnm. exact (Hnm _ Hk).
  Qed.

  (* ---- a schema without composition keywords never parses to Nothing() ---- *)
  Definition solid (e : elem) : Prop := match e with ENothing => False | _ => True end.

  Lemma typed_single_solid t S0 K st e st' : str_eqb t (s_ "object") = false ->
    typed_single cfg t S0 K st = POk (e, st') -> solid e.
  Proof.
    intros Ho H. unfold typed_single in H. rewrite Ho in H.
    destruct (has_key (s_ "self") S0); [exfalso; eapply fail_inv; exact H|].
    destruct (str_eqb t (s_ "array")).
    - apply ret_inv in H as [<- _]. exact I.
    - destruct (lookup t type_mapping) as [c|]; [|exfalso; eapply fail_inv; exact H].
      apply ret_inv in H as [<- _]. exact I.
  Qed.

  Lemma finish_plain_solid kvs S0 K st e st' : type_not_object kvs ->
    lookup (s_ "type") S0 = lookup (s_ "type") kvs ->
    finish_plain cfg S0 K st = POk (e, st') -> solid e.
  Proof.
    intros Hno Et H. unfold finish_plain in H. rewrite Et in H. red in Hno.
    destruct (lookup (s_ "type") kvs) as [Sty|].
    2:{ destruct (has_key (s_ "self") S0); [exfalso; eapply fail_inv; exact H|].
        apply ret_inv in H as [<- _]. exact I. }
    destruct Sty as [| | | |t|ts|]; try (exfalso; eapply fail_inv; exact H).
    - eapply typed_single_solid; eauto. now apply str_eqb_neq.
    - destruct ts as [|[| | | |t| |] [|t2 tr]];
        try (apply bind_inv in H as (es & t1 & Hes & H); destruct es; [exfalso; eapply fail_inv; exact H|];
             apply ret_inv in H as [<- _]; exact I).
      eapply typed_single_solid; eauto. apply str_eqb_neq. intros ->. inversion Hno; subst. congruence.
  Qed.

  Lemma nocomp_solid kvs st e st' : has_comp kvs = false -> type_not_object kvs ->
    P (JObj kvs) st = POk (e, st') -> solid e.
  Proof.
    intros Hc Hno H. cbn [parse_element] in H.
    destruct (existsb (fun kv => mem_str (fst kv) (c_unsupported cfg)) kvs); [exfalso; eapply fail_inv; exact H|].
    apply bind_inv in H as (props & s1 & Hp1 & H). apply bind_inv in H as (items & s2 & Hp2 & H).
    apply bind_inv in H as (pats & s3 & Hp3 & H). apply bind_inv in H as (pnames & s4 & Hp4 & H).
    apply bind_inv in H as (contains & s5 & Hp5 & H). apply bind_inv in H as (deps & s6 & Hp6 & H).
    apply bind_inv in H as (addp & s7 & Hp7 & H). apply bind_inv in H as (addi & s8 & Hp8 & H).
    unfold has_comp in Hc. rewrite Hc in H. cbn [negb] in H.
    eapply finish_plain_solid; eauto.
  Qed.

  Lemma addl_nf key kvs st a st' : addl_okS (lookup key kvs) ->
    Forall (plain cfg false) (opt_list (lookup key kvs)) -> Forall IHn (opt_list (lookup key kvs)) ->
    with_key (parse_addl P) key kvs (ret (AddBool true)) st = POk (a, st') ->
    Forall nf (sub_addl a) /\ addl_plain a.
  Proof.
    intros Hok Hpl HI H. rewrite with_key_lookup in H.
    destruct (lookup key kvs) as [Sa|]; [|apply ret_inv in H as [<- _]; split; [constructor|exact I]].
    unfold parse_addl in H. cbn [opt_list addl_okS] in *.
    inversion HI as [|? ? Hx _]; subst. inversion Hpl as [|? ? Hp _]; subst.
    destruct Sa as [|b| | | | |kvs'];
      try (inversion Hp; fail).
    - apply ret_inv in H as [<- _]. split; [constructor|exact I].
    - apply bind_inv in H as (e & s1 & He & H). apply ret_inv in H as [<- _]. cbn [sub_addl].
      split; [constructor; [eapply Hx; eauto|constructor]|].
      inversion Hp as [|? Hnode _]; subst.
      pose proof (nocomp_solid kvs' _ _ _ Hok (type_cond_false cfg kvs' Hnode) He) as Hs.
      destruct e; simpl in *; auto.
  Qed.

  (* ---- what the sub-parsers hand to the node ---- *)
  Definition Kgood (K : kwds elem) : Prop :=
    lclean (k_default K) /\ lclean (k_const K) /\
    (match k_enum K with Some l => clean (JArr l) = true | None => True end) /\
    Forall nf (ksub K) /\ k_required K <> Some [] /\
    props_nf cfg (match k_required K with Some l => l | None => [] end) (k_properties K) /\
    okeys (k_patternProperties K) /\ okeys (k_dependencies K) /\
    (match k_dependencies K with Some l => deps_sortedb false l = true | None => True end) /\
    addl_plain (k_additionalItems K) /\ addl_plain (k_additionalProperties K).

  Lemma Kgood_set_default K d : lclean d -> Kgood K -> Kgood (set_default K d).
  Proof. intros Hd (_ & H). split; [exact Hd|exact H]. Qed.

  Ltac flags :=
    repeat match goal with
           | |- context [mem_str (s_ ?p) (signature_of ?c0)] =>
             let b := eval vm_compute in (mem_str (s_ p) (signature_of c0)) in
             change (mem_str (s_ p) (signature_of c0)) with b
           end.

  Lemma filter_idem c K : filter_kw c (filter_kw c K) = filter_kw c K.
  Proof.
    apply kwds_ext; unfold filter_kw;
    cbn [k_default k_const k_enum k_items k_additionalItems k_minItems k_maxItems k_uniqueItems
         k_contains k_minimum k_maximum k_exclusiveMinimum k_exclusiveMaximum k_multipleOf k_format
         k_pattern k_minLength k_maxLength k_required k_properties k_patternProperties
         k_additionalProperties k_minProperties k_maxProperties k_propertyNames k_dependencies
         k_description];
    match goal with |- (if ?b then _ else _) = _ => destruct b; reflexivity end.
  Qed.

  Lemma nf_untyped K : Kgood K -> nf (EK CElement K).
  Proof.
    intros (H1 & H2 & H3 & H4 & H5 & H6 & H7 & H8 & H9 & H10 & H11). constructor; [|exact H4]. cbn [local_nf].
    repeat split; auto; try (intros; congruence).
    apply filter_kw_id; reflexivity.
  Qed.

  Lemma Kgood_filter c K : c <> CElement -> Kgood K ->
    lclean (k_default (filter_kw c K)) /\ lclean (k_const (filter_kw c K)) /\
    (match k_enum (filter_kw c K) with Some l => clean (JArr l) = true | None => True end) /\
    Forall nf (ksub (filter_kw c K)) /\ k_required (filter_kw c K) = None /\ k_properties (filter_kw c K) = None /\
    k_patternProperties (filter_kw c K) = None /\ k_dependencies (filter_kw c K) = None /\
    addl_plain (k_additionalItems (filter_kw c K)) /\ addl_plain (k_additionalProperties (filter_kw c K)).
  Proof.
    intros Hc (H1 & H2 & H3 & H4 & H5 & H6 & H7 & H8 & H9 & H10 & H11).
    destruct (filter_fields c K Hc) as (E1 & E2 & E3 & E4 & E5 & E6).
    rewrite E1, E2, E3, E4, E5, E6.
    split; [unfold filter_kw; cbn [k_default]; now rewrite has_default_sig|].
    split; [exact H2|]. split; [exact H3|].
    split; [rewrite Forall_forall in *; intros x Hx; apply H4; now apply (ksub_filter_incl c K)|].
    repeat split; unfold filter_kw; cbn [k_additionalItems k_additionalProperties];
      match goal with |- addl_plain (if ?b then _ else _) => destruct b; [assumption|exact I] end.
  Qed.

  Lemma nf_typed c K : Kgood K -> c <> CElement -> c <> CArray -> nf (EK c (filter_kw c K)).
  Proof.
    intros HK Hc1 Hc2.
    destruct (Kgood_filter c K Hc1 HK) as (G1 & G2 & G3 & G4 & G5 & G6 & G7 & G8 & G9 & G10).
    constructor; [|exact G4]. cbn [local_nf]. rewrite G5, G6, G7, G8. cbn [props_nf okeys].
    repeat split; auto; try (intros; congruence). apply filter_idem.
  Qed.

  Lemma nf_array K : Kgood K -> nf (EK CArray (arr_record K)).
  Proof.
    intros HK.
    destruct (Kgood_filter CArray K ltac:(discriminate) HK) as (G1 & G2 & G3 & G4 & G5 & G6 & G7 & G8 & G9 & G10).
    unfold arr_record. destruct (k_items (filter_kw CArray K)) as [it|] eqn:Ei.
    - constructor; [|exact G4]. cbn [local_nf]. rewrite G5, G6, G7, G8, Ei. cbn [props_nf okeys].
      repeat split; auto; try (intros; congruence).
    - constructor.
      + cbn [local_nf k_default k_const k_enum k_items k_required k_properties k_patternProperties k_dependencies
             k_additionalItems k_additionalProperties props_nf okeys addl_plain].
        repeat split; auto; try (intros; congruence).
      + cbn [children]. unfold ksub in *.
        cbn [k_items k_additionalItems k_contains k_properties k_patternProperties k_additionalProperties
             k_propertyNames k_dependencies sub_items sub_props sub_pats sub_opt sub_deps sub_addl app].
        rewrite Ei in G4. cbn [sub_items app] in G4.
        constructor; [apply nf_element|].
        repeat match type of G4 with Forall _ (_ ++ _) => let I1 := fresh "I" in apply Forall_app in G4 as [I1 G4] end.
        repeat (apply Forall_app; split); auto; constructor.
  Qed.

  Lemma typed_single_nf t S0 K st e st' : Kgood K -> str_eqb t (s_ "object") = false ->
    typed_single cfg t S0 K st = POk (e, st') -> nf e.
  Proof.
    intros HK Ho H. unfold typed_single in H. rewrite Ho in H.
    destruct (has_key (s_ "self") S0); [exfalso; eapply fail_inv; exact H|].
    destruct (str_eqb t (s_ "array")) eqn:Ea.
    - apply ret_inv in H as [<- _]. now apply nf_array.
    - destruct (lookup t type_mapping) as [c|] eqn:El; [|exfalso; eapply fail_inv; exact H].
      apply ret_inv in H as [<- _].
      destruct (type_mapping_ok t c El Ea) as (Hc1 & Hc2 & _). now apply nf_typed.
  Qed.

  Lemma finish_plain_nf kvs S0 K st e st' : Kgood K -> type_not_object kvs ->
    lookup (s_ "type") S0 = lookup (s_ "type") kvs ->
    finish_plain cfg S0 K st = POk (e, st') -> nf e.
  Proof.
    intros HK Hno Et H. unfold finish_plain in H. rewrite Et in H. red in Hno.
    destruct (lookup (s_ "type") kvs) as [Sty|].
    2:{ destruct (has_key (s_ "self") S0); [exfalso; eapply fail_inv; exact H|].
        apply ret_inv in H as [<- _]. now apply nf_untyped. }
    destruct Sty as [| | | |t|ts|]; try (exfalso; eapply fail_inv; exact H).
    - eapply typed_single_nf; eauto. now apply str_eqb_neq.
    - assert (Hgo : forall S' K', Kgood K' -> forall ts0, Forall (fun t => t <> JStr (s_ "object")) ts0 -> forall s0 es s1,
                (fix go (l : list json) : M (list elem) :=
                   match l with
                   | [] => ret []
                   | JStr t :: r => do e <- typed_single cfg t S' K';; do es <- go r;; ret (e :: es)
                   | _ :: _ => fail PCrash
                   end) ts0 s0 = POk (es, s1) -> Forall nf es /\ length es = length ts0).
      { intros S' K' HK'. induction 1 as [|tj tr Ht _ IH]; intros s0 es s1 H0.
        - apply ret_inv in H0 as [<- _]. split; [constructor|reflexivity].
        - destruct tj; try (exfalso; eapply fail_inv; exact H0).
          apply bind_inv in H0 as (e0 & t1 & He0 & H0). apply bind_inv in H0 as (es0 & t2 & Hes0 & H0).
          apply ret_inv in H0 as [<- _]. destruct (IH _ _ _ Hes0) as [I1 I2].
          split; [constructor; [|exact I1]|simpl; now rewrite I2].
          eapply typed_single_nf; eauto. apply str_eqb_neq. intros ->. now apply Ht. }
      assert (Hgen : 2 <= length ts -> forall s0 e0 s1,
                (do es <- (fix go (l : list json) : M (list elem) :=
                    match l with
                    | [] => ret []
                    | JStr t :: r => do e <- typed_single cfg t (remove_key (s_ "default") S0) (set_default K None);; do es <- go r;; ret (e :: es)
                    | _ :: _ => fail PCrash
                    end) ts;;
                 match es with
                 | [] => fail PCrash
                 | _ => ret (EComp MAny es (k_default K))
                 end) s0 = POk (e0, s1) -> nf e0).
      { intros Hlen s0 e0 s1 H0. apply bind_inv in H0 as (es & t1 & Hes & H0).
        destruct (Hgo _ _ (Kgood_set_default K None I HK) ts Hno _ _ _ Hes) as [Hd Hl].
        destruct es as [|e1 er]; [exfalso; eapply fail_inv; exact H0|]. apply ret_inv in H0 as [<- _].
        constructor; [|exact Hd]. cbn [local_nf]. destruct HK as (HKd & _).
        split; [exact HKd|]. split; [now rewrite Hl|intros; discriminate]. }
      destruct ts as [|[| | | |t| |] [|t2 tr]];
        try (eapply Hgen; [simpl; lia|exact H]);
        try (exfalso; apply bind_inv in H as (es & t1 & Hes & H);
             first [apply ret_inv in Hes as [<- _]; eapply fail_inv; exact H | eapply fail_inv; exact Hes]).
      eapply typed_single_nf; eauto. apply str_eqb_neq. intros ->. inversion Hno; subst. congruence.
  Qed.

  Lemma filter_nf (l : list elem) f : Forall nf l -> Forall nf (filter f l).
  Proof. induction 1; simpl; [constructor|]. destruct (f x); [constructor|]; auto. Qed.

  Lemma filter_sat {A} (f : A -> bool) l : Forall (fun x => f x = true) (filter f l).
  Proof. induction l as [|x r IH]; simpl; [constructor|]. destruct (f x) eqn:E; [constructor|]; auto. Qed.

  Lemma nf_not_obj e : nf e -> is_obj e = false.
  Proof. intros H. apply nf_noobj in H. destruct e; simpl in *; auto. contradiction. Qed.

  Hypothesis Hcfg : forall key, In key (map s_ ["allOf"; "anyOf"; "oneOf"]) -> In key (c_comp_order cfg).

  Lemma comp_list_nf key kvs st es st' : Forall IHn (arr_list (lookup key kvs)) ->
    with_key (parse_comp_list P) key kvs (ret []) st = POk (es, st') -> Forall nf es.
  Proof.
    intros HI H. rewrite with_key_lookup in H.
    destruct (lookup key kvs) as [Sl|]; [|apply ret_inv in H as [<- _]; constructor].
    unfold parse_comp_list in H. destruct Sl; try (exfalso; eapply fail_inv; exact H).
    cbn [arr_list] in HI. eapply list_nf; eauto.
  Qed.

  Theorem parse_nf : forall S0, plain cfg false S0 -> named S0 -> tidy S0 -> IHn S0.
  Proof.
    apply (plain_ind' cfg false (fun S0 => named S0 -> tidy S0 -> IHn S0)).
    - intros b _ _ st e st' H. destruct b; cbn [parse_element] in H; apply ret_inv in H as [<- _].
      + apply nf_element.
      + apply nf_nothing.
    - intros kvs Hnode Hsub IH Hnm Htd st e st' H.
      inversion Hnm as [|? Hnames Hns]; subst. inversion Htd as [|? Htn Hts]; subst.
      assert (IH' : Forall IHn (subschemas kvs)).
      { pose proof (Forall_and _ _ _ IH (Forall_and _ _ _ Hns Hts)) as Hb. eapply Forall_impl; [|exact Hb].
        intros a (Ha & Hn & Ht). auto. }
      clear IH Hns Hts. rename IH' into IH.
      pose proof (type_cond_false cfg kvs Hnode) as Hno.
      destruct Hnode as (Hnd & _ & Hconst & Henum & Hpok & Hattr & Hppok & Hdok & Hany & Hone).
      destruct Htn as (Treq & Tprops & Taddp & Taddi).
      unfold subschemas in IH, Hsub.
      repeat match type of IH with Forall _ (_ ++ _) => let Q1 := fresh "Q" in apply Forall_app in IH as [Q1 IH] end.
      repeat match type of Hsub with Forall _ (_ ++ _) => let Q1 := fresh "W" in apply Forall_app in Hsub as [Q1 Hsub] end.
      cbn [parse_element] in H.
      destruct (existsb (fun kv => mem_str (fst kv) (c_unsupported cfg)) kvs); [exfalso; eapply fail_inv; exact H|].
      apply bind_inv in H as (props & s1 & Hp1 & H). apply bind_inv in H as (items & s2 & Hp2 & H).
      apply bind_inv in H as (pats & s3 & Hp3 & H). apply bind_inv in H as (pnames & s4 & Hp4 & H).
      apply bind_inv in H as (contains & s5 & Hp5 & H). apply bind_inv in H as (deps & s6 & Hp6 & H).
      apply bind_inv in H as (addp & s7 & Hp7 & H). apply bind_inv in H as (addi & s8 & Hp8 & H).
      change (match lookup (s_ "required") kvs with Some j => jstr_list j | None => [] end) with (req_names kvs) in Hp1.
      destruct (props_nf' kvs _ _ _ Hpok Hattr Hnames Tprops Q5 Hp1) as [D1 Pok].
      pose proof (items_nf kvs _ _ _ Q Hp2) as D2.
      destruct (pats_nf kvs _ _ _ Hppok Q6 Hp3) as [D3 Kp].
      pose proof (some_nf _ kvs _ _ _ Q2 Hp4) as D4.
      pose proof (some_nf _ kvs _ _ _ Q1 Hp5) as D5.
      destruct (deps_nf kvs _ _ _ Hdok Q7 Hp6) as (D6 & Kd & Sd).
      destruct (addl_nf _ kvs _ _ _ Taddp W3 Q3 Hp7) as [D7 A7].
      destruct (addl_nf _ kvs _ _ _ Taddi W0 Q0 Hp8) as [D8 A8].
      set (K := kw_record kvs props items pats pnames contains deps addp addi) in *.
      assert (HK : Kgood K).
      { unfold Kgood, K, kw_record.
        cbn [k_default k_const k_enum k_required k_properties k_patternProperties k_dependencies
             k_additionalItems k_additionalProperties].
        split; [|split; [|split; [|split; [|split; [|split; [|split; [|split; [|split; [|split]]]]]]]]].
        - unfold lclean. destruct (lookup (s_ "default") kvs) as [j|]; [apply strip_clean|exact I].
        - unfold lclean. destruct (lookup (s_ "const") kvs) as [j|]; [apply strip_clean|exact I].
        - destruct (lookup (s_ "enum") kvs) as [j|]; [|exact I].
          pose proof (strip_clean j) as Hc. destruct (strip_autotitle j); try exact I. exact Hc.
        - unfold ksub. cbn [k_items k_additionalItems k_contains k_properties k_patternProperties k_additionalProperties k_propertyNames k_dependencies].
          repeat (apply Forall_app; split); assumption.
        - destruct (lookup (s_ "required") kvs) as [j|]; [|discriminate]. intros E. inversion E. contradiction.
        - unfold req_names in Pok. destruct (lookup (s_ "required") kvs); exact Pok.
        - exact Kp.
        - exact Kd.
        - exact Sd.
        - exact A8.
        - exact A7. }
      destruct (existsb (fun kv => mem_str (fst kv) composition_keywords) kvs) eqn:Ecomp; cbn [negb] in H.
      + apply bind_inv in H as (base & s9 & Hbase & H). apply bind_inv in H as (parsed & s10 & Hparsed & H).
        apply bind_inv in H as (nots & s11 & Hnots & H).
        assert (Db : nf base).
        { refine (finish_plain_nf kvs _ (set_default K None) _ _ _ (Kgood_set_default K None I HK) Hno _ Hbase).
          apply lookup_filter_keep. vm_compute. intuition discriminate. }
        assert (Dk : forall key, In key (map s_ ["allOf"; "anyOf"; "oneOf"]) ->
                  Forall IHn (arr_list (lookup key kvs)) ->
                  Forall nf (match lookup key parsed with Some l => l | None => [] end)).
        { intros key Hin HI. destruct (parse_keys_lookup _ _ _ _ _ Hparsed key (Hcfg key Hin)) as (es & t1 & t2 & -> & Hsb).
          eapply comp_list_nf; eauto. }
        assert (Dn : Forall nf nots).
        { rewrite with_key_lookup in Hnots. destruct (lookup (s_ "not") kvs) as [Sn|].
          - unfold parse_not in Hnots. apply bind_inv in Hnots as (en & t1 & Hen & Hnots).
            apply ret_inv in Hnots as [<- _]. cbn [opt_list] in Q4. inversion Q4 as [|? ? Hi _]; subst.
            constructor; [|constructor]. constructor; [exact I|]. cbn [children]. constructor; [eapply Hi; eauto|constructor].
          - apply ret_inv in Hnots as [<- _]. constructor. }
        set (all_of := base :: (match lookup (s_ "allOf") parsed with Some l => l | None => [] end) ++
                       [compose MOne (match lookup (s_ "oneOf") parsed with Some l => l | None => [] end);
                        compose MAny (match lookup (s_ "anyOf") parsed with Some l => l | None => [] end)] ++ nots) in *.
        assert (Dall : Forall nf all_of).
        { unfold all_of. constructor; [exact Db|]. apply Forall_app. split; [apply Dk; [now left|exact Q8]|].
          constructor; [apply nf_compose; [apply Dk; [right; right; now left|exact IH]|discriminate]|].
          constructor; [apply nf_compose; [apply Dk; [right; now left|exact Q9]|discriminate]|exact Dn]. }
        set (element := compose MAll (filter (fun e0 => negb (elem_eq EElement e0)) all_of)) in *.
        assert (De : nf element).
        { apply nf_compose; [apply filter_nf, Dall|]. intros _.
          pose proof (filter_sat (fun e0 => negb (elem_eq EElement e0)) all_of) as Hs.
          eapply Forall_impl; [|exact Hs]. intros a Ha. now apply negb_true_iff in Ha. }
        rewrite (nf_not_obj element De) in H. apply ret_inv in H as [<- _].
        destruct (lookup (s_ "default") kvs) as [j|]; [|exact De].
        apply nf_with_default; [apply strip_clean|exact De].
      + exact (finish_plain_nf kvs kvs K _ _ _ HK Hno eq_refl H).
  Qed.
End Img.

(* ---- the statements used by Properties/C06.v ---- *)
Lemma cfg_ok_complete cfg : cfg_okb cfg = true ->
  forall key, In key (map s_ ["allOf"; "anyOf"; "oneOf"]) -> In key (c_comp_order cfg).
Proof.
  intros H key Hk. unfold cfg_okb in H. apply andb_true_iff in H as [H _]. apply andb_true_iff in H as [_ H].
  rewrite forallb_forall in H. apply mem_str_In. now apply H.
Qed.

Theorem image_in_normal_form cfg S0 st e st' : cfg_okb cfg = true ->
  plain cfg false S0 -> named S0 -> tidy S0 -> parse_element cfg S0 st = POk (e, st') -> nf cfg e.
Proof. intros Hc Hp Hn Ht H. exact (parse_nf cfg (cfg_ok_complete cfg Hc) S0 Hp Hn Ht st e st' H). Qed.

Theorem second_trip_identity cfg S0 st e st' : cfg_okb cfg = true ->
  plain cfg false S0 -> named S0 -> tidy S0 -> parse_element cfg S0 st = POk (e, st') ->
  forall st2, parse_element cfg (ser e) st2 = POk (e, st2).
Proof.
  intros Hc Hp Hn Ht H st2. apply ser_parse_id; [exact Hc|]. eapply image_in_normal_form; eauto.
Qed.

Lemma named_tidyb_sound : forall fuel S0, named_tidyb fuel S0 = true -> named S0 /\ tidy S0.
Proof.
  induction fuel as [|n IH]; intros S0 H; [discriminate|]. cbn [named_tidyb] in H.
  destruct S0 as [|b| | | | |kvs]; try discriminate.
  - split; constructor.
  - apply andb_true_iff in H as [Hn Hs]. rewrite forallb_forall in Hs.
    assert (Hsub : Forall (fun x => named x /\ tidy x) (subschemas kvs)).
    { apply Forall_forall. intros x Hx. apply IH. now apply Hs. }
    unfold tidy_nodeb in Hn.
    apply andb_true_iff in Hn as [Hn H4]. apply andb_true_iff in Hn as [Hn H3]. apply andb_true_iff in Hn as [H1 H2].
    split.
    + constructor; [|eapply Forall_impl; [|exact Hsub]; intros a [Ha _]; exact Ha].
      destruct (lookup (s_ "properties") kvs) as [[| | | | | |p]|]; try exact I.
      destruct p as [|p0 pr]; [discriminate|]. rewrite forallb_forall in H2. apply Forall_forall. intros kv Hkv.
      specialize (H2 kv Hkv). destruct (fst kv); [discriminate|discriminate].
    + constructor; [|eapply Forall_impl; [|exact Hsub]; intros a [_ Ha]; exact Ha].
      unfold tidy_node. split; [|split; [|split]].
      * destruct (lookup (s_ "required") kvs) as [j|]; [|exact I]. destruct (jstr_list j); [discriminate|discriminate].
      * destruct (lookup (s_ "properties") kvs) as [[| | | | | |[|p0 pr]]|]; try exact I. discriminate.
      * unfold addl_okSb in H3. unfold addl_okS. destruct (lookup (s_ "additionalProperties") kvs) as [[| | | | | |k']|]; try exact I.
        now apply negb_true_iff in H3.
      * unfold addl_okSb in H4. unfold addl_okS. destruct (lookup (s_ "additionalItems") kvs) as [[| | | | | |k']|]; try exact I.
        now apply negb_true_iff in H4.
Qed.
