(* OrdererClosed.v — the dependency map orderer() builds is closed (the premise of
   OrdererLoop.order_names_acyclic), for every identity graph whose object classes have unique
   names; hence the end-to-end statement: no class reaching itself => orderer() returns a
   complete topological order. *)
From Coq Require Import Lia Permutation.
From Statham.Model Require Import Str Orderer.
From Statham.Proofs Require Import StrFacts OrdererLoop OrdererSound OrdererWalk OrdererDirect OrdererReach.

Lemma keys_dict_set_mono {A} k (v : A) l x : In x (keys l) -> In x (keys (dict_set k v l)).
Proof.
  induction l as [|[k' v'] r IH]; simpl; [tauto|].
  destruct (str_eqb_spec k k') as [->|Hn]; simpl; intros [H|H]; auto.
Qed.
Lemma keys_dict_set_new {A} k (v : A) l : In k (keys (dict_set k v l)).
Proof.
  induction l as [|[k' v'] r IH]; simpl; [auto|].
  destruct (str_eqb_spec k k') as [->|Hn]; simpl; auto.
Qed.
Lemma keys_dict_merge {A} (b : list (str * A)) : forall a x,
  In x (keys a) \/ In x (keys b) -> In x (keys (dict_merge a b)).
Proof.
  unfold dict_merge; induction b as [|[k v] r IH]; simpl; intros a x H.
  - destruct H as [H|[]]; exact H.
  - apply IH. destruct H as [H|[<-|H]]; auto.
    + left; now apply keys_dict_set_mono.
    + left; apply keys_dict_set_new.
Qed.

Section Closed.
  Variable paths : list str.
  Variable G : graph.
  Variable roots ocs : list nat.
  Variable ps : list (str * list str).
  Hypothesis Hocs : get_object_classes paths G roots = Some ocs.
  Hypothesis Hps : dep_pairs paths G ocs = Some ps.
  Hypothesis Huniq : forall a b, In a ocs -> In b ocs -> class_name G a = class_name G b -> a = b.

  Lemma all_children_In rs cs : all_children paths G rs = Some cs ->
    forall x, In x cs <-> exists r, In r rs /\ reach paths G r x.
  Proof.
    revert cs; induction rs as [|r rs IH]; simpl; intros cs H x.
    { injection H as <-. split; [intros []|intros (r & [] & _)]. }
    destruct (get_children paths G r) as [a|] eqn:Ea; [|discriminate].
    destruct (all_children paths G rs) as [b|]; [|discriminate].
    injection H as <-. rewrite in_app_iff, (get_children_reach _ _ _ _ Ea x), (IH b eq_refl x).
    split.
    - intros [H|(r' & H1 & H2)]; [exists r; auto|exists r'; auto].
    - intros (r' & [<-|H1] & H2); [left; exact H2|right; exists r'; auto].
  Qed.

  Lemma ocs_In c : In c ocs <->
    is_class G c = true /\ (In c roots \/ exists r, In r roots /\ reach paths G r c).
  Proof.
    unfold get_object_classes in Hocs.
    destruct (all_children paths G roots) as [cs|] eqn:E; [|discriminate].
    injection Hocs as <-. rewrite filter_In, in_app_iff, (all_children_In _ _ E c). tauto.
  Qed.

  Lemma ocs_reach c x : In c ocs -> reach paths G c x -> is_class G x = true -> In x ocs.
  Proof.
    intros Hc Hr Hx. apply ocs_In in Hc as [_ [Hc|(r & H1 & H2)]]; apply ocs_In; split; auto; right.
    - exists c; auto.
    - exists r; split; auto. eapply reach_trans; eauto.
  Qed.

  Lemma deps_In c ys x : get_children paths G c = Some ys ->
    In x (deps_of G c ys) <-> exists cx, x = class_name G cx /\ is_class G cx = true /\ reach paths G c cx.
  Proof.
    intros Eg. unfold deps_of. rewrite in_map_iff. split.
    - intros (cx & <- & H). apply filter_In in H as [H1 H2]. exists cx; repeat split; auto.
      now apply (get_children_reach _ _ _ _ Eg).
    - intros (cx & -> & H1 & H2). exists cx; split; auto. apply filter_In; split; auto.
      now apply (get_children_reach _ _ _ _ Eg).
  Qed.

  Theorem dep_map_closed : closed (dict_of_pairs ps).
  Proof.
    intros k ds x Hin Hx.
    apply In_dict_merge'' in Hin as [[]|Hin].
    destruct (dep_pairs_inv _ _ _ _ _ _ Hps Hin) as (c & ys & Hc & -> & Eg & ->).
    apply (deps_In _ _ _ Eg) in Hx as (cx & -> & Hcl & Hr).
    assert (In cx ocs) as Hcx by (eapply ocs_reach; eauto).
    assert (In (class_name G cx) (keys (dict_of_pairs ps))) as Hk.
    { apply keys_dict_merge; right. rewrite (dep_pairs_keys _ _ _ _ Hps). now apply in_map. }
    unfold keys in Hk; apply in_map_iff in Hk as ([k' ds'] & Ek & Hin'). simpl in Ek; subst k'.
    exists ds'. split; [apply In_lookup; [apply nodup_dict_of_pairs|exact Hin']|].
    apply In_dict_merge'' in Hin' as [[]|Hin'].
    destruct (dep_pairs_inv _ _ _ _ _ _ Hps Hin') as (c' & ys' & Hc' & En & Eg' & ->).
    apply Huniq in En; auto; subst c'.
    intros y Hy. apply (deps_In _ _ _ Eg') in Hy as (cy & -> & Hcly & Hry).
    apply (deps_In _ _ _ Eg). exists cy; repeat split; auto. eapply reach_trans; eauto.
  Qed.

  (* no object class reaches itself  <->  has_cycle is false on the map *)
  Lemma has_cycle_reach :
    has_cycle (dict_of_pairs ps) = true <-> exists c, In c ocs /\ reach paths G c c.
  Proof.
    rewrite has_cycle_true. split.
    - intros (k & ds & Hin & Hk).
      apply In_dict_merge'' in Hin as [[]|Hin].
      destruct (dep_pairs_inv _ _ _ _ _ _ Hps Hin) as (c & ys & Hc & -> & Eg & ->).
      apply (deps_In _ _ _ Eg) in Hk as (cx & En & Hcl & Hr).
      assert (In cx ocs) as Hcx by (eapply ocs_reach; eauto).
      apply Huniq in En; auto; subst cx. exists c; auto.
    - intros (c & Hc & Hr).
      assert (In (class_name G c) (keys (dict_of_pairs ps))) as Hk.
      { apply keys_dict_merge; right. rewrite (dep_pairs_keys _ _ _ _ Hps). now apply in_map. }
      unfold keys in Hk; apply in_map_iff in Hk as ([k' ds'] & Ek & Hin'). simpl in Ek; subst k'.
      exists (class_name G c), ds'; split; auto.
      pose proof Hin' as Hin0. apply In_dict_merge'' in Hin0 as [[]|Hin0].
      destruct (dep_pairs_inv _ _ _ _ _ _ Hps Hin0) as (c' & ys' & Hc' & En & Eg' & ->).
      apply Huniq in En; auto; subst c'.
      apply (deps_In _ _ _ Eg'). exists c; repeat split; auto. now apply ocs_In in Hc as [Hc _].
  Qed.
End Closed.

(* End to end, for every identity graph and root list on which the enumeration returns (always,
   on well-formed graphs: OrdererWalk) and whose object classes have unique names (the routine's
   documented precondition):
   - some class reaches itself  => the schema-parse error;
   - otherwise => an order that lists every class name exactly once, with every class that a
     class reaches (directly or not) before it. *)
Theorem orderer_end_to_end paths G roots ocs ps :
  get_object_classes paths G roots = Some ocs -> dep_pairs paths G ocs = Some ps ->
  (forall a b, In a ocs -> In b ocs -> class_name G a = class_name G b -> a = b) ->
  ((exists c, In c ocs /\ reach paths G c c) -> orderer paths G roots = OSchemaParseError) /\
  ((forall c, In c ocs -> ~ reach paths G c c) ->
   exists l, orderer paths G roots = OOk l /\
     Permutation l (keys (dict_of_pairs ps)) /\
     forall c x, In c ocs -> reach paths G c x -> is_class G x = true ->
       before (class_name G x) (class_name G c) l).
Proof.
  intros Ho Hp Hu. unfold orderer; rewrite Ho, Hp. split.
  - intros Hc. apply (has_cycle_reach _ _ _ _ _ Ho Hp Hu) in Hc. unfold order_names; now rewrite Hc.
  - intros Hac.
    assert (has_cycle (dict_of_pairs ps) = false) as Hcy.
    { destruct (has_cycle (dict_of_pairs ps)) eqn:E; auto.
      apply (has_cycle_reach _ _ _ _ _ Ho Hp Hu) in E as (c & H1 & H2). destruct (Hac c H1 H2). }
    destruct (order_names_acyclic _ (nodup_dict_of_pairs ps) (dep_map_closed _ _ _ _ _ Ho Hp Hu) Hcy)
      as (l & El & Hperm & Hb).
    exists l; repeat split; auto. intros c x Hc Hr Hx.
    assert (In (class_name G c) (keys (dict_of_pairs ps))) as Hk.
    { apply keys_dict_merge; right. rewrite (dep_pairs_keys _ _ _ _ Hp). now apply in_map. }
    unfold keys in Hk; apply in_map_iff in Hk as ([k' ds'] & Ek & Hin'). simpl in Ek; subst k'.
    apply (Hb _ _ _ Hin').
    apply In_dict_merge'' in Hin' as [[]|Hin'].
    destruct (dep_pairs_inv _ _ _ _ _ _ Hp Hin') as (c' & ys' & Hc' & En & Eg' & ->).
    apply Hu in En; auto; subst c'.
    apply (deps_In _ _ _ _ _ Eg'). exists x; auto.
Qed.

Lemma uniq_namesb_sound G ocs : uniq_namesb G ocs = true ->
  forall a b, In a ocs -> In b ocs -> class_name G a = class_name G b -> a = b.
Proof.
  unfold uniq_namesb; rewrite forallb_forall; intros H a b Ha Hb E.
  specialize (H a Ha). rewrite forallb_forall in H. specialize (H b Hb).
  rewrite E in H. destruct (str_eqb_spec (class_name G b) (class_name G b)) as [_|N]; [|congruence].
  simpl in H. now apply Nat.eqb_eq.
Qed.
