(* DeterminismProof.v — C09: nothing the generator outputs depends on the iteration order of a set. *)
From Coq Require Import String Permutation Lia.
From Statham.Model Require Import Str Json Elem Names Tables Parser Canon.
From Statham.Generated Require Gen_setiter Gen_parser_tables.
From Statham.Proofs Require Import StrFacts.
Local Open Scope string_scope.
Local Open Scope list_scope.

(* every set-iteration site the translator finds in /repo is an audited, order-insensitive one *)
Definition site_audited (w : str * str * str) : bool :=
  existsb (fun a => match a, w with (m, f, t, _), (m', f', t') => str_eqb m m' && str_eqb f f' && str_eqb t t' end) audited_setiter.
Lemma setiter_audited : forallb site_audited Gen_setiter.setiter_sites = true.
Proof. vm_compute. reflexivity. Qed.

(* the order in which _parse_composition visits anyOf/oneOf/allOf, for ANY behaviour `pi` of set
   iteration: when the code iterates a fixed sequence, pi is never consulted *)
Definition order_used (pi : list str -> list str) : list str :=
  match Gen_parser_tables.comp_iter with
  | Gen_parser_tables.FixedOrder => Gen_parser_tables.comp_order_now
  | _ => pi Gen_parser_tables.comp_order_now
  end.
Lemma order_free : forall pi1 pi2, order_used pi1 = order_used pi2.
Proof. intros. unfold order_used. vm_compute. reflexivity. Qed.

Theorem parse_order_free : forall pi1 pi2 U reserved uns S,
  parse (mkCfg U reserved uns (order_used pi1)) S = parse (mkCfg U reserved uns (order_used pi2)) S.
Proof. intros. now rewrite (order_free pi1 pi2). Qed.

(* with a set-typed iteration (the code before fix 95e6237) class names DO depend on the order *)
Definition cfg_order (o : list str) : pcfg := mkCfg (mkU (fun _ => true) (fun _ => [])) [] [] o.
Definition thing (p : String.string) : json :=
  JObj [(s_ "type", JStr (s_ "object")); (s_ "title", JStr (s_ "Thing")); (s_ "properties", JObj [(s_ p, JObj [])])].
Definition witness_doc : json :=
  JObj [(s_ "anyOf", JArr [thing "a"]); (s_ "oneOf", JArr [thing "b"]); (s_ "allOf", JArr [thing "c"])].
Theorem set_order_matters :
  match parse_element (cfg_order [s_ "anyOf"; s_ "oneOf"; s_ "allOf"]) witness_doc [],
        parse_element (cfg_order [s_ "allOf"; s_ "oneOf"; s_ "anyOf"]) witness_doc [] with
  | POk (e1, _), POk (e2, _) => json_eqb (canon_elem e1) (canon_elem e2) = false
  | _, _ => False
  end.
Proof. vm_compute. reflexivity. Qed.

(* ---- sorted(): the output is the same for every order in which the set was enumerated ---- *)
Fixpoint str_leb (a b : str) : bool :=
  match a, b with
  | [], _ => true
  | _ :: _, [] => false
  | x :: a', y :: b' => if N.ltb x y then true else if N.eqb x y then str_leb a' b' else false
  end.
Fixpoint insert (x : str) (l : list str) : list str :=
  match l with
  | [] => [x]
  | y :: r => if str_leb x y then x :: y :: r else y :: insert x r
  end.
Fixpoint isort (l : list str) : list str := match l with [] => [] | x :: r => insert x (isort r) end.

Lemma leb_total a : forall b, str_leb a b = true \/ str_leb b a = true.
Proof.
  induction a as [|x a IH]; intros [|y b]; simpl; auto.
  destruct (N.ltb_spec x y), (N.ltb_spec y x), (N.eqb_spec x y), (N.eqb_spec y x); try lia; auto.
Qed.
Lemma leb_antisym a : forall b, str_leb a b = true -> str_leb b a = true -> a = b.
Proof.
  induction a as [|x a IH]; intros [|y b]; simpl; auto; try discriminate.
  destruct (N.ltb_spec x y), (N.ltb_spec y x), (N.eqb_spec x y), (N.eqb_spec y x); try lia; try discriminate.
  intros E1 E2. subst. f_equal. auto.
Qed.
Lemma leb_trans a : forall b c, str_leb a b = true -> str_leb b c = true -> str_leb a c = true.
Proof.
  induction a as [|x a IH]; intros [|y b] [|z c]; simpl; auto; try discriminate.
  destruct (N.ltb_spec x y), (N.ltb_spec y z), (N.ltb_spec x z), (N.eqb_spec x y), (N.eqb_spec y z), (N.eqb_spec x z);
    try lia; try discriminate; auto. intros E1 E2. eauto.
Qed.

Inductive sorted : list str -> Prop :=
| sorted_nil : sorted []
| sorted_cons x l : (forall y, In y l -> str_leb x y = true) -> sorted l -> sorted (x :: l).

Lemma insert_perm x l : Permutation (x :: l) (insert x l).
Proof.
  induction l as [|y r IH]; simpl; [reflexivity|]. destruct (str_leb x y); [reflexivity|].
  rewrite perm_swap. now apply perm_skip.
Qed.
Lemma isort_perm l : Permutation l (isort l).
Proof. induction l as [|x r IH]; simpl; [reflexivity|]. rewrite <- insert_perm. now apply perm_skip. Qed.
Lemma insert_sorted x l : sorted l -> sorted (insert x l).
Proof.
  induction 1 as [|y r Hy Hs IH]; simpl.
  - constructor; [intros ? []|constructor].
  - destruct (str_leb x y) eqn:E.
    + constructor; [|constructor; auto]. intros z [<-|Hz]; auto. eapply leb_trans; eauto.
    + constructor; auto. intros z Hz. apply (Permutation_in _ (Permutation_sym (insert_perm x r))) in Hz.
      destruct Hz as [<-|Hz]; auto. destruct (leb_total x y); congruence.
Qed.
Lemma isort_sorted l : sorted (isort l).
Proof. induction l; simpl; [constructor|now apply insert_sorted]. Qed.

Lemma sorted_perm_eq l1 : forall l2, sorted l1 -> sorted l2 -> Permutation l1 l2 -> l1 = l2.
Proof.
  induction l1 as [|x r IH]; intros l2 H1 H2 Hp.
  - apply Permutation_nil in Hp. now subst.
  - destruct l2 as [|y s]; [apply Permutation_sym, Permutation_nil in Hp; discriminate|].
    inversion H1 as [|? ? Hx Hr]; inversion H2 as [|? ? Hy Hs]; subst.
    assert (x = y).
    { assert (Ix : In x (y :: s)) by (eapply Permutation_in; [exact Hp|now left]).
      assert (Iy : In y (x :: r)) by (eapply Permutation_in; [exact (Permutation_sym Hp)|now left]).
      destruct Ix as [->|Ix]; auto. destruct Iy as [->|Iy]; auto.
      apply leb_antisym; auto. }
    subst y. f_equal. apply IH; auto. eapply Permutation_cons_inv; eauto.
Qed.

Theorem sorted_output_order_free l1 l2 : Permutation l1 l2 -> isort l1 = isort l2.
Proof.
  intros Hp. apply sorted_perm_eq; try apply isort_sorted.
  rewrite <- (isort_perm l1), <- (isort_perm l2). exact Hp.
Qed.
