(* C01Plain2.v — walk2: the walk of C01Plain.v with revisits (see Model/Plain2.v). *)
From Coq Require String. Import String.StringSyntax.
From Coq Require Import List Bool ZArith.
From Statham.Model Require Import Str Json Elem Names Tables Parser Plain Plain2.
From Statham.Proofs Require Import StrFacts C01Scalar C01Plain.
Import ListNotations.
Local Open Scope string_scope.
Arguments s_ : simpl never.

Section W2.
  Variable cfg : pcfg.

  Definition own_step2 (kvs : list (str * json)) (u u' : thread) : Prop :=
    own_step kvs (fst u) (fst u') /\ snd u' = snd u.

  Inductive walk2 : thread -> json -> thread -> Prop :=
  | walk2_leaf u S0 : (match S0 with JObj _ => False | _ => True end) -> walk2 u S0 u
  | walk2_seen u kvs : In (JObj kvs) (snd u) -> walk2 u (JObj kvs) u
  | walk2_node u kvs u1 u2 :
      has_comp kvs = false ->
      walks2 u (pre_list kvs) u1 ->
      own_step2 kvs u1 u2 ->
      walk2 u (JObj kvs) (record kvs u2)
  | walk2_comp u kvs u1 u2 u3 u4 :
      has_comp kvs = true ->
      walks2 u (pre_list kvs) u1 ->
      own_step2 kvs u1 u2 ->
      walks2 u2 (comp_lists cfg kvs) u3 ->
      walks2 u3 (opt_list (lookup (s_ "not") kvs)) u4 ->
      walk2 u (JObj kvs) (record kvs u4)
  with walks2 : thread -> list json -> thread -> Prop :=
  | walks2_nil u : walks2 u [] u
  | walks2_cons u x u1 r u2 : walk2 u x u1 -> walks2 u1 r u2 -> walks2 u (x :: r) u2.

  Lemma walks2_app u a b u' : walks2 u (a ++ b) u' -> exists u1, walks2 u a u1 /\ walks2 u1 b u'.
  Proof.
    revert u. induction a as [|x a IH]; intros u H; simpl in H.
    - exists u. split; [constructor|exact H].
    - inversion H as [|? ? u1 ? ? Hx Hr]; subst. destruct (IH _ Hr) as (u2 & H1 & H2).
      exists u2. split; [econstructor; eauto|exact H2].
  Qed.
  Lemma walks2_nil_inv u u' : walks2 u [] u' -> u' = u.
  Proof. intros H. now inversion H. Qed.
  Lemma walks2_one_inv u x u' : walks2 u [x] u' -> walk2 u x u'.
  Proof. intros H. inversion H as [|? ? u1 ? ? Hx Hr]; subst. inversion Hr; subst. exact Hx. Qed.
  Lemma walk2_leaf_inv u S0 u' : (match S0 with JObj _ => False | _ => True end) -> walk2 u S0 u' -> u' = u.
  Proof. intros Hl H. inversion H; subst; try reflexivity; contradiction. Qed.
End W2.

(* ---- strict structural equality decides equality (used to recognise a schema met again) ---- *)
Lemma sf_eqb_eq a b : sf_eqb a b = true -> a = b.
Proof.
  destruct a, b; simpl; try discriminate; intros H.
  - apply Bool.eqb_prop in H. now subst.
  - apply Bool.eqb_prop in H. now subst.
  - reflexivity.
  - apply andb_true_iff in H as [H H3]. apply andb_true_iff in H as [H1 H2].
    apply Bool.eqb_prop in H1. apply Pos.eqb_eq in H2. apply Z.eqb_eq in H3. now subst.
Qed.

Lemma json_eqb_eq : forall a b, json_eqb a b = true -> a = b.
Proof.
  fix IH 1. intros a b. destruct a as [|x|x|x|x|l1|k1], b as [|y|y|y|y|l2|k2]; simpl; try discriminate; intros H.
  - reflexivity.
  - apply Bool.eqb_prop in H. now subst.
  - apply Z.eqb_eq in H. now subst.
  - apply sf_eqb_eq in H. now subst.
  - apply str_eqb_eq in H. now subst.
  - f_equal. revert l2 H. induction l1 as [|x r IHl]; intros [|y r2] H; try discriminate; [reflexivity|].
    apply andb_true_iff in H as [H1 H2]. f_equal; [now apply IH|now apply IHl].
  - f_equal. revert k2 H. induction k1 as [|[kx x] r IHl]; intros [|[ky y] r2] H; try discriminate; [reflexivity|].
    apply andb_true_iff in H as [H H3]. apply andb_true_iff in H as [H1 H2].
    apply str_eqb_eq in H1. subst. f_equal; [f_equal; now apply IH|now apply IHl].
Qed.

Section Checker2.
  Variable cfg : pcfg.

  Lemma own_stepb2_sound kvs u u' : own_stepb2 kvs u = Some u' -> own_step2 kvs u u'.
  Proof.
    unfold own_stepb2, own_step2. destruct (own_stepb kvs (fst u)) as [n|] eqn:E; [|discriminate].
    intros H. inversion H; subst. cbn [fst snd]. split; [now apply own_stepb_sound|reflexivity].
  Qed.

  Theorem walkb2_sound : forall fuel u S0 u', walkb2 cfg fuel u S0 = Some u' -> walk2 cfg u S0 u'.
  Proof.
    induction fuel as [|n IH]; intros u S0 u' H; [discriminate|]. cbn [walkb2] in H.
    set (walksb := fix go (u0 : thread) (l : list json) : option thread :=
           match l with
           | [] => Some u0
           | x :: r => match walkb2 cfg n u0 x with Some u1 => go u1 r | None => None end
           end) in *.
    assert (Hs : forall l u0 u1, walksb u0 l = Some u1 -> walks2 cfg u0 l u1).
    { induction l as [|x r IHl]; intros u0 u1 Hl; simpl in Hl.
      - inversion Hl. constructor.
      - destruct (walkb2 cfg n u0 x) as [u2|] eqn:Ex; [|discriminate].
        econstructor; [apply IH; exact Ex|apply IHl; exact Hl]. }
    destruct S0 as [| | | | | |kvs]; try (inversion H; subst; now constructor).
    destruct (existsb (json_eqb (JObj kvs)) (snd u)) eqn:Eseen.
    - inversion H; subst. apply walk2_seen. apply existsb_exists in Eseen as (y & Hy & Ey).
      apply json_eqb_eq in Ey. now subst.
    - destruct (walksb u (pre_list kvs)) as [u1|] eqn:E1; [|discriminate].
      destruct (own_stepb2 kvs u1) as [u2|] eqn:E2; [|discriminate].
      destruct (has_comp kvs) eqn:Ec.
      + destruct (walksb u2 (comp_lists cfg kvs)) as [u3|] eqn:E3; [|discriminate].
        destruct (walksb u3 (opt_list (lookup (s_ "not") kvs))) as [u4|] eqn:E4; [|discriminate].
        inversion H; subst. apply (walk2_comp cfg u kvs u1 u2 u3 u4); auto. now apply own_stepb2_sound.
      + inversion H; subst. apply (walk2_node cfg u kvs u1 u2); auto. now apply own_stepb2_sound.
  Qed.

  Theorem in_fragment2_sound fuel S0 : in_fragment2 cfg fuel S0 = true ->
    plain cfg true S0 /\ exists u', walk2 cfg ([], []) S0 u'.
  Proof.
    unfold in_fragment2. intros H. apply andb_true_iff in H as [H1 H2]. split; [eapply plainb_sound; eauto|].
    destruct (walkb2 cfg fuel ([], []) S0) as [u'|] eqn:E; [|discriminate]. exists u'. eapply walkb2_sound; eauto.
  Qed.
End Checker2.
