(* C03Examples.v — non-vacuity of C03_meaning: a DSL-built tree (renamed property, explicit required
   list next to properties, patterns, dependencies of both forms, composition with a default) lies
   in the fragment, and the document the model serializer writes for it accepts / rejects concrete
   values exactly as the tree does (by computation).  Generated once by the harness (canon.cq_elem). *)
From Coq Require Import String Floats.SpecFloat.
From Statham.Model Require Import Str Json Elem PyNum Validate Tables Parser Spec6 Plain SerJson SerFrag RunHelpers.
From Statham.Proofs Require Import JsonEqProof C01Vm C03Meaning.
Local Open Scope string_scope.
Local Open Scope list_scope.

Definition ex3_O : oracles := tbl_oracles [((s_ "^[a-z]"), [(s_ "q"); (s_ "z"); (s_ "ab"); (s_ "a"); (s_ "b"); (s_ "c"); (s_ "x1"); (s_ "zz"); (s_ "long")]); ((s_ "^x"), [(s_ "x1")])] [].
Definition ex3_elem : elem := (EK CElement (mkK None None None None (AddBool true) None None false None None None None None None None None None None (Some [(s_ "a")]) (Some [((s_ "a"), mkProp (EK CString (mkK None None None None (AddBool true) None None false None None None None None None None (Some (s_ "^[a-z]")) (Some (JInt (1)%Z)) None None None None (AddBool true) None None None None None)) true (s_ "a")); ((s_ "b_"), mkProp (EK CArray (mkK None None None (Some (ItOne (EK CInteger (mkK None None None None (AddBool true) None None false None (Some (JInt (0)%Z)) None None None (Some (JInt (2)%Z)) None None None None None None None (AddBool true) None None None None None)))) (AddBool true) None (Some (JInt (2)%Z)) true None None None None None None None None None None None None None (AddBool true) None None None None None)) false (s_ "b")); ((s_ "c"), mkProp (EComp MAny [(EK CNumber (mkK None None None None (AddBool true) None None false None None None None (Some (JInt (10)%Z)) None None None None None None None None (AddBool true) None None None None None)); (EK CBoolean (mkK None None None None (AddBool true) None None false None None None None None None None None None None None None None (AddBool true) None None None None None))] (Some (JBool true))) false (s_ "c"))]) (Some [((s_ "^x"), (ENot (EK CNull (mkK None None None None (AddBool true) None None false None None None None None None None None None None None None None (AddBool true) None None None None None)) None))]) (AddBool false) (Some (JInt (1)%Z)) None (Some (EK CString (mkK None None None None (AddBool true) None None false None None None None None None None None None (Some (JInt (3)%Z)) None None None (AddBool true) None None None None None))) (Some [((s_ "a"), (DepNames [(s_ "b")])); ((s_ "c"), (DepElem (EK CElement (mkK None None None None (AddBool true) None None false None None None None None None None None None None (Some [(s_ "a")]) None None (AddBool true) None None None None None))))]) None)).
Definition ex3_good : list json := [(JObj [((s_ "a"), (JStr (s_ "q"))); ((s_ "b"), (JArr [(JInt (0)%Z); (JInt (2)%Z)]))]); (JObj [((s_ "a"), (JStr (s_ "z"))); ((s_ "b"), (JArr [])); ((s_ "c"), (JFlt (S754_finite false 7881299347898368%positive (-51)%Z))); ((s_ "x1"), (JInt (0)%Z))]); (JObj [((s_ "a"), (JStr (s_ "ab"))); ((s_ "b"), (JArr [(JInt (4)%Z)])); ((s_ "c"), (JBool false))])].
Definition ex3_bad : list json := [(JObj [((s_ "b"), (JArr [(JInt (0)%Z)]))]); (JObj [((s_ "a"), (JStr (s_ "Q"))); ((s_ "b"), (JArr []))]); (JObj [((s_ "a"), (JStr (s_ "q")))]); (JObj [((s_ "a"), (JStr (s_ "q"))); ((s_ "b"), (JArr [(JInt (1)%Z)]))]); (JObj [((s_ "a"), (JStr (s_ "q"))); ((s_ "b"), (JArr [(JInt (2)%Z); (JInt (2)%Z)]))]); (JObj [((s_ "a"), (JStr (s_ "q"))); ((s_ "b"), (JArr [(JInt (0)%Z); (JInt (2)%Z); (JInt (4)%Z)]))]); (JObj [((s_ "a"), (JStr (s_ "q"))); ((s_ "b"), (JArr [])); ((s_ "c"), (JInt (11)%Z))]); (JObj [((s_ "a"), (JStr (s_ "q"))); ((s_ "b"), (JArr [])); ((s_ "x1"), JNull)]); (JObj [((s_ "a"), (JStr (s_ "q"))); ((s_ "b"), (JArr [])); ((s_ "zz"), (JInt (1)%Z))]); (JObj [((s_ "a"), (JStr (s_ "q"))); ((s_ "b"), (JArr [])); ((s_ "long"), (JInt (1)%Z))]); (JObj [])].

Example ex3_in_fragment : dslb 10 ex3_elem = true.
Proof. vm_compute. reflexivity. Qed.

Example ex3_premise : dsl ex3_elem.
Proof. exact (dslb_sound 10 ex3_elem ex3_in_fragment). Qed.

Example ex3_document_decides_like_tree :
  let doc := ser_top true true [] ex3_elem in
  forallb (fun v => is_ok (build ex3_O ex3_elem (Some v)) && v6 ex3_O WNever doc v) ex3_good = true /\
  forallb (fun v => match build ex3_O ex3_elem (Some v) with Rej => negb (v6 ex3_O WNever doc v) | _ => false end) ex3_bad = true.
Proof. vm_compute. split; reflexivity. Qed.
