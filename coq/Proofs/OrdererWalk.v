(* OrdererWalk.v — termination of get_children's walk with its shared `seen` set: on every
   identity graph whose child ids are node ids, the model's fuel S (length G) is never
   exhausted, whatever the sharing and the cycles.  (Each nested call adds one node to
   `seen`; `seen` never holds a node twice; so the depth is at most the number of nodes.) *)
From Coq Require Import Lia.
From Statham.Model Require Import Str Orderer.
From Statham.Proofs Require Import OrdererSound.

Section Walk.
  Variable paths : list str.
  Variable G : graph.

  Definition wf_graph : Prop := forall n c, In c (kids paths G n) -> c < length G.
  Definition bounded (l : list nat) : Prop := forall x, In x l -> x < length G.

  Lemma memn_In n l : memn n l = true <-> In n l.
  Proof.
    unfold memn; rewrite existsb_exists; split.
    - intros (x & Hx & E); apply Nat.eqb_eq in E; now subst.
    - intros H; exists n; split; auto; apply Nat.eqb_refl.
  Qed.

  Lemma bounded_length l : NoDup l -> bounded l -> length l <= length G.
  Proof.
    intros Hnd Hb. rewrite <- (seq_length (length G) 0).
    apply NoDup_incl_length; auto. intros x Hx; apply in_seq; specialize (Hb x Hx); lia.
  Qed.

  Definition good (sn0 : list nat) (r : option (list nat * list nat)) : Prop :=
    exists ys sn, r = Some (ys, sn) /\ NoDup sn /\ incl sn0 sn /\ bounded sn /\ bounded ys.

  Hypothesis Hwf : wf_graph.

  Lemma dfs_total : forall fuel n seen,
    NoDup seen -> bounded seen -> n < length G -> length G - length seen < fuel ->
    good seen (dfs paths G fuel n seen).
  Proof.
    induction fuel as [|f IH]; intros n seen Hnd Hb Hn Hf; [lia|].
    cbn [dfs]. destruct (memn n seen) eqn:Em.
    { exists [n], seen; repeat split; auto; [apply incl_refl|intros x [<-|[]]; auto]. }
    assert (~ In n seen) as Hni by (rewrite <- memn_In; congruence).
    assert (NoDup (n :: seen)) as Hnd1 by (constructor; auto).
    assert (bounded (n :: seen)) as Hb1 by (intros x [<-|Hx]; auto).
    pose proof (bounded_length _ Hnd1 Hb1) as Hlen1; simpl in Hlen1.
    assert (forall c, In c (kids paths G n) -> c < length G) as Hk by (intros c; apply Hwf).
    match goal with |- good _ (?F _ _ _) =>
      assert (forall cs ys sn, (forall c, In c cs -> c < length G) -> NoDup sn -> bounded sn ->
                incl (n :: seen) sn -> bounded ys -> good seen (F cs ys sn)) as Hloop end.
    { induction cs as [|c cs IHc]; intros ys sn Hk' Hnds Hbs Hinc Hys.
      - exists ys, sn; repeat split; auto. intros x Hx; apply Hinc; right; exact Hx.
      - pose proof (NoDup_incl_length Hnd1 Hinc) as Hl. simpl in Hl.
        destruct (IH c sn Hnds Hbs (Hk' c (or_introl eq_refl))) as (ys' & sn' & E & Hnd' & Hinc' & Hb' & Hys'); [lia|].
        rewrite E. apply IHc; auto.
        + intros x Hx; apply Hk'; right; exact Hx.
        + intros x Hx; apply Hinc', Hinc, Hx.
        + intros x Hx; apply in_app_or in Hx as [Hx|[<-|Hx]]; auto. apply Hk'; left; reflexivity. }
    apply Hloop; auto; [apply incl_refl|intros x []].
  Qed.

  Theorem get_children_total n : n < length G -> get_children paths G n <> None.
  Proof.
    intros Hn. unfold get_children.
    destruct (dfs_total (S (length G)) n [] (NoDup_nil _)) as (ys & sn & E & _); auto.
    - intros x [].
    - simpl; lia.
    - rewrite E; discriminate.
  Qed.

  Lemma get_children_bounded n : n < length G ->
    exists ys, get_children paths G n = Some ys /\ bounded ys.
  Proof.
    intros Hn. unfold get_children.
    destruct (dfs_total (S (length G)) n [] (NoDup_nil _)) as (ys & sn & E & _ & _ & _ & Hys); auto.
    - intros x [].
    - simpl; lia.
    - rewrite E; eauto.
  Qed.

  Lemma all_children_total roots : bounded roots ->
    exists cs, all_children paths G roots = Some cs /\ bounded cs.
  Proof.
    induction roots as [|r rs IH]; intros Hb; simpl.
    { exists []; split; auto; intros x []. }
    destruct (get_children_bounded r (Hb r (or_introl eq_refl))) as (a & -> & Ha).
    destruct IH as (b & -> & Hbb); [intros x Hx; apply Hb; right; exact Hx|].
    exists (a ++ b); split; auto. intros x Hx; apply in_app_or in Hx as [Hx|Hx]; auto.
  Qed.

  Lemma dep_pairs_total ocs : bounded ocs -> dep_pairs paths G ocs <> None.
  Proof.
    induction ocs as [|c r IH]; intros Hb; simpl; [discriminate|].
    destruct (get_children_bounded c (Hb c (or_introl eq_refl))) as (ys & -> & _).
    assert (dep_pairs paths G r <> None) as H by (apply IH; intros x Hx; apply Hb; right; exact Hx).
    destruct (dep_pairs paths G r); [discriminate|congruence].
  Qed.

  (* orderer() as a whole: the model's out-of-fuel value is unreachable *)
  Theorem orderer_total roots : bounded roots -> orderer paths G roots <> OOutOfFuel.
  Proof.
    intros Hb. destruct (all_children_total roots Hb) as (cs & E & Hcs).
    assert (exists ocs, get_object_classes paths G roots = Some ocs /\ bounded ocs) as (ocs & Eo & Ho).
    { unfold get_object_classes; rewrite E. eexists; split; [reflexivity|].
      intros x Hx; apply filter_In in Hx as [Hx _]; apply in_app_or in Hx as [Hx|Hx]; auto. }
    destruct (dep_pairs paths G ocs) as [ps|] eqn:Ep; [|now apply dep_pairs_total in Ep].
    eapply orderer_loop_total; eauto.
  Qed.
End Walk.

(* ---- the premises as checkers, so that the correspondence run discharges them per graph ---- *)
Lemma boundedb_sound G l : boundedb G l = true -> bounded G l.
Proof.
  unfold boundedb, bounded; rewrite forallb_forall; intros H x Hx.
  apply Nat.ltb_lt; auto.
Qed.

Lemma kids_out_of_range paths G n : length G <= n -> kids paths G n = [].
Proof.
  intros H. unfold kids, get_node. rewrite nth_overflow by exact H. simpl.
  induction paths as [|p r IH]; simpl; auto.
Qed.

Lemma wf_graphb_sound paths G : wf_graphb paths G = true -> wf_graph paths G.
Proof.
  unfold wf_graphb, wf_graph; rewrite forallb_forall; intros H n c Hc.
  destruct (Nat.lt_ge_cases n (length G)) as [Hn|Hn].
  - apply (boundedb_sound G _ (H n (proj2 (in_seq _ _ _) (conj (Nat.le_0_l _) Hn)))); exact Hc.
  - rewrite kids_out_of_range in Hc by exact Hn. destruct Hc.
Qed.

Theorem orderer_total_b paths G roots :
  wf_graphb paths G = true -> boundedb G roots = true -> orderer paths G roots <> OOutOfFuel.
Proof.
  intros Hw Hb. apply orderer_total; [now apply wf_graphb_sound|now apply boundedb_sound].
Qed.
