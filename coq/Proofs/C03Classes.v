(* C03Classes.v — the meaning theorem for element trees WITH object classes.  Part 1: the keyword
   lemmas of C03Meaning.v with the child serializer as a parameter Gs (there: `sub`, which writes a
   $ref for a class; here: Resolve.ser_inl, which writes the class in place).  Part 2: an object
   class means what its in-place document says (typed-object clause of Spec6.v, WCode waiver).
   Part 3: sim e (ser_inl e) for every tree of the fragment `cdsl`; with C03Resolve.resolve_doc_ser
   the document serialize_json emits, once its references are resolved, accepts exactly what the
   tree accepts. *)
From Coq Require String. Import String.StringSyntax.
From Coq Require Import Lia Btauto.
From Statham.Model Require Import Str Json Elem Equality Names PyNum Validate Tables Parser Spec6 Plain SerJson Sub SerFrag Resolve.
From Statham.Proofs Require Import StrFacts JsonEqProof MetaProof DefaultsProof ParserFacts ElemInd
     C03Lookup C01Vm C01Scalar C01Items C01Object C01Deep C01Plain C01Element C01Parse C03Meaning.
Local Open Scope string_scope.
Arguments s_ : simpl never.

Section G.
  Variable O : oracles.
  Variable w : wmode.
  Hypothesis Hw : w <> WAlways.
  Notation F := (v6 O w).
  Notation B := (build O).
  Notation sim := (sim O w).

  Variable Gs : elem -> json.
  Definition gsh (x : elem) : Prop := (exists l, Gs x = JObj l) \/ (x = ENothing /\ Gs x = JBool false).

  Ltac lits :=
    repeat match goal with |- context [str_eqb (s_ ?a) (s_ ?b)] =>
             let r := eval vm_compute in (str_eqb (s_ a) (s_ b)) in change (str_eqb (s_ a) (s_ b)) with r end;
    cbv iota.

  (* the local premise with the per-property clause Q and the tail of the keyword list as parameters:
     Q = "required and defaulted => also in the explicit list" and tail = json_type c for Element /
     typed elements; Q = True and tail = [type object; title] for object classes *)
  Definition props_okQ (Q : str * prop elem -> Prop) (o : option (list (str * prop elem))) : Prop :=
    match o with
    | Some l => NoDup (map (fun np => p_source (snd np)) l) /\
                Forall (fun np => p_source (snd np) <> [] /\ Q np) l
    | None => True
    end.
  Definition local_g (Q : str * prop elem -> Prop) (c : ecls) (k : kwds elem) : Prop :=
    lclean (k_const k) /\ (match k_enum k with Some l => clean (JArr l) = true | None => True end) /\
    same_but (filter_kw c k) k /\ (c = CArray -> k_items k <> None) /\
    (c <> CElement -> k_required k = None) /\
    props_okQ Q (k_properties k) /\
    okeys (k_patternProperties k) /\ okeys (k_dependencies k).

  Section EKcase.
    Variable c : ecls.
    Variable k : kwds elem.
    Variable Q : str * prop elem -> Prop.
    Variable tail : list (str * json).
    Hypothesis Htail : forall key, In key (keys tail) -> key = s_ "type" \/ key = s_ "title".
    Hypothesis Hloc : local_g Q c k.
    Hypothesis Hsubs : Forall (fun x => sim x (Gs x) /\ gsh x) (ksub k).
    Let kvs := ser_kwds true true Gs k ++ tail.

    Let Hs := Hsubs.
    Lemma subs_split :
      Forall (fun x => sim x (Gs x) /\ gsh x) (sub_items (k_items k)) /\
      Forall (fun x => sim x (Gs x) /\ gsh x) (sub_addl (k_additionalItems k)) /\
      Forall (fun x => sim x (Gs x) /\ gsh x) (sub_opt (k_contains k)) /\
      Forall (fun x => sim x (Gs x) /\ gsh x) (sub_props (k_properties k)) /\
      Forall (fun x => sim x (Gs x) /\ gsh x) (sub_pats (k_patternProperties k)) /\
      Forall (fun x => sim x (Gs x) /\ gsh x) (sub_addl (k_additionalProperties k)) /\
      Forall (fun x => sim x (Gs x) /\ gsh x) (sub_opt (k_propertyNames k)) /\
      Forall (fun x => sim x (Gs x) /\ gsh x) (sub_deps (k_dependencies k)).
    Proof.
      pose proof Hsubs as H. unfold ksub in H.
      repeat match type of H with Forall _ (_ ++ _) => let I1 := fresh "I" in apply Forall_app in H as [I1 H] end.
      repeat split; assumption.
    Qed.

    Lemma sub_shape x : gsh x -> (exists l, Gs x = JObj l) \/ (x = ENothing /\ Gs x = JBool false).
    Proof. auto. Qed.

    Lemma R_items : sim_items O w (k_items k) (lookup (s_ "items") kvs).
    Proof.
      unfold kvs. rewrite (lk_items Gs k tail Htail).
      destruct subs_split as (H & _). unfold sim_items.
      destruct (k_items k) as [[e|l]|]; cbn [items_json sub_items] in *.
      - inversion H as [|? ? [He Hn] _]; subst.
        destruct (sub_shape e Hn) as [(l & E)|(-> & E)]; rewrite E in *; eexists; split; try reflexivity; exact He.
      - exists l. split; [reflexivity|]. induction H as [|x r [Hx _] _ IH]; simpl; constructor; auto.
      - reflexivity.
    Qed.

    Lemma R_addl (a : addl elem) : Forall (fun x => sim x (Gs x) /\ gsh x) (sub_addl a) ->
      sim_addl O w a (addl_json Gs a).
    Proof.
      intros H. unfold sim_addl. destruct a as [[|]|e]; cbn [addl_json sub_addl] in *; try reflexivity; [now left|].
      inversion H as [|? ? [He Hn] _]; subst.
      destruct (sub_shape e Hn) as [(l & E)|(-> & E)]; rewrite E in *.
      - eexists; split; [reflexivity|exact He].
      - right. split; reflexivity.
    Qed.

    Lemma R_opt (o : option elem) : Forall (fun x => sim x (Gs x) /\ gsh x) (sub_opt o) ->
      sim_opt O w o (option_map Gs o).
    Proof.
      intros H. unfold sim_opt. destruct o as [e|]; cbn [option_map sub_opt] in *; [|reflexivity].
      inversion H as [|? ? [He _] _]; subst. eexists; split; [reflexivity|exact He].
    Qed.

    Lemma s_pats_keys l : keys (s_pats Gs l) = keys l.
    Proof. induction l as [|[n e] r IH]; simpl; congruence. Qed.
    Lemma s_deps_keys l : keys (s_deps Gs l) = keys l.
    Proof. induction l as [|[n [ns|e]] r IH]; simpl; congruence. Qed.

    Lemma R_pats : pats_rel O w kvs (k_patternProperties k).
    Proof.
      unfold pats_rel, kvs. rewrite (lk_pats Gs k tail Htail).
      destruct subs_split as (_ & _ & _ & _ & H & _).
      destruct (k_patternProperties k) as [l|]; cbn [option_map sub_pats] in *; [|reflexivity].
      exists l. split; [reflexivity|]. unfold sim_assoc.
      induction l as [|[n e] r IH]; simpl in *; constructor.
      - inversion H as [|? ? [He _] _]; subst. split; [reflexivity|exact He].
      - apply IH. now inversion H.
    Qed.

    Lemma R_deps : deps_rel O w kvs (k_dependencies k).
    Proof.
      unfold deps_rel, kvs. rewrite (lk_deps Gs k tail Htail).
      destruct subs_split as (_ & _ & _ & _ & _ & _ & _ & H).
      destruct Hloc as (_ & _ & _ & _ & _ & _ & _ & Hok).
      destruct (k_dependencies k) as [l|]; cbn [option_map sub_deps okeys] in *; [|reflexivity].
      split; [now rewrite s_deps_keys|]. exists l. split; [reflexivity|]. split.
      - intros key d Hin. clear Hok. induction l as [|[n d0] r IH]; [contradiction|].
        cbn [flat_map] in H. apply Forall_app in H as [H0 Hr].
        destruct Hin as [E|Hin].
        + inversion E; subst. destruct d as [ns|e]; cbn [s_deps dep_elems snd] in *.
          * left. exists (map JStr ns). split; [now left|]. now rewrite jstr_list_map.
          * right. inversion H0 as [|? ? [He Hn] _]; subst. exists e, (Gs e). split; [reflexivity|].
            split; [now left|]. split; [|exact He]. destruct Hn as [(l0 & E0)|(_ & E0)]; rewrite E0; reflexivity.
        + destruct (IH Hr Hin) as [(l0 & Hl & E)|(e & S0 & E & Hl & Hs' & He)].
          * left. exists l0. split; [|exact E]. destruct d0; simpl; now right.
          * right. exists e, S0. repeat split; auto. destruct d0; simpl; now right.
      - intros key S0 Hin _. rewrite <- s_deps_keys. unfold keys. apply in_map_iff. exists (key, S0). auto.
    Qed.

    (* properties *)
    Lemma s_props_map l : Forall (fun np : str * prop elem => p_source (snd np) <> []) l ->
      s_props true Gs l = map (fun np => (p_source (snd np), Gs (p_elem (snd np)))) l.
    Proof.
      induction 1 as [|[n p] r Hx _ IH]; simpl; [reflexivity|]. rewrite IH. f_equal. f_equal.
      cbn [snd] in Hx. destruct (p_source p); [congruence|reflexivity].
    Qed.

    Lemma props_lookup l : NoDup (map (fun np : str * prop elem => p_source (snd np)) l) ->
      Forall (fun np : str * prop elem => p_source (snd np) <> []) l ->
      Forall (fun x => sim x (Gs x) /\ gsh x) (map (fun np => p_elem (snd np)) l) ->
      forall key,
        match lookup key (s_props true Gs l) with
        | None => find_by_source (fun e => e) key l None = None
        | Some Sx => exists name req e, find_by_source (fun e => e) key l None = Some (name, req, e) /\ sim e Sx
        end.
    Proof.
      intros Hnd Hne Hs0 key. rewrite (s_props_map l Hne).
      destruct (lookup key (map (fun np => (p_source (snd np), Gs (p_elem (snd np)))) l)) as [Sx|] eqn:El.
      - apply lookup_In in El. apply in_map_iff in El as ([n p] & E & Hin). inversion E; subst. clear E. cbn [snd] in *.
        exists n, (p_required p), (p_elem p). split.
        + apply (find_by_source_unique (fun e => e) l Hnd n p None Hin).
        + rewrite Forall_forall in Hs0. apply Hs0. apply in_map_iff. exists (n, p). auto.
      - apply find_by_source_skip. apply lookup_None in El. intros Hk. apply El.
        unfold keys. rewrite map_map. exact Hk.
    Qed.

    Lemma R_props : props_rel O w kvs (k_properties k).
    Proof.
      unfold props_rel, kvs. rewrite (lk_properties Gs k tail Htail).
      destruct subs_split as (_ & _ & _ & H & _).
      destruct Hloc as (_ & _ & _ & _ & _ & Hpo & _).
      destruct (k_properties k) as [[|p0 r]|]; cbn [props_json find_by_source_o props_okQ sub_props] in *; try (intros key; reflexivity).
      destruct Hpo as [Hnd Hall].
      apply props_lookup; auto. eapply Forall_impl; [|exact Hall]. intros a [Ha _]. exact Ha.
    Qed.

    (* required *)
    Definition E_ := match k_required k with Some l => l | None => [] end.
    Definition PR_ := match k_properties k with Some ps => props_required ps | None => [] end.
    Definition M_ := match merged_required true k with Some l => l | None => [] end.

    Lemma FP_spec l : Forall (fun np : str * prop elem => p_source (snd np) <> []) l ->
      forall r, In r (required_of_props l) <-> exists np, In np l /\ p_required (snd np) = true /\ p_source (snd np) = r.
    Proof.
      intros Hne r. unfold required_of_props. rewrite in_map_iff. split.
      - intros ([n p] & E & Hf). apply filter_In in Hf as [Hin Hr]. exists (n, p). cbn [snd fst] in *.
        rewrite Forall_forall in Hne. specialize (Hne _ Hin). cbn [snd] in Hne.
        destruct (p_source p); [congruence|]. auto.
      - intros ([n p] & Hin & Hr & E). exists (n, p). split; [|apply filter_In; auto].
        cbn [snd fst] in *. rewrite Forall_forall in Hne. specialize (Hne _ Hin). cbn [snd] in Hne.
        destruct (p_source p); [congruence|exact E].
    Qed.

    Lemma PR_spec l r : In r (props_required l) <->
      exists np, In np l /\ p_required (snd np) = true /\ elem_default (p_elem (snd np)) = None /\ p_source (snd np) = r.
    Proof.
      unfold props_required. rewrite in_map_iff. split.
      - intros (np & E & Hf). apply filter_In in Hf as [Hin Hc]. apply andb_true_iff in Hc as [H1 H2].
        exists np. repeat split; auto. destruct (elem_default (p_elem (snd np))); [discriminate|reflexivity].
      - intros (np & Hin & H1 & H2 & E). exists np. split; [exact E|]. apply filter_In. split; [exact Hin|].
        now rewrite H1, H2.
    Qed.

    Hypothesis HQ : forall np, Q np -> p_required (snd np) = true ->
      elem_default (p_elem (snd np)) = None \/ In (p_source (snd np)) E_.

    Lemma M_spec r : In r M_ <-> In r E_ \/ In r PR_.
    Proof.
      unfold M_, merged_required, E_, PR_.
      destruct Hloc as (_ & _ & _ & _ & _ & Hpo & _).
      destruct (k_properties k) as [[|p0 l]|]; cbn [props_okQ] in Hpo.
      - cbn [props_required filter map]. destruct (match k_required k with Some l => l | None => [] end); simpl; tauto.
      - destruct Hpo as [_ Hall].
        set (E := match k_required k with Some l0 => l0 | None => [] end) in *.
        set (ps := p0 :: l) in *.
        assert (Hne : Forall (fun np : str * prop elem => p_source (snd np) <> []) ps).
        { eapply Forall_impl; [|exact Hall]. intros a [Ha _]. exact Ha. }
        assert (G : In r (E ++ filter (fun n => negb (mem_str n E)) (required_of_props ps)) <-> In r E \/ In r (props_required ps)).
        { rewrite in_app_iff, filter_In, (FP_spec ps Hne), PR_spec. split.
          - intros [H|[(np & Hin & Hr & Es) Hn]]; [now left|].
            rewrite Forall_forall in Hall. destruct (Hall _ Hin) as [_ Hd]. destruct (HQ _ Hd Hr) as [Hd0|Hd0].
            + right. exists np. auto.
            + left. now rewrite <- Es.
          - intros [H|(np & Hin & Hr & Hd & Es)]; [now left|].
            destruct (mem_str r E) eqn:Em; [left; now apply mem_str_In|].
            right. split; [exists np; auto|reflexivity]. }
        destruct (E ++ filter (fun n => negb (mem_str n E)) (required_of_props ps)) eqn:El; [|exact G]. simpl. exact G.
      - destruct (match k_required k with Some l => l | None => [] end); simpl; tauto.
    Qed.

    Lemma lk_req_list :
      match lookup (s_ "required") kvs with Some j => jstr_list j | None => [] end = M_.
    Proof.
      unfold kvs, M_. rewrite (lk_required Gs k tail Htail).
      destruct (merged_required true k); cbn [option_map]; [apply jstr_list_map|reflexivity].
    Qed.

    Lemma R_req : forall r, In r PR_ -> In r (match lookup (s_ "required") kvs with Some j => jstr_list j | None => [] end).
    Proof. intros r Hr. rewrite lk_req_list. apply M_spec. now right. Qed.

    (* ---- the element's record is the record the parser would build from the emitted list ---- *)
    Let K' := kw_record kvs (k_properties k) (k_items k) (k_patternProperties k) (k_propertyNames k)
                        (k_contains k) (k_dependencies k) (k_additionalProperties k) (k_additionalItems k).

    Lemma bridge_same : same_but k K'.
    Proof.
      destruct Hloc as (Hc & He & _).
      unfold same_but, K', kw_record.
      cbn [k_default k_const k_enum k_items k_additionalItems k_minItems k_maxItems k_uniqueItems
           k_contains k_minimum k_maximum k_exclusiveMinimum k_exclusiveMaximum k_multipleOf k_format
           k_pattern k_minLength k_maxLength k_required k_properties k_patternProperties
           k_additionalProperties k_minProperties k_maxProperties k_propertyNames k_dependencies
           k_description].
      unfold kvs.
      rewrite (lk_const Gs k _ Htail), (lk_enum Gs k _ Htail), (lk_minItems Gs k _ Htail), (lk_maxItems Gs k _ Htail),
              (lk_unique Gs k _ Htail), (lk_minimum Gs k _ Htail), (lk_maximum Gs k _ Htail),
              (lk_exmin Gs k _ Htail), (lk_exmax Gs k _ Htail), (lk_multipleOf Gs k _ Htail),
              (lk_format Gs k _ Htail), (lk_pattern Gs k _ Htail), (lk_minLength Gs k _ Htail),
              (lk_maxLength Gs k _ Htail), (lk_minProps Gs k _ Htail), (lk_maxProps Gs k _ Htail).
      repeat split; try reflexivity.
      - red in Hc. destruct (k_const k); [|reflexivity]. now rewrite clean_strip.
      - destruct (k_enum k) as [l|]; cbn [option_map]; [|reflexivity]. now rewrite clean_strip.
      - destruct (k_uniqueItems k); reflexivity.
      - destruct (k_format k); reflexivity.
      - destruct (k_pattern k); reflexivity.
    Qed.

    Lemma req_names_K' : required_names K' = M_ ++ PR_.
    Proof.
      unfold required_names, K', kw_record. cbn [k_required k_properties]. f_equal.
      pose proof lk_req_list as H. destruct (lookup (s_ "required") kvs); exact H.
    Qed.

    Lemma bridge_req (m : list (str * json)) :
      forallb (fun r => has_key r m) (required_names k) = forallb (fun r => has_key r m) (required_names K').
    Proof.
      rewrite req_names_K'. unfold required_names. fold E_. fold PR_.
      apply eq_true_iff_eq. rewrite !forallb_forall. split; intros H r Hr; apply H; rewrite in_app_iff in *.
      - destruct Hr as [Hr|Hr]; [|now right]. apply M_spec in Hr. exact Hr.
      - destruct Hr as [Hr|Hr]; [left; apply M_spec; now left|now right].
    Qed.

    Lemma comp_absent v : cl_comp F kvs v = true.
    Proof.
      unfold cl_comp. rewrite !wkey_lookup. unfold kvs.
      rewrite (lk_absent Gs k _ Htail "allOf"), (lk_absent Gs k _ Htail "anyOf"),
              (lk_absent Gs k _ Htail "oneOf"), (lk_absent Gs k _ Htail "not") by (cbn; tauto).
      reflexivity.
    Qed.

    Lemma Hconst' : lit_clean kvs "const".
    Proof. red. unfold kvs. rewrite (lk_const Gs k _ Htail). destruct Hloc as (Hc & _). exact Hc. Qed.
    Lemma Henum' : lit_clean kvs "enum".
    Proof.
      red. unfold kvs. rewrite (lk_enum Gs k _ Htail). destruct Hloc as (_ & He & _).
      destruct (k_enum k); cbn [option_map]; auto.
    Qed.
    Lemma Raddi' : sim_addl O w (k_additionalItems k) (lookup (s_ "additionalItems") kvs).
    Proof.
      unfold kvs. rewrite (lk_addi Gs k _ Htail). destruct subs_split as (_ & H & _).
      now apply R_addl.
    Qed.
    Lemma Raddp' : sim_addl O w (k_additionalProperties k) (lookup (s_ "additionalProperties") kvs).
    Proof.
      unfold kvs. rewrite (lk_addp Gs k _ Htail). destruct subs_split as (_ & _ & _ & _ & _ & H & _).
      now apply R_addl.
    Qed.
    Lemma Rcontains' : sim_opt O w (k_contains k) (lookup (s_ "contains") kvs).
    Proof. unfold kvs. rewrite (lk_contains Gs k _ Htail). destruct subs_split as (_ & _ & H & _). now apply R_opt. Qed.
    Lemma Rpnames' : sim_opt O w (k_propertyNames k) (lookup (s_ "propertyNames") kvs).
    Proof. unfold kvs. rewrite (lk_pnames Gs k _ Htail). destruct subs_split as (_ & _ & _ & _ & _ & _ & H & _). now apply R_opt. Qed.

    Lemma type_lookup : lookup (s_ "type") kvs = lookup (s_ "type") tail.
    Proof. unfold kvs. apply lk_type. Qed.

    Lemma cl_type_c (Et : tail = json_type c) v : cl_type kvs v = type_ok c v.
    Proof.
      unfold cl_type. rewrite type_lookup, Et. destruct c; cbn [json_type lookup]; lits; cbv iota;
        try reflexivity; destruct v; vm_compute; reflexivity.
    Qed.

  End EKcase.

  Definition Qek (k : kwds elem) (np : str * prop elem) : Prop :=
    p_required (snd np) = true ->
    elem_default (p_elem (snd np)) = None \/ In (p_source (snd np)) (match k_required k with Some l => l | None => [] end).

  Lemma local_dsl_g c k : local_dsl (EK c k) -> local_g (Qek k) c k.
  Proof. intros H. exact H. Qed.

  Lemma Htail_c c : forall key, In key (keys (json_type c)) -> key = s_ "type" \/ key = s_ "title".
  Proof. destruct c; simpl; intuition. Qed.

  Theorem ek_meaning c k (Hloc : local_dsl (EK c k))
          (Hsubs : Forall (fun x => sim x (Gs x) /\ gsh x) (ksub k)) v :
    jwf v -> om (B (EK c k) (Some v)) (F (JObj (ser_kwds true true Gs k ++ json_type c)) v).
  Proof.
    intros Hv. set (kvs := ser_kwds true true Gs k ++ json_type c).
    set (K' := kw_record kvs (k_properties k) (k_items k) (k_patternProperties k) (k_propertyNames k)
                        (k_contains k) (k_dependencies k) (k_additionalProperties k) (k_additionalItems k)).
    pose proof (Htail_c c) as Ht. pose proof (local_dsl_g c k Hloc) as Hg.
    assert (HQ : forall np, Qek k np -> p_required (snd np) = true ->
                 elem_default (p_elem (snd np)) = None \/ In (p_source (snd np)) (E_ k)) by (intros np H; exact H).
    cbn [v6]. unfold kvs at 5. rewrite (comp_absent k (json_type c) Ht), andb_true_r.
    unfold kvs at 1. rewrite (cl_type_c c k (Qek k) (json_type c) Hg eq_refl).
    pose proof (bridge_same c k (Qek k) (json_type c) Ht Hg) as Hbs.
    pose proof (bridge_req c k (Qek k) (json_type c) Ht Hg HQ) as Hbr.
    fold kvs in Hbs, Hbr. fold K' in Hbs, Hbr.
    pose proof (Hconst' c k (Qek k) (json_type c) Ht Hg) as X1. pose proof (Henum' c k (Qek k) (json_type c) Ht Hg) as X2.
    pose proof (R_items k (json_type c) Ht Hsubs) as X3. pose proof (Raddi' k (json_type c) Ht Hsubs) as X4.
    pose proof (Rcontains' k (json_type c) Ht Hsubs) as X5. pose proof (Rpnames' k (json_type c) Ht Hsubs) as X6.
    pose proof (R_props c k (Qek k) (json_type c) Ht Hg Hsubs) as X7.
    assert (X8 : pats_rel O w kvs (k_patternProperties k)) by (eapply R_pats; eauto).
    pose proof (Raddp' k (json_type c) Ht Hsubs) as X9.
    assert (X10 : deps_rel O w kvs (k_dependencies k)) by (eapply R_deps; eauto).
    assert (X11 : forall r, In r (PR_ k) -> In r (match lookup (s_ "required") kvs with Some j => jstr_list j | None => [] end))
      by (eapply R_req; eauto).
    fold kvs in X1, X2, X3, X4, X5, X6, X7, X9.
    destruct (ecls_eqb c CElement) eqn:Ec.
    - (* Element *)
      assert (c = CElement) by (destruct c; try discriminate; reflexivity). subst c.
      rewrite (build_same O CElement k K' v Hbs Hbr).
      eapply om_ext.
      + apply (untyped_om O w kvs (k_properties k) (k_items k) (k_patternProperties k) (k_propertyNames k)
                          (k_contains k) (k_dependencies k) (k_additionalProperties k) (k_additionalItems k)
                          X1 X2 X3 X4 X5 X6 X7 X8 X9 X10 X11).
        * intros name. apply (waived_false w Hw kvs name). red. unfold kvs. rewrite (type_lookup k (json_type CElement)). exact I.
        * exact Hv.
      + reflexivity.
    - (* typed *)
      destruct Hloc as (_ & _ & Hsig & Harr & Hreqn & _).
      assert (Hc1 : c <> CElement) by (intros ->; discriminate).
      assert (Hrq0 : forall k0 : kwds elem, k_required k0 = None -> k_properties k0 = None -> required_names k0 = []).
      { intros k0 E1 E2. unfold required_names. now rewrite E1, E2. }
      assert (Hfp : forall k0 : kwds elem, k_required (filter_kw c k0) = None /\ k_properties (filter_kw c k0) = None).
      { intros k0. unfold filter_kw. cbn [k_required k_properties]. destruct c; try congruence; split; reflexivity. }
      assert (Hkp : k_properties k = None).
      { destruct Hsig as (_ & _ & _ & _ & _ & _ & _ & _ & _ & _ & _ & _ & _ & _ & _ & _ & _ & E & _).
        rewrite <- E. apply Hfp. }
      assert (E1 : B (EK c k) (Some v) = B (EK c (filter_kw c K')) (Some v)).
      { rewrite <- (build_same O c (filter_kw c k) k v Hsig).
        - apply build_same; [apply same_but_filter, Hbs|].
          intros m. destruct (Hfp k) as [A1 A2]. destruct (Hfp K') as [A3 A4].
          now rewrite (Hrq0 _ A1 A2), (Hrq0 _ A3 A4).
        - intros m. destruct (Hfp k) as [A1 A2]. now rewrite (Hrq0 _ A1 A2), (Hrq0 _ (Hreqn Hc1) Hkp). }
      rewrite E1.
      destruct (ecls_eqb c CArray) eqn:Ea.
      + assert (c = CArray) by (destruct c; try discriminate; reflexivity). subst c.
        assert (Earr : arr_record K' = filter_kw CArray K').
        { unfold arr_record. assert (Ei : k_items (filter_kw CArray K') = k_items k) by reflexivity.
          rewrite Ei. destruct (k_items k); [reflexivity|]. exfalso. now apply Harr. }
        rewrite <- Earr. eapply om_ext.
        * apply (array_om O w kvs (k_properties k) (k_items k) (k_patternProperties k) (k_propertyNames k)
                          (k_contains k) (k_dependencies k) (k_additionalProperties k) (k_additionalItems k)
                          X1 X2 X3 X4 X5 v Hv).
        * destruct v; try reflexivity. cbn [type_ok cl_object andb]. now rewrite andb_true_r.
      + assert (Hc2 : c <> CArray) by (intros ->; discriminate).
        eapply om_ext.
        * apply (typed_scalar_om O kvs (k_properties k) (k_items k) (k_patternProperties k) (k_propertyNames k)
                          (k_contains k) (k_dependencies k) (k_additionalProperties k) (k_additionalItems k)
                          X1 X2 c v Hc1 Hc2).
        * destruct (type_ok c v) eqn:Et; [|reflexivity].
          destruct (scalar_value_clauses O w kvs c v Hc1 Hc2 Et) as [-> ->]. cbn [andb]. now rewrite !andb_true_r.
  Qed.

  (* ---- an object class, written in place ---- *)
  Section ObjCase.
    Hypothesis Hwc : w = WCode.
    Variables (n : str) (b : list str) (k : kwds elem).
    Hypothesis Gdef : forall x, In x (ksub k) -> schema_has_default (Gs x) = match elem_default x with Some _ => true | None => false end.
    Let tail : list (str * json) := [(s_ "type", JStr (s_ "object")); (s_ "title", JStr n)].
    Let kvs := ser_kwds true true Gs k ++ tail.
    Hypothesis Hloc : local_g (fun _ => True) CElement k.
    (* an explicitly required name is not the JSON name of a defaulted property (the document waives a
       required name whose property schema has a default; the class never waives an explicit name) *)
    Hypothesis Hexp : forall r, In r (E_ k) ->
      forall np, In np (match k_properties k with Some l => l | None => [] end) -> p_source (snd np) = r ->
      elem_default (p_elem (snd np)) = None.
    Hypothesis Hsubs : Forall (fun x => sim x (Gs x) /\ gsh x) (ksub k).

    Lemma Htail_o : forall key, In key (keys tail) -> key = s_ "type" \/ key = s_ "title".
    Proof. intros key [<-|[<-|[]]]; auto. Qed.

    Let props0 := match k_properties k with Some l => l | None => [] end.

    Lemma props0_ok : NoDup (map (fun np : str * prop elem => p_source (snd np)) props0) /\
                      Forall (fun np : str * prop elem => p_source (snd np) <> []) props0.
    Proof.
      destruct Hloc as (_ & _ & _ & _ & _ & Hpo & _). unfold props0.
      destruct (k_properties k) as [l|]; cbn [props_okQ] in Hpo; [|split; constructor].
      destruct Hpo as [H1 H2]. split; [exact H1|]. eapply Forall_impl; [|exact H2]. intros a [Ha _]. exact Ha.
    Qed.

    Lemma props0_sub np : In np props0 -> In (p_elem (snd np)) (ksub k).
    Proof.
      intros Hin. unfold ksub. rewrite !in_app_iff. do 3 right. left. unfold props0 in Hin.
      destruct (k_properties k) as [l|]; [|contradiction]. cbn [sub_props]. apply in_map_iff. exists np. auto.
    Qed.

    Definition pk : list (str * json) := map (fun np : str * prop elem => (p_source (snd np), Gs (p_elem (snd np)))) props0.

    Lemma props_kvs : lookup (s_ "properties") kvs = match props0 with [] => None | _ => Some (JObj pk) end.
    Proof.
      unfold kvs. rewrite (lk_properties Gs k tail Htail_o). unfold pk, props0.
      destruct props0_ok as [_ Hne]. unfold props0 in Hne.
      destruct (k_properties k) as [[|p0 r]|]; cbn [props_json]; try reflexivity.
      now rewrite (s_props_map (p0 :: r) Hne).
    Qed.

    Lemma typed_kvs : typed_object kvs = true.
    Proof. unfold typed_object, kvs. rewrite (type_lookup k tail). cbn [tail lookup]. lits. reflexivity. Qed.

    Lemma waived_spec name : waived w kvs name = true <->
      exists np, In np props0 /\ p_source (snd np) = name /\ elem_default (p_elem (snd np)) <> None.
    Proof.
      unfold waived. rewrite Hwc, typed_kvs, props_kvs. cbn [andb].
      destruct props0_ok as [Hnd _].
      assert (Hk : keys pk = map (fun np : str * prop elem => p_source (snd np)) props0).
      { unfold pk, keys. rewrite map_map. reflexivity. }
      destruct props0 as [|p0 r] eqn:Ep.
      - split; [discriminate|]. intros (np & [] & _).
      - rewrite <- Ep in *. clear Ep. split.
        + destruct (lookup name pk) as [Sp|] eqn:El; [|discriminate]. intros Hd.
          apply lookup_In in El. unfold pk in El. apply in_map_iff in El as (np & E & Hin). inversion E; subst.
          exists np. split; [exact Hin|]. split; [reflexivity|]. rewrite (Gdef _ (props0_sub np Hin)) in Hd. destruct (elem_default (p_elem (snd np))); [discriminate|discriminate].
        + intros (np & Hin & Es & Hd).
          assert (Hl : lookup name pk = Some (Gs (p_elem (snd np)))).
          { apply In_lookup; [now rewrite Hk|]. unfold pk. apply in_map_iff. exists np. rewrite Es. auto. }
          rewrite Hl, (Gdef _ (props0_sub np Hin)). destruct (elem_default (p_elem (snd np))); [reflexivity|congruence].
    Qed.

    Lemma Mm_spec r : In r (M_ k) <-> In r (E_ k) \/ In r (required_of_props props0).
    Proof.
      unfold M_, merged_required, E_, props0.
      destruct (k_properties k) as [[|p0 l]|].
      - cbn. destruct (match k_required k with Some l => l | None => [] end); simpl; tauto.
      - set (E := match k_required k with Some l0 => l0 | None => [] end).
        assert (G0 : In r (E ++ filter (fun n0 => negb (mem_str n0 E)) (required_of_props (p0 :: l))) <->
                     In r E \/ In r (required_of_props (p0 :: l))).
        { rewrite in_app_iff, filter_In. split.
          - intros [H|[H _]]; auto.
          - intros [H|H]; [now left|]. destruct (mem_str r E) eqn:Em; [left; now apply mem_str_In|right; auto]. }
        destruct (E ++ filter (fun n0 => negb (mem_str n0 E)) (required_of_props (p0 :: l))) eqn:El; [|exact G0]. simpl. exact G0.
      - cbn. destruct (match k_required k with Some l => l | None => [] end); simpl; tauto.
    Qed.

    Lemma req_cls m : forallb (fun r => has_key r m) (required_names k) = req_specw w kvs m.
    Proof.
      destruct props0_ok as [Hnd Hne].
      assert (Ereq : req_specw w kvs m = forallb (fun name => has_key name m || waived w kvs name) (M_ k)).
      { unfold req_specw, kvs at 1. rewrite (lk_required Gs k tail Htail_o). unfold M_.
        destruct (merged_required true k) as [l|]; cbn [option_map]; [|reflexivity].
        induction l as [|x l IH]; simpl; [reflexivity|]. now rewrite IH. }
      rewrite Ereq. unfold required_names. fold (E_ k). change (match k_properties k with Some ps => props_required ps | None => [] end) with (PR_ k).
      assert (EPR : PR_ k = props_required props0).
      { unfold PR_, props0. destruct (k_properties k); reflexivity. }
      apply eq_true_iff_eq. rewrite !forallb_forall. split.
      - intros H name Hn. apply Mm_spec in Hn. apply orb_true_iff.
        destruct Hn as [Hn|Hn]; [left; apply H; apply in_or_app; now left|].
        apply (FP_spec props0 Hne) in Hn. destruct Hn as (np & Hin & Hr & Es).
        destruct (elem_default (p_elem (snd np))) eqn:Ed.
        + right. apply waived_spec. exists np. repeat split; auto. congruence.
        + left. apply H. apply in_or_app. right. rewrite EPR. apply PR_spec. exists np. auto.
      - intros H r Hr. apply in_app_iff in Hr.
        assert (Hm : In r (M_ k)).
        { apply Mm_spec. destruct Hr as [Hr|Hr]; [now left|right].
          rewrite EPR in Hr. apply PR_spec in Hr. destruct Hr as (np & Hin & H1 & _ & Es).
          apply (FP_spec props0 Hne). exists np. auto. }
        specialize (H r Hm). apply orb_true_iff in H as [H|H]; [exact H|].
        exfalso. apply waived_spec in H. destruct H as (np & Hin & Es & Hd).
        destruct Hr as [Hr|Hr].
        + apply Hd. exact (Hexp r Hr np Hin Es).
        + rewrite EPR in Hr. apply PR_spec in Hr. destruct Hr as (np' & Hin' & _ & Hd' & Es').
          (* the property with this JSON name is unique *)
          assert (np' = np).
          { clear - Hnd Hin Hin' Es Es'. induction props0 as [|x l IH]; [contradiction|].
            simpl in Hnd. inversion Hnd as [|? ? Hn Hr]; subst.
            destruct Hin as [->|Hin], Hin' as [->|Hin']; auto.
            - exfalso. apply Hn. apply in_map_iff. exists np'. split; [congruence|exact Hin'].
            - exfalso. apply Hn. apply in_map_iff. exists np. split; [congruence|exact Hin]. }
          subst np'. contradiction.
    Qed.

    Theorem eobj_meaning v : jwf v -> om (B (EObj n b k) (Some v)) (F (JObj kvs) v).
    Proof.
      intros Hv.
      pose proof Htail_o as Ht.
      pose proof (Hconst' CElement k _ tail Ht Hloc) as X1. pose proof (Henum' CElement k _ tail Ht Hloc) as X2.
      pose proof (Rpnames' k tail Ht Hsubs) as X6.
      pose proof (R_props CElement k _ tail Ht Hloc Hsubs) as X7.
      assert (X8 : pats_rel O w kvs (k_patternProperties k)) by (eapply R_pats; eauto).
      pose proof (Raddp' k tail Ht Hsubs) as X9.
      assert (X10 : deps_rel O w kvs (k_dependencies k)) by (eapply R_deps; eauto).
      pose proof (bridge_same CElement k _ tail Ht Hloc) as Hbs.
      fold kvs in X1, X2, X6, X7, X9, Hbs.
      cbn [v6]. unfold kvs at 5. rewrite (comp_absent k tail Ht), andb_true_r. fold kvs.
      assert (Ety : cl_type kvs v = has_type (s_ "object") v).
      { unfold cl_type, kvs. rewrite (type_lookup k tail). cbn [tail lookup]. lits. reflexivity. }
      rewrite Ety.
      assert (Hno : forall v0, (match v0 with JObj _ => False | _ => True end) -> has_type (s_ "object") v0 = false).
      { intros [| | | | | |m0] Hm0; try contradiction; vm_compute; reflexivity. }
      destruct v as [| | | | | |m]; try (rewrite Hno by exact I; cbn [build with_default]; reflexivity).
      eapply om_ext.
      - eapply (build_obj_om O n b k m).
        + apply vall_vm. repeat (constructor; [apply vm_vb|]). constructor.
        + eapply (deep_vm_obj O w kvs (k_properties k) None (k_patternProperties k) (k_propertyNames k) None (k_dependencies k)
                              (k_additionalProperties k) (AddBool true) X6 X10 _ m Hv); reflexivity.
        + apply (members_vm O w kvs (k_properties k) (k_patternProperties k) (k_additionalProperties k) X7 X8 X9 k eq_refl eq_refl eq_refl m Hv).
      - assert (Hht : has_type (s_ "object") (JObj m) = true) by (vm_compute; reflexivity). rewrite Hht.
        rewrite cl_scalar_obj, (cl_object_unfold_w O w kvs (k_dependencies k) X10).
        change (cl_items F kvs (JObj m)) with true.
        unfold deep_list. cbn [forallb]. rewrite !andb_true_r.
        rewrite (req_cls m).
        replace (k_minProperties k) with (lookup (s_ "minProperties") kvs) by (unfold kvs; apply (lk_minProps Gs k tail Ht)).
        replace (k_maxProperties k) with (lookup (s_ "maxProperties") kvs) by (unfold kvs; apply (lk_maxProps Gs k tail Ht)).
        rewrite !thr_clause.
        destruct Hbs as (Ec & Ee & _). rewrite Ec, Ee.
        rewrite (const_entry kvs _ _ _ _ _ _ _ _ X1), (enum_entry kvs _ _ _ _ _ _ _ _ X2).
        match goal with |- context [addpv_b O ?k' (JObj m)] => set (kr := k') end.
        destruct (forallb (fun kx => member_b O w kvs (fst kx) (snd kx)) m) eqn:Em.
        + assert (Ea : addpv_b O kr (JObj m) = true).
          { unfold addpv_b. destruct (addl_truthy (k_additionalProperties kr)) eqn:Et; [reflexivity|].
            apply forallb_forall. intros [key x] Hin. cbn [fst].
            apply jwf_obj in Hv as [_ Hvals]. rewrite Forall_forall in Hvals. rewrite forallb_forall in Em.
            eapply (declared_implied O w kvs (k_properties k) (k_patternProperties k) (k_additionalProperties k) X7 X8 X9 kr eq_refl eq_refl key x).
            - exact (Hvals _ Hin).
            - exact Et.
            - exact (Em _ Hin). }
          rewrite Ea. cbn [andb].
          repeat match goal with |- context [on kvs ?s0 ?c] => generalize (on kvs s0 c); intro end.
          generalize (req_specw w kvs m) (deps_spec O w kvs (JObj m) m) (pnames_spec O w kvs m). intros. btauto.
        + repeat match goal with |- context [on kvs ?s0 ?c] => generalize (on kvs s0 c); intro end.
          generalize (req_specw w kvs m) (deps_spec O w kvs (JObj m) m) (pnames_spec O w kvs m). intros.
          generalize (addpv_b O kr (JObj m)). intros. btauto.
    Qed.
  End ObjCase.
End G.

(* ---- Part 3: every tree of the fragment means what its in-place document says ---- *)
Definition local_c (e : elem) : Prop :=
  match e with
  | EK c k => local_dsl (EK c k)
  | EComp _ es _ => es <> []
  | EObj _ _ k =>
    local_g (fun _ => True) CElement k /\
    (forall r, In r (E_ k) ->
       forall np, In np (match k_properties k with Some l => l | None => [] end) -> p_source (snd np) = r ->
       elem_default (p_elem (snd np)) = None)
  | _ => True
  end.

Inductive cdsl : elem -> Prop :=
| cdsl_i e : local_c e -> Forall cdsl (children e) -> cdsl e.

Lemma ser_inl_shape x : gsh ser_inl x.
Proof. destruct x; try (left; eexists; reflexivity). right. split; reflexivity. Qed.

Lemma ser_inl_default x :
  schema_has_default (ser_inl x) = match elem_default x with Some _ => true | None => false end.
Proof.
  assert (Ht : forall c key, In key (keys (json_type c)) -> key = s_ "type" \/ key = s_ "title")
    by (intros c; destruct c; simpl; intuition).
  destruct x as [c k| |y d|m es d|n b k]; cbn [ser_inl schema_has_default elem_default]; try reflexivity.
  - unfold has_key. rewrite (lk_default ser_inl k (json_type c) (Ht c)). destruct (k_default k); reflexivity.
  - destruct d; reflexivity.
  - destruct d, m; reflexivity.
  - unfold has_key. rewrite (lk_default ser_inl k [(s_ "type", JStr (s_ "object")); (s_ "title", JStr n)]).
    + destruct (k_default k); reflexivity.
    + intros key [<-|[<-|[]]]; auto.
Qed.

Section Classes.
  Variable O : oracles.
  Notation w := WCode.
  Notation F := (v6 O w).
  Notation B := (build O).
  Notation sim := (sim O w).

  Lemma Hw_code : w <> WAlways.
  Proof. discriminate. Qed.

  Lemma Forall2_inl es : Forall (fun x => cdsl x -> sim x (ser_inl x)) es -> Forall cdsl es ->
    Forall2 sim es (s_elems ser_inl es).
  Proof.
    induction 1 as [|x r Hx Hr IH]; intros Hd; simpl; [constructor|].
    inversion Hd; subst. constructor; auto.
  Qed.

  Ltac lits :=
    repeat match goal with |- context [str_eqb (s_ ?a) (s_ ?b)] =>
             let r := eval vm_compute in (str_eqb (s_ a) (s_ b)) in change (str_eqb (s_ a) (s_ b)) with r end;
    cbv iota.

  Theorem ser_inl_meaning : forall e, cdsl e -> sim e (ser_inl e).
  Proof.
    apply (elem_ind' (fun e => cdsl e -> sim e (ser_inl e))).
    intros e IH Hd. inversion Hd as [? Hloc Hch]; subst.
    assert (Hsubs : Forall (fun x => sim x (ser_inl x) /\ gsh ser_inl x) (children e)).
    { apply Forall_forall. intros x Hx. rewrite Forall_forall in IH, Hch. split; [exact (IH x Hx (Hch x Hx))|apply ser_inl_shape]. }
    destruct e as [c k| |x d|m es d|n b k]; cbn [children local_c] in *.
    - intros v Hv. cbn [ser_inl]. exact (ek_meaning O w Hw_code ser_inl c k Hloc Hsubs v Hv).
    - intros v _. reflexivity.
    - inversion IH as [|? ? Hx _]; subst. inversion Hch as [|? ? Hdx _]; subst.
      intros v Hv. cbn [ser_inl].
      rewrite (v6_single O w d "not" (ser_inl x) v) by (cbn; tauto).
      unfold cl_comp. cbn [wkey]. lits. cbn [andb].
      cbn [build with_default]. pose proof (Hx Hdx v Hv) as Hs.
      destruct (B x (Some v)); simpl in *; rewrite ?Hs; reflexivity.
    - pose proof (Forall2_inl es IH Hch) as H2.
      intros v Hv. cbn [ser_inl].
      assert (Hom : Forall2 om (map (fun e' => B e' (Some v)) es) (map (fun S0 => F S0 v) (s_elems ser_inl es))).
      { clear - H2 Hv. induction H2; simpl; constructor; auto. }
      cbn [build with_default]. rewrite map_elems_eq.
      destruct m; unfold mode_key.
      + rewrite (v6_single O w d "anyOf" _ v) by (cbn; tauto). unfold cl_comp. cbn [wkey]. lits. cbn [andb]. rewrite ?andb_true_r.
        eapply om_ext; [apply attempt_any; exact Hom|]. clear. induction (s_elems ser_inl es) as [|a l IHl]; simpl; [reflexivity|now rewrite IHl].
      + rewrite (v6_single O w d "oneOf" _ v) by (cbn; tauto). unfold cl_comp. cbn [wkey]. lits. cbn [andb]. rewrite ?andb_true_r.
        eapply om_ext; [apply attempt_one; exact Hom|]. now rewrite filter_map_len.
      + rewrite (v6_single O w d "allOf" _ v) by (cbn; tauto). unfold cl_comp. cbn [wkey]. lits. cbn [andb]. rewrite ?andb_true_r.
        eapply om_ext; [apply attempt_all; [|exact Hom]|].
        * destruct es; [congruence|discriminate].
        * clear. induction (s_elems ser_inl es) as [|a l IHl]; simpl; [reflexivity|now rewrite IHl].
    - destruct Hloc as [Hg Hexp]. intros v Hv. cbn [ser_inl].
      exact (eobj_meaning O w Hw_code ser_inl eq_refl n b k (fun x _ => ser_inl_default x) Hg Hexp Hsubs v Hv).
  Qed.
End Classes.
