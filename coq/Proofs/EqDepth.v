(* EqDepth.v — equal elements have the same depth: every child of one has an == partner among the children
   of the other, so the depth bound of one is a depth bound of the other. *)
From Coq Require String. Import String.StringSyntax.
From Coq Require Import List Bool Lia.
From Statham.Model Require Import Str Json Elem Sub Equality.
From Statham.Proofs Require Import StrFacts ElemInd EqualityProof C17Cong C03Defs.
Import ListNotations.
Local Open Scope list_scope.

Lemma elems_partner l1 : forall l2, elems_eq elem_eq l1 l2 = true ->
  forall x, In x l1 -> exists y, In y l2 /\ elem_eq x y = true.
Proof.
  induction l1 as [|a r IH]; intros [|b s] H x Hx; simpl in H; try discriminate; [contradiction|].
  apply andb_true_iff in H as [H1 H2]. destruct Hx as [<-|Hx].
  - exists b. split; [now left|exact H1].
  - destruct (IH s H2 x Hx) as (y & Hy & He). exists y. split; [now right|exact He].
Qed.

Lemma kwds_partner k1 k2 : kwds_eq elem_eq k1 k2 = true ->
  forall x, In x (ksub k1) -> exists y, In y (ksub k2) /\ elem_eq x y = true.
Proof.
  intros HE x Hx. unfold kwds_eq in HE.
  repeat match type of HE with _ && _ = true => let H2 := fresh "E" in apply andb_true_iff in HE as [HE H2] end.
  unfold ksub in *. rewrite !in_app_iff in Hx.
  assert (Hin : forall l, In l [sub_items (k_items k2); sub_addl (k_additionalItems k2); sub_opt (k_contains k2); sub_props (k_properties k2);
                                sub_pats (k_patternProperties k2); sub_addl (k_additionalProperties k2); sub_opt (k_propertyNames k2);
                                sub_deps (k_dependencies k2)] ->
                      forall y, In y l -> In y (sub_items (k_items k2) ++ sub_addl (k_additionalItems k2) ++ sub_opt (k_contains k2) ++
                                                sub_props (k_properties k2) ++ sub_pats (k_patternProperties k2) ++ sub_addl (k_additionalProperties k2) ++
                                                sub_opt (k_propertyNames k2) ++ sub_deps (k_dependencies k2))).
  { intros l Hl y Hy. rewrite !in_app_iff. cbn [In] in Hl.
    repeat (destruct Hl as [<-|Hl]; [tauto|]). contradiction. }
  assert (Haddl : forall a1 a2, addl_eq elem_eq a1 a2 = true -> In x (sub_addl a1) -> exists y, In y (sub_addl a2) /\ elem_eq x y = true).
  { intros [b1|e1] [b2|e2] H Hi; simpl in *; try discriminate; try contradiction.
    destruct Hi as [<-|[]]. exists e2. split; [now left|exact H]. }
  assert (Hopt : forall o1 o2, oelem_eq elem_eq o1 o2 = true -> In x (sub_opt o1) -> exists y, In y (sub_opt o2) /\ elem_eq x y = true).
  { intros [e1|] [e2|] H Hi; simpl in *; try discriminate; try contradiction.
    destruct Hi as [<-|[]]. exists e2. split; [now left|exact H]. }
  destruct Hx as [Hx|[Hx|[Hx|[Hx|[Hx|[Hx|[Hx|Hx]]]]]]].
  - (* items *)
    match goal with H : items_eq elem_eq (k_items k1) (k_items k2) = true |- _ => rename H into Hi end.
    destruct (k_items k1) as [[e1|l1]|], (k_items k2) as [[e2|l2]|]; simpl in Hi, Hx; try discriminate; try contradiction.
    + destruct Hx as [<-|[]]. exists e2. split; [apply (Hin [e2]); simpl; tauto|exact Hi].
    + destruct (elems_partner l1 l2 Hi x Hx) as (y & Hy & He). exists y. split; [apply (Hin l2); simpl; tauto|exact He].
  - match goal with H : addl_eq elem_eq (k_additionalItems k1) (k_additionalItems k2) = true |- _ => destruct (Haddl _ _ H Hx) as (y & Hy & He) end.
    exists y. split; [eapply Hin; [|exact Hy]; simpl; tauto|exact He].
  - match goal with H : oelem_eq elem_eq (k_contains k1) (k_contains k2) = true |- _ => destruct (Hopt _ _ H Hx) as (y & Hy & He) end.
    exists y. split; [eapply Hin; [|exact Hy]; simpl; tauto|exact He].
  - (* properties *)
    match goal with H : props_eq elem_eq (k_properties k1) (k_properties k2) = true |- _ => rename H into Hp end.
    destruct (k_properties k1) as [l1|], (k_properties k2) as [l2|]; simpl in Hp, Hx; try discriminate; try contradiction.
    apply andb_true_iff in Hp as [_ Hs]. rewrite props_sub_dsub in Hs.
    apply in_map_iff in Hx as ([n p] & <- & Hnp). destruct (dict_fwd _ _ _ Hs n p Hnp) as (q & Hq & HR).
    unfold prop_rel in HR. apply andb_true_iff in HR as [HR _]. apply andb_true_iff in HR as [He _].
    exists (p_elem q). split; [|exact He]. apply (Hin (sub_props (Some l2))); [simpl; tauto|]. cbn [sub_props]. apply in_map_iff. exists (n, q). auto.
  - (* patternProperties *)
    match goal with H : pats_eq elem_eq (k_patternProperties k1) (k_patternProperties k2) = true |- _ => rename H into Hp end.
    destruct (k_patternProperties k1) as [l1|], (k_patternProperties k2) as [l2|]; simpl in Hp, Hx; try discriminate; try contradiction.
    apply andb_true_iff in Hp as [_ Hs]. rewrite pats_sub_dsub in Hs.
    apply in_map_iff in Hx as ([n e] & <- & Hne). destruct (dict_fwd _ _ _ Hs n e Hne) as (e2 & He2 & HR).
    exists e2. split; [|exact HR]. apply (Hin (sub_pats (Some l2))); [simpl; tauto|]. cbn [sub_pats]. apply in_map_iff. exists (n, e2). auto.
  - match goal with H : addl_eq elem_eq (k_additionalProperties k1) (k_additionalProperties k2) = true |- _ => destruct (Haddl _ _ H Hx) as (y & Hy & He) end.
    exists y. split; [eapply Hin; [|exact Hy]; simpl; tauto|exact He].
  - match goal with H : oelem_eq elem_eq (k_propertyNames k1) (k_propertyNames k2) = true |- _ => destruct (Hopt _ _ H Hx) as (y & Hy & He) end.
    exists y. split; [eapply Hin; [|exact Hy]; simpl; tauto|exact He].
  - (* dependencies *)
    match goal with H : deps_eq elem_eq (k_dependencies k1) (k_dependencies k2) = true |- _ => rename H into Hp end.
    destruct (k_dependencies k1) as [l1|], (k_dependencies k2) as [l2|]; simpl in Hp, Hx; try discriminate; try contradiction.
    apply andb_true_iff in Hp as [_ Hs]. rewrite deps_sub_dsub in Hs.
    apply in_flat_map in Hx as ([n d] & Hnd & Hxd). destruct (dict_fwd _ _ _ Hs n d Hnd) as (d2 & Hd2 & HR).
    destruct d as [ns|e1]; cbn [snd dep_elems] in Hxd; [contradiction|]. destruct Hxd as [<-|[]].
    destruct d2 as [ns2|e2]; simpl in HR; [discriminate|].
    exists e2. split; [|exact HR]. apply (Hin (sub_deps (Some l2))); [simpl; tauto|]. cbn [sub_deps]. apply in_flat_map. exists (n, DepElem e2). split; [exact Hd2|now left].
Qed.

Lemma children_partner a b : elem_eq a b = true ->
  forall x, In x (children a) -> exists y, In y (children b) /\ elem_eq x y = true.
Proof.
  destruct a as [c1 k1| |x1 d1|m1 es1 d1|n1 b1 k1], b as [c2 k2| |x2 d2|m2 es2 d2|n2 b2 k2]; cbn [elem_eq children]; intros H; try discriminate.
  - apply andb_true_iff in H as [_ H]. now apply kwds_partner.
  - intros x [].
  - apply andb_true_iff in H as [H _]. intros x [<-|[]]. exists x2. split; [now left|exact H].
  - apply andb_true_iff in H as [H _]. apply andb_true_iff in H as [_ H]. now apply elems_partner.
  - now apply kwds_partner.
Qed.

(* a depth bound of b is a depth bound of every a that equals b *)
Theorem dle_eq : forall m a b, elem_eq a b = true -> dle m b -> dle m a.
Proof.
  induction m as [|m IH]; intros a b He Hd; inversion Hd as [? ? Hc]; subst.
  constructor. apply Forall_forall. intros x Hx.
  destruct (children_partner a b He x Hx) as (y & Hy & Hxy).
  rewrite Forall_forall in Hc. exact (IH x y Hxy (Hc y Hy)).
Qed.

(* every element has a depth *)
Lemma dle_exists : forall e, exists m, dle m e.
Proof.
  apply (elem_ind' (fun e => exists m, dle m e)). intros e IH.
  assert (H : exists m, Forall (dle m) (children e)).
  { induction IH as [|x r (mx & Hx) _ (mr & Hr)]; [exists 0; constructor|].
    exists (max mx mr). constructor; [apply (dle_mono mx); [exact Hx|lia]|].
    eapply Forall_impl; [|exact Hr]. intros y Hy. apply (dle_mono mr); [exact Hy|lia]. }
  destruct H as (m & Hm). exists (S m). now constructor.
Qed.
