(* JsonEqProof.v — reflexivity and symmetry of Python == (alias=true) and of the
   bool-strict literal equality (alias=false) on well-formed JSON values:
   finite floats, dicts with unique keys. *)
From Coq Require Import Lia Floats.SpecFloat.
From Statham.Model Require Import Str Json Equality.
From Statham.Proofs Require Import StrFacts JsonInd DictFacts.

Fixpoint jwf (j : json) : Prop :=
  match j with
  | JFlt f => match f with S754_zero _ | S754_finite _ _ _ => True | _ => False end
  | JArr l => (fix go (l : list json) : Prop := match l with [] => True | x :: r => jwf x /\ go r end) l
  | JObj kvs => NoDup (keys kvs) /\
                (fix go (l : list (str * json)) : Prop := match l with [] => True | (_, v) :: r => jwf v /\ go r end) kvs
  | _ => True
  end.

Lemma jwf_arr l : jwf (JArr l) <-> Forall jwf l.
Proof.
  simpl. induction l as [|x r IH]; [split; constructor|].
  rewrite IH. split; [intros [a b]; constructor; auto|intros H; inversion H; auto].
Qed.
Lemma jwf_obj kvs : jwf (JObj kvs) <-> NoDup (keys kvs) /\ Forall (fun kv => jwf (snd kv)) kvs.
Proof.
  simpl. apply and_iff_compat_l. induction kvs as [|[k v] r IH]; [split; constructor|].
  rewrite IH. split; [intros [a b]; constructor; auto|intros H; inversion H; auto].
Qed.

Section A.
  Variable alias : bool.
  Notation jq := (jeq alias).

  Lemma jeq_arr l1 l2 : jq (JArr l1) (JArr l2) = list_eqb jq l1 l2.
  Proof. revert l2; induction l1 as [|x r IH]; intros [|y s]; simpl in *; try reflexivity. now rewrite <- IH. Qed.

  Lemma jeq_obj k1 k2 : jq (JObj k1) (JObj k2) = Nat.eqb (length k1) (length k2) && dsub jq k1 k2.
  Proof.
    simpl. f_equal.
  Qed.

  Lemma dy_cmp_refl a : dy_cmp a a = Eq.
  Proof. unfold dy_cmp. apply Z.compare_refl. Qed.
  Lemma dy_cmp_eq_sym a b : dy_cmp a b = Eq -> dy_cmp b a = Eq.
  Proof.
    unfold dy_cmp. rewrite (Z.min_comm (de b) (de a)). intros H.
    apply Z.compare_eq_iff in H. apply Z.compare_eq_iff. lia.
  Qed.

  Lemma num_eqb_sym a b : num_eqb a b = true -> num_eqb b a = true.
  Proof.
    unfold num_eqb, num_cmp. destruct (dy_of_num a), (dy_of_num b); try discriminate.
    destruct (dy_cmp d d0) eqn:E; try discriminate. now rewrite (dy_cmp_eq_sym _ _ E).
  Qed.
  Lemma num_eqb_refl a : dy_of_num a <> None -> num_eqb a a = true.
  Proof.
    unfold num_eqb, num_cmp. destruct (dy_of_num a); [|congruence]. now rewrite dy_cmp_refl.
  Qed.

  Lemma list_eqb_sym {A} (f : A -> A -> bool) l1 : forall l2,
    Forall (fun x => forall y, f x y = true -> f y x = true) l1 ->
    list_eqb f l1 l2 = true -> list_eqb f l2 l1 = true.
  Proof.
    induction l1 as [|x r IH]; intros [|y s] Hf; simpl; try congruence.
    inversion Hf; subst. rewrite !andb_true_iff. intros [E1 E2]. split; auto.
  Qed.
  Lemma list_eqb_refl {A} (f : A -> A -> bool) l :
    Forall (fun x => f x x = true) l -> list_eqb f l l = true.
  Proof. induction 1; simpl; [reflexivity|]. now rewrite H, IHForall. Qed.

  Theorem jeq_sym_imp : forall a, jwf a -> forall c, jwf c -> jq a c = true -> jq c a = true.
  Proof.
    induction a using json_ind'; intros Ha c Hc Hab.
    - destruct c; simpl in *; congruence.
    - destruct c; simpl in *; try congruence.
      + now rewrite Bool.eqb_true_iff in *.
      + destruct alias; [|discriminate]. now apply num_eqb_sym.
      + destruct alias; [|discriminate]. now apply num_eqb_sym.
    - destruct c; simpl in *; try congruence.
      + destruct alias; [|discriminate]. now apply num_eqb_sym.
      + now apply num_eqb_sym.
      + now apply num_eqb_sym.
    - destruct c; simpl in *; try congruence.
      + destruct alias; [|discriminate]. now apply num_eqb_sym.
      + now apply num_eqb_sym.
      + now apply num_eqb_sym.
    - destruct c; simpl in *; try congruence. now rewrite str_eqb_sym.
    - destruct c as [| | | | |l0|]; try (simpl in Hab; congruence).
      rewrite jeq_arr in *. apply jwf_arr in Ha. apply jwf_arr in Hc.
      revert l0 Hc Hab. induction H as [|x r Hx Hr IH]; intros [|y s] Hc Hab; simpl in *; try congruence.
      inversion Ha; inversion Hc; subst. apply andb_true_iff in Hab as [E1 E2].
      rewrite (Hx H1 y H5 E1). simpl. apply IH; auto.
    - destruct c as [| | | | | |kvs0]; try (simpl in Hab; congruence).
      rewrite jeq_obj in *. apply jwf_obj in Ha as [Hna Hfa]. apply jwf_obj in Hc as [Hnb Hfb].
      apply andb_true_iff in Hab as [Hl Hd]. apply Nat.eqb_eq in Hl.
      rewrite <- Hl, Nat.eqb_refl. simpl.
      eapply dsub_sym; eauto.
      intros k x y Hin Hiny Hxy. rewrite Forall_forall in H, Hfa, Hfb.
      apply (H (k, x) Hin (Hfa (k, x) Hin) y (Hfb (k, y) Hiny) Hxy).
  Qed.

  Theorem jeq_refl : forall a, jwf a -> jq a a = true.
  Proof.
    induction a using json_ind'; intros Ha.
    - reflexivity.
    - simpl. apply Bool.eqb_reflx.
    - simpl. apply num_eqb_refl. simpl. congruence.
    - simpl. apply num_eqb_refl. simpl in *. destruct f; simpl; try congruence; contradiction.
    - simpl. apply str_eqb_refl.
    - rewrite jeq_arr. apply jwf_arr in Ha. apply list_eqb_refl.
      rewrite Forall_forall in *. auto.
    - rewrite jeq_obj. apply jwf_obj in Ha as [Hn Hf]. rewrite Nat.eqb_refl. simpl.
      apply dsub_refl; auto. intros k x Hin. rewrite Forall_forall in *.
      apply (H (k, x) Hin (Hf (k, x) Hin)).
  Qed.

  Corollary jeq_sym a b : jwf a -> jwf b -> jq a b = jq b a.
  Proof.
    intros Ha Hb. destruct (jq a b) eqn:E1, (jq b a) eqn:E2; try reflexivity.
    - rewrite (jeq_sym_imp a Ha b Hb E1) in E2. discriminate.
    - rewrite (jeq_sym_imp b Hb a Ha E2) in E1. discriminate.
  Qed.
End A.
