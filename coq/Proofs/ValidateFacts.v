(* ValidateFacts.v — small facts about Validate.v reused by several property proofs. *)
From Statham.Model Require Import Str Json Elem PyNum Validate.
From Statham.Proofs Require Import StrFacts.

Lemma collect_all_ok {K} (l : list (K * outcome)) :
  Forall (fun ko => exists r, snd ko = Ok r) l -> fst (collect l) = VPass.
Proof.
  induction 1 as [|[k o] l (r & Hr) _ IH]; [reflexivity|].
  simpl in *. subst o. destruct (collect l). exact IH.
Qed.

Lemma collect_map_ok {K A} (f : A -> K) (g : A -> rv) (l : list A) :
  collect (map (fun x => (f x, Ok (g x))) l) = (VPass, map (fun x => (f x, g x)) l).
Proof.
  induction l as [|x l IH]; [reflexivity|]. simpl. rewrite IH. reflexivity.
Qed.

(* no items keyword: every array is rebuilt item by item with Element() *)
Lemma build_items_none B k l : k_items k = None ->
  build_items B k l = (VPass, map build_any l).
Proof.
  intros H. unfold build_items. rewrite H.
  rewrite (collect_map_ok (fun _ => tt) build_any l). rewrite map_map. reflexivity.
Qed.

(* no properties / patternProperties and additionalProperties = True: every member is kept *)
Lemma build_members_plain O B k kvs :
  k_properties k = None -> k_patternProperties k = None -> k_additionalProperties k = AddBool true ->
  fst (build_members O B k kvs) = VPass.
Proof.
  intros Hp Hpp Ha. unfold build_members. rewrite Hp.
  match goal with |- context [collect ?L] => assert (H : fst (collect L) = VPass) end.
  { apply collect_all_ok. rewrite Forall_map. apply Forall_forall. intros [key mv] _.
    unfold member. rewrite Hp, Hpp, Ha. simpl. destruct mv; eauto. }
  destruct (collect _) as [s rs]. simpl in *. exact H.
Qed.
