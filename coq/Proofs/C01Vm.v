(* C01Vm.v — "verdict matches": a three-valued status agrees with a boolean unless it is a
   crash (crashes are C10's subject); the relation is compositional over vand / collect /
   _attempt_schemas, which is what lets the validity theorem be proved keyword by keyword. *)
From Coq Require Import Lia.
From Statham.Model Require Import Str Json Elem PyNum Validate.

Definition vm (s : vres) (b : bool) : Prop :=
  match s with VPass => b = true | VRej => b = false | VCrash _ => True end.
Definition om (o : outcome) (b : bool) : Prop :=
  match o with Ok _ => b = true | Rej => b = false | Crash _ => True end.

Lemma vm_vb b : vm (vb b) b.
Proof. destruct b; reflexivity. Qed.

Lemma vm_pass : vm VPass true.
Proof. reflexivity. Qed.

Lemma vm_vand a b x y : vm a x -> vm b y -> vm (vand a b) (x && y).
Proof. destruct a, b; simpl; intros; subst; auto; try (now destruct x); now destruct y. Qed.

Lemma vm_ext s b b' : vm s b -> b = b' -> vm s b'.
Proof. intros H <-; exact H. Qed.
Lemma om_ext o b b' : om o b -> b = b' -> om o b'.
Proof. intros H <-; exact H. Qed.

Lemma vm_rej_and s b : vm s b -> vm (vand VRej s) false.
Proof. destruct s; simpl; auto. Qed.

(* sequencing of constructions *)
Lemma collect_vm {K} (l : list (K * outcome)) (bs : list bool) :
  Forall2 (fun ko b => om (snd ko) b) l bs -> vm (fst (collect l)) (forallb (fun b => b) bs).
Proof.
  induction 1 as [|[k o] b l bs Ho Hl IH]; simpl; [reflexivity|].
  destruct (collect l) as [s rs]; simpl in *.
  destruct o; simpl in *; subst; simpl; auto.
  destruct s; simpl; auto.
Qed.

Lemma collect_vm_map {K A} (g : A -> K * outcome) (h : A -> bool) (xs : list A) :
  (forall x, In x xs -> om (snd (g x)) (h x)) -> vm (fst (collect (map g xs))) (forallb h xs).
Proof.
  induction xs as [|x r IH]; simpl; intros H; [reflexivity|].
  destruct (g x) as [k o] eqn:E. specialize (IH (fun y Hy => H y (or_intror Hy))).
  pose proof (H x (or_introl eq_refl)) as Hx. rewrite E in Hx; simpl in Hx.
  destruct (collect (map g r)) as [s rs]; simpl in *.
  destruct o; simpl in *; try rewrite Hx; simpl; auto.
  destruct s; simpl; auto.
Qed.

(* _attempt_schemas *)

Lemma attempt_facts os : first_crash os = None ->
  forall bs, Forall2 om os bs ->
    length (ok_results os) = length (filter (fun b : bool => b) bs).
Proof.
  intros Hc bs H. induction H as [|o b os bs Ho Hl IH]; simpl; [reflexivity|].
  destruct o; simpl in *; subst; simpl.
  - rewrite IH; auto.
  - apply IH; auto.
  - discriminate.
Qed.

Lemma filter_all_length (bs : list bool) :
  Nat.eqb (length (filter (fun b : bool => b) bs)) (length bs) = forallb (fun b => b) bs.
Proof.
  assert (Hle : forall l : list bool, length (filter (fun b : bool => b) l) <= length l).
  { induction l as [|x l IH]; simpl; [lia|]. destruct x; simpl; lia. }
  induction bs as [|b bs IH]; simpl; [reflexivity|].
  destruct b; simpl; [exact IH|].
  apply PeanoNat.Nat.eqb_neq. pose proof (Hle bs). lia.
Qed.

Lemma filter_any_length (bs : list bool) :
  negb (Nat.eqb (length (filter (fun b : bool => b) bs)) 0) = existsb (fun b => b) bs.
Proof. induction bs as [|b bs IH]; simpl; [reflexivity|]. destruct b; simpl; auto. Qed.

Lemma Forall2_length' {A B} (R : A -> B -> Prop) l l' : Forall2 R l l' -> length l = length l'.
Proof. induction 1; simpl; auto. Qed.

Lemma attempt_all os bs : os <> [] -> Forall2 om os bs ->
  om (attempt MAll os) (forallb (fun b => b) bs).
Proof.
  intros Hne H. unfold attempt. destruct (first_crash os) eqn:Hc; [exact I|].
  pose proof (attempt_facts os Hc bs H) as Hlen.
  pose proof (Forall2_length' _ _ _ H) as Hl2.
  rewrite <- filter_all_length.
  destruct (ok_results os) as [|r rest] eqn:Eo.
  - simpl in Hlen. rewrite <- Hlen. simpl.
    destruct bs; [destruct os; [congruence|discriminate]|reflexivity].
  - rewrite Hlen, Hl2.
    destruct (Nat.eqb _ _); reflexivity.
Qed.

Lemma attempt_any os bs : Forall2 om os bs -> om (attempt MAny os) (existsb (fun b => b) bs).
Proof.
  intros H. unfold attempt. destruct (first_crash os) eqn:Hc; [exact I|].
  pose proof (attempt_facts os Hc bs H) as Hlen.
  rewrite <- filter_any_length, <- Hlen.
  destruct (ok_results os); reflexivity.
Qed.

Lemma attempt_one os bs : Forall2 om os bs ->
  om (attempt MOne os) (Nat.eqb (length (filter (fun b : bool => b) bs)) 1).
Proof.
  intros H. unfold attempt. destruct (first_crash os) eqn:Hc; [exact I|].
  pose proof (attempt_facts os Hc bs H) as Hlen. rewrite <- Hlen.
  destruct (ok_results os) as [|r [|r' rest]]; reflexivity.
Qed.

Lemma attempt_single m o b : om o b -> om (attempt m [o]) b.
Proof. destruct o, m; simpl; auto. Qed.

(* loops of the deep validators *)
Lemma contains_vm (f : json -> outcome) (h : json -> bool) xs :
  (forall x, In x xs -> om (f x) (h x)) -> vm (contains_loop f xs) (existsb h xs).
Proof.
  induction xs as [|x r IH]; simpl; intros H; [reflexivity|].
  pose proof (H x (or_introl eq_refl)) as Hx.
  destruct (f x); simpl in *; rewrite ?Hx; simpl; auto.
Qed.

Lemma pnames_vm (f : json -> outcome) (h : json -> bool) (xs : list (str * json)) :
  (forall kx, In kx xs -> om (f (JStr (fst kx))) (h (JStr (fst kx)))) ->
  vm (pnames_loop f xs) (forallb (fun kx => h (JStr (fst kx))) xs).
Proof.
  induction xs as [|[k x] r IH]; simpl; intros H; [reflexivity|].
  pose proof (H (k, x) (or_introl eq_refl)) as Hx. simpl in Hx.
  specialize (IH (fun y Hy => H y (or_intror Hy))).
  destruct (f (JStr k)); simpl in *; rewrite ?Hx; simpl; auto.
  eapply vm_rej_and; eauto.
Qed.
