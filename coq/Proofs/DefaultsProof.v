(* DefaultsProof.v — C05: what calling an element with no value yields, and how an object
   treats omitted and supplied declared properties. *)
From Statham.Model Require Import Str Json Elem PyNum Validate.
From Statham.Proofs Require Import StrFacts.

(* (a) every element kind, model classes included: the call with no value is the call on the
   element's own default, with a rejected default returned as-is; no default -> NotPassed *)
Theorem default_law O e :
  build O e None =
  match elem_default e with
  | None => Ok RNotPassed
  | Some d => match build O e (Some d) with
              | Ok r => Ok r
              | Rej => Ok (rv_of_json d)
              | Crash x => Crash x
              end
  end.
Proof.
  destruct e as [c k| |x d|m es d|n bs k]; cbn [build elem_default with_default].
  - destruct (k_default k); reflexivity.
  - reflexivity.
  - destruct d; reflexivity.
  - destruct d; reflexivity.
  - destruct (k_default k); reflexivity.
Qed.

(* never the validation error *)
Corollary no_value_never_rejects O e : build O e None <> Rej.
Proof.
  rewrite default_law. destruct (elem_default e) as [d|]; [|discriminate].
  destruct (build O e (Some d)); discriminate.
Qed.

(* a supplied value is never replaced by the default: the default plays no part *)
Theorem supplied_ignores_default O c k v d :
  build O (EK c k) (Some v) =
  build O (EK c (mkK d (k_const k) (k_enum k) (k_items k) (k_additionalItems k) (k_minItems k) (k_maxItems k)
                    (k_uniqueItems k) (k_contains k) (k_minimum k) (k_maximum k) (k_exclusiveMinimum k)
                    (k_exclusiveMaximum k) (k_multipleOf k) (k_format k) (k_pattern k) (k_minLength k)
                    (k_maxLength k) (k_required k) (k_properties k) (k_patternProperties k)
                    (k_additionalProperties k) (k_minProperties k) (k_maxProperties k) (k_propertyNames k)
                    (k_dependencies k) (k_description k))) (Some v).
Proof. reflexivity. Qed.

(* (b)/(c) Properties.__getitem__ on a declared property that no pattern matches: the member is
   stored under the property's Python name and built by the property's own element — from the
   supplied value when there is one, from "no value" (hence the default law) when omitted *)
Lemma find_by_source_notin {A} (f : elem -> A) key ps : forall acc,
  ~ In key (map (fun np => p_source (snd np)) ps) -> find_by_source f key ps acc = acc.
Proof.
  induction ps as [|[n p] r IH]; intros acc H; simpl in *; [reflexivity|].
  destruct (str_eqb_spec (p_source p) key) as [E|E]; [tauto|]. apply IH. tauto.
Qed.

Lemma find_by_source_unique {A} (f : elem -> A) key ps name p : forall acc,
  NoDup (map (fun np => p_source (snd np)) ps) -> In (name, p) ps -> p_source p = key ->
  find_by_source f key ps acc = Some (name, p_required p, f (p_elem p)).
Proof.
  induction ps as [|[n q] r IH]; intros acc Hnd Hin Hs; simpl in *; [tauto|].
  inversion Hnd as [|? ? Hni Hnd']; subst.
  destruct Hin as [Heq|Hin].
  - injection Heq as -> ->. rewrite str_eqb_refl. now apply find_by_source_notin.
  - destruct (str_eqb_spec (p_source q) (p_source p)) as [E|E].
    + exfalso. apply Hni. rewrite E. apply in_map_iff. exists (name, p). auto.
    + now apply IH.
Qed.

Theorem member_declared O B k key mv ps name p :
  k_properties k = Some ps -> NoDup (map (fun np => p_source (snd np)) ps) -> In (name, p) ps -> p_source p = key ->
  map_matching_o (fun e' => B e' mv) (fun pat => re_search O pat key) (k_patternProperties k) = [] ->
  member O B k key mv = (name, B (p_elem p) mv).
Proof.
  intros Hp Hnd Hin Hs Hpat. unfold member. rewrite Hpat, Hp. simpl.
  now rewrite (find_by_source_unique (fun e' => B e' mv) key ps name p None Hnd Hin Hs).
Qed.

(* an undeclared, unmatched member: kept under its JSON name, built by additionalProperties *)
Theorem member_additional O B k key v :
  find_by_source_o (fun e' => B e' (Some v)) key (k_properties k) = None ->
  map_matching_o (fun e' => B e' (Some v)) (fun pat => re_search O pat key) (k_patternProperties k) = [] ->
  member O B k key (Some v) =
  (key, match k_additionalProperties k with
        | AddBool true => Ok (build_any v)
        | AddBool false => Rej
        | AddElem e => B e (Some v)
        end).
Proof.
  intros Hd Hp. unfold member. rewrite Hd, Hp. destruct (k_additionalProperties k) as [[|]|e]; reflexivity.
Qed.

(* ---- the placeholder mechanism of Properties.__call__ ---- *)
From Statham.Proofs Require Import MetaProof.

Definition placeholders (k : kwds elem) : list (str * option json) :=
  map (fun np => (match p_source (snd np) with [] => fst np | s => s end, @None json))
      (match k_properties k with Some l => l | None => [] end).
Definition merged_members (k : kwds elem) (kvs : list (str * json)) : list (str * option json) :=
  dict_merge (dict_of_pairs (placeholders k)) (map (fun kv => (fst kv, Some (snd kv))) kvs).

Lemma lookup_all_none (l : list (str * option json)) key :
  (forall kv, In kv l -> snd kv = None) -> In key (map fst l) -> lookup key l = Some None.
Proof.
  induction l as [|[k v] r IH]; simpl; intros Hn Hin; [tauto|].
  destruct (str_eqb_spec key k) as [->|Hne].
  - pose proof (Hn (k, v) (or_introl eq_refl)) as E. simpl in E. now subst v.
  - destruct Hin as [E|Hin]; [simpl in E; congruence|]. apply IH; auto.
Qed.

Lemma lookup_map_some (kvs : list (str * json)) key :
  lookup key (map (fun kv => (fst kv, Some (snd kv))) kvs) = option_map Some (lookup key kvs).
Proof. induction kvs as [|[k v] r IH]; simpl; [reflexivity|]. destruct (str_eqb key k); auto. Qed.

Lemma lookup_rev_nodup {A} (l : list (str * A)) key : NoDup (keys l) -> lookup key (rev l) = lookup key l.
Proof.
  intros Hnd. destruct (lookup key l) as [v|] eqn:E.
  - apply In_lookup.
    + unfold keys. rewrite map_rev. now apply NoDup_rev.
    + apply in_rev. rewrite rev_involutive. now apply lookup_In.
  - apply lookup_None. apply lookup_None in E. unfold keys in *. rewrite map_rev. intros H. apply E. now apply in_rev.
Qed.

(* a supplied member is what Properties.__call__ visits under that key: the placeholder never wins *)
Theorem supplied_wins k kvs key v : NoDup (keys kvs) -> lookup key kvs = Some v ->
  lookup key (merged_members k kvs) = Some (Some v).
Proof.
  intros Hnd Hl. unfold merged_members. rewrite lookup_dict_merge.
  rewrite <- map_rev, lookup_map_some, lookup_rev_nodup, Hl by assumption. reflexivity.
Qed.

(* every declared property is visited even when omitted: with "no value" *)
Theorem omitted_is_visited k kvs ps name p :
  k_properties k = Some ps -> In (name, p) ps -> p_source p <> [] -> lookup (p_source p) kvs = None ->
  lookup (p_source p) (merged_members k kvs) = Some None.
Proof.
  intros Hp Hin Hs Hl. unfold merged_members. rewrite lookup_dict_merge.
  rewrite <- map_rev, lookup_map_some.
  assert (Hr : lookup (p_source p) (rev kvs) = None).
  { apply lookup_None. apply lookup_None in Hl. unfold keys in *. rewrite map_rev. intros H. apply Hl. now apply in_rev. }
  rewrite Hr. simpl. unfold dict_of_pairs. rewrite lookup_dict_merge. simpl.
  assert (Hn : forall kv, In kv (rev (placeholders k)) -> snd kv = None).
  { intros kv H. apply in_rev in H. unfold placeholders in H. apply in_map_iff in H as (x & <- & _). reflexivity. }
  rewrite (lookup_all_none _ (p_source p) Hn); [reflexivity|].
  rewrite map_rev. apply in_rev. rewrite rev_involutive. unfold placeholders. rewrite Hp, map_map.
  apply in_map_iff. exists (name, p). split; auto. simpl. destruct (p_source p); [congruence|reflexivity].
Qed.

(* these are the members Properties.__call__ (Validate.build_members) actually iterates over *)
Lemma build_members_unfold O B k kvs :
  build_members O B k kvs =
  let '(s, rs) := collect (map (fun kv => member O B k (fst kv) (snd kv)) (merged_members k kvs)) in
  (s, dict_of_pairs rs).
Proof. reflexivity. Qed.
