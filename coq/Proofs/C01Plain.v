(* C01Plain.v — the fragment on which the validity theorems are stated.  Every schema node is
   metaschema-shaped where the proof needs it (unique keys, schema-valued properties /
   patternProperties, distinct attribute names, non-empty anyOf / oneOf, literals free of the
   private "_x_autotitle" key).  With objs = false no node has type "object" (the class-free
   fragment); with objs = true a node may be {"type": "object"} provided every required name has
   a declared property whose schema has no composition keyword.  `walk` threads the class names
   the parser meets, in parse order, and holds when no name repeats (so that the de-duplication
   of _ParseState never substitutes an earlier class). *)
From Coq Require String. Import String.StringSyntax.
From Statham.Model Require Import Str Json Elem Names Tables Parser Plain.
From Statham.Proofs Require Import StrFacts C01Scalar.
Local Open Scope string_scope.
Arguments s_ : simpl never.

Definition nocomp (S0 : json) : Prop :=
  match S0 with
  | JObj kvs => existsb (fun kv => mem_str (fst kv) composition_keywords) kvs = false
  | _ => True
  end.

Lemma nocompb_sound S0 : nocompb S0 = true -> nocomp S0.
Proof. destruct S0; simpl; auto. intros H. now apply negb_true_iff in H. Qed.

Section Plain.
  Variable cfg : pcfg.
  Variable objs : bool.

  Definition type_not_object (kvs : list (str * json)) : Prop :=
    match lookup (s_ "type") kvs with
    | Some (JStr t) => t <> s_ "object"
    | Some (JArr ts) => Forall (fun t => t <> JStr (s_ "object")) ts
    | _ => True
    end.

  Definition obj_node_ok (kvs : list (str * json)) : Prop :=
    forall r, In r (req_names kvs) ->
      match lookup (s_ "properties") kvs with
      | Some (JObj pkvs) => exists Sp, lookup r pkvs = Some Sp /\ nocomp Sp
      | _ => False
      end.

  Definition type_cond (kvs : list (str * json)) : Prop :=
    match lookup (s_ "type") kvs with
    | Some (JStr t) => t = s_ "object" -> objs = true /\ obj_node_ok kvs
    | Some (JArr ts) => Forall (fun t => t <> JStr (s_ "object")) ts
    | _ => True
    end.

  Definition dict_ok (needs_schemas : bool) (o : option json) : Prop :=
    match o with
    | Some (JObj p) => NoDup (keys p) /\ (needs_schemas = true -> Forall (fun kv => is_schema (snd kv) = true) p)
    | _ => True
    end.

  Definition nonempty_list (o : option json) : Prop :=
    match o with Some (JArr []) => False | _ => True end.

  Definition node_ok (kvs : list (str * json)) : Prop :=
    let get (s : String.string) := lookup (s_ s) kvs in
    NoDup (keys kvs) /\ type_cond kvs /\ lit_clean kvs "const" /\ lit_clean kvs "enum" /\
    dict_ok true (get "properties") /\
    (match get "properties" with Some (JObj p) => NoDup (map (attr cfg) (keys p)) | _ => True end) /\
    dict_ok true (get "patternProperties") /\ dict_ok false (get "dependencies") /\
    nonempty_list (get "anyOf") /\ nonempty_list (get "oneOf").

  Inductive plain : json -> Prop :=
  | plain_bool b : plain (JBool b)
  | plain_obj kvs : node_ok kvs -> Forall plain (subschemas kvs) -> plain (JObj kvs).

  Section Ind.
    Variable P : json -> Prop.
    Hypothesis Hb : forall b, P (JBool b).
    Hypothesis Ho : forall kvs, node_ok kvs -> Forall plain (subschemas kvs) -> Forall P (subschemas kvs) -> P (JObj kvs).
    Fixpoint plain_ind' (S0 : json) (H : plain S0) {struct H} : P S0 :=
      match H with
      | plain_bool b => Hb b
      | plain_obj kvs Hn Hs =>
        Ho kvs Hn Hs
           ((fix go (l : list json) (Hl : Forall plain l) {struct Hl} : Forall P l :=
               match Hl with
               | Forall_nil _ => Forall_nil _
               | Forall_cons x Hx Hr => Forall_cons x (plain_ind' x Hx) (go _ Hr)
               end) (subschemas kvs) Hs)
      end.
  End Ind.

  (* ---- class names in parse order ---- *)
  Definition own_step (kvs : list (str * json)) (u u' : list str) : Prop :=
    if is_object_node kvs then
      match obj_title kvs with
      | Some (JStr (c :: t)) => ~ In (title_format (c :: t)) u /\ u' = title_format (c :: t) :: u
      | _ => u' = u
      end
    else u' = u.

  Inductive walk : list str -> json -> list str -> Prop :=
  | walk_leaf u S0 : (match S0 with JObj _ => False | _ => True end) -> walk u S0 u
  | walk_node u kvs u1 u2 :
      has_comp kvs = false ->
      walks u (pre_list kvs) u1 ->
      own_step kvs u1 u2 ->
      walk u (JObj kvs) u2
  | walk_comp u kvs u1 u2 u3 u' :
      has_comp kvs = true ->
      walks u (pre_list kvs) u1 ->
      own_step kvs u1 u2 ->
      walks u2 (comp_lists cfg kvs) u3 ->
      walks u3 (opt_list (lookup (s_ "not") kvs)) u' ->
      walk u (JObj kvs) u'
  with walks : list str -> list json -> list str -> Prop :=
  | walks_nil u : walks u [] u
  | walks_cons u x u1 r u2 : walk u x u1 -> walks u1 r u2 -> walks u (x :: r) u2.

  Lemma walks_app u a b u' : walks u (a ++ b) u' -> exists u1, walks u a u1 /\ walks u1 b u'.
  Proof.
    revert u. induction a as [|x a IH]; intros u H; simpl in H.
    - exists u. split; [constructor|exact H].
    - inversion H as [|? ? u1 ? ? Hx Hr]; subst. destruct (IH _ Hr) as (u2 & H1 & H2).
      exists u2. split; [econstructor; eauto|exact H2].
  Qed.
End Plain.

Lemma type_cond_false cfg kvs : node_ok cfg false kvs -> type_not_object kvs.
Proof.
  intros (_ & H & _). unfold type_cond, type_not_object in *.
  destruct (lookup (s_ "type") kvs) as [[| | | |t| |]|]; auto.
  intros E. destruct (H E) as [Hf _]. discriminate.
Qed.

(* ---- the boolean checkers are sound ---- *)
Lemma nodupb_sound l : nodupb l = true -> NoDup l.
Proof.
  induction l as [|x r IH]; simpl; intros H; constructor; apply andb_true_iff in H as [H1 H2]; auto.
  apply negb_true_iff in H1. now apply mem_str_false.
Qed.

Section Checker.
  Variable cfg : pcfg.
  Variable objs : bool.
  Notation node_okb := (node_okb cfg objs).
  Notation plainb := (plainb cfg objs).

  Lemma dict_okb_sound needs o : dict_okb needs o = true -> dict_ok needs o.
  Proof.
    unfold dict_okb, dict_ok. destruct o as [[| | | | | |p]|]; auto.
    intros H. apply andb_true_iff in H as [H1 H2]. split; [now apply nodupb_sound|].
    intros ->. apply Forall_forall. rewrite forallb_forall in H2. exact H2.
  Qed.

  Lemma type_condb_sound kvs : type_condb objs kvs = true -> type_cond objs kvs.
  Proof.
    unfold type_condb, type_cond. destruct (lookup (s_ "type") kvs) as [[| | | |t|ts|]|]; auto.
    - intros H ->. rewrite str_eqb_refl in H. apply andb_true_iff in H as [H1 H2]. split; [exact H1|].
      intros r Hr. unfold obj_node_okb in H2. rewrite forallb_forall in H2. specialize (H2 r Hr).
      destruct (lookup (s_ "properties") kvs) as [[| | | | | |pkvs]|]; try discriminate.
      destruct (lookup r pkvs) as [Sp|]; [|discriminate]. exists Sp. split; [reflexivity|now apply nocompb_sound].
    - intros H. apply Forall_forall. intros tj Hin. rewrite forallb_forall in H. specialize (H _ Hin).
      destruct tj; try discriminate. apply negb_true_iff in H. apply str_eqb_neq in H. congruence.
  Qed.

  Lemma node_okb_sound kvs : node_okb kvs = true -> node_ok cfg objs kvs.
  Proof.
    unfold Plain.node_okb, node_ok. intros H.
    repeat match type of H with _ && _ = true => let H2 := fresh "Hc" in apply andb_true_iff in H as [H H2] end.
    repeat split.
    - now apply nodupb_sound.
    - now apply type_condb_sound.
    - unfold lit_cleanb in Hc6. unfold lit_clean. destruct (lookup (s_ "const") kvs); auto.
    - unfold lit_cleanb in Hc5. unfold lit_clean. destruct (lookup (s_ "enum") kvs); auto.
    - now apply dict_okb_sound.
    - destruct (lookup (s_ "properties") kvs) as [[| | | | | |p]|]; auto. now apply nodupb_sound.
    - now apply dict_okb_sound.
    - now apply dict_okb_sound.
    - unfold nonempty_listb in Hc0. unfold nonempty_list.
      destruct (lookup (s_ "anyOf") kvs) as [[| | | | |[|]|]|]; auto. discriminate.
    - unfold nonempty_listb in Hc. unfold nonempty_list.
      destruct (lookup (s_ "oneOf") kvs) as [[| | | | |[|]|]|]; auto. discriminate.
  Qed.

  Theorem plainb_sound : forall fuel S0, plainb fuel S0 = true -> plain cfg objs S0.
  Proof.
    induction fuel as [|n IH]; intros S0 H; [discriminate|]. cbn [Plain.plainb] in H.
    destruct S0; try discriminate; [constructor|].
    apply andb_true_iff in H as [H1 H2]. constructor; [now apply node_okb_sound|].
    apply Forall_forall. intros x Hx. apply IH. rewrite forallb_forall in H2. auto.
  Qed.

  Lemma own_stepb_sound kvs u u' : own_stepb kvs u = Some u' -> own_step kvs u u'.
  Proof.
    unfold own_stepb, own_step. destruct (is_object_node kvs); [|intros E; now inversion E].
    destruct (obj_title kvs) as [[| | | |[|c t]| |]|]; try (intros E; now inversion E).
    destruct (mem_str (title_format (c :: t)) u) eqn:Em; [discriminate|].
    intros E. inversion E. split; [now apply mem_str_false|reflexivity].
  Qed.

  Theorem walkb_sound : forall fuel u S0 u', walkb cfg fuel u S0 = Some u' -> walk cfg u S0 u'.
  Proof.
    induction fuel as [|n IH]; intros u S0 u' H; [discriminate|]. cbn [walkb] in H.
    set (walksb := fix go (u0 : list str) (l : list json) : option (list str) :=
           match l with
           | [] => Some u0
           | x :: r => match walkb cfg n u0 x with Some u1 => go u1 r | None => None end
           end) in *.
    assert (Hs : forall l u0 u1, walksb u0 l = Some u1 -> walks cfg u0 l u1).
    { induction l as [|x r IHl]; intros u0 u1 Hl; simpl in Hl.
      - inversion Hl. constructor.
      - destruct (walkb cfg n u0 x) as [u2|] eqn:Ex; [|discriminate].
        econstructor; [apply IH; exact Ex|apply IHl; exact Hl]. }
    destruct S0 as [| | | | | |kvs]; try (inversion H; subst; now constructor).
    destruct (walksb u (pre_list kvs)) as [u1|] eqn:E1; [|discriminate].
    destruct (own_stepb kvs u1) as [u2|] eqn:E2; [|discriminate].
    destruct (has_comp kvs) eqn:Ec.
    - destruct (walksb u2 (comp_lists cfg kvs)) as [u3|] eqn:E3; [|discriminate].
      apply (walk_comp cfg u kvs u1 u2 u3 u'); auto. now apply own_stepb_sound.
    - inversion H; subst. apply (walk_node cfg u kvs u1 u'); auto. now apply own_stepb_sound.
  Qed.

  Theorem in_fragment_sound fuel S0 : in_fragment cfg objs fuel S0 = true ->
    plain cfg objs S0 /\ exists u', walk cfg [] S0 u'.
  Proof.
    unfold in_fragment. intros H. apply andb_true_iff in H as [H1 H2]. split; [eapply plainb_sound; eauto|].
    destruct (walkb cfg fuel [] S0) as [u'|] eqn:E; [|discriminate]. exists u'. eapply walkb_sound; eauto.
  Qed.
End Checker.
