(* C01Plain.v — the class-free fragment on which the validity theorem is stated: every schema
   node is metaschema-shaped where the proof needs it (unique keys, schema-valued properties /
   patternProperties, distinct attribute names, non-empty anyOf / oneOf, literals free of the
   private "_x_autotitle" key) and no node has type "object" (object classes are named and
   deduplicated through the parse state; see DESIGN.md). *)
From Coq Require String. Import String.StringSyntax.
From Statham.Model Require Import Str Json Elem Names Tables Parser Plain.
From Statham.Proofs Require Import StrFacts C01Scalar.
Local Open Scope string_scope.
Arguments s_ : simpl never.

Section Plain.
  Variable cfg : pcfg.

  Definition type_not_object (kvs : list (str * json)) : Prop :=
    match lookup (s_ "type") kvs with
    | Some (JStr t) => t <> s_ "object"
    | Some (JArr ts) => Forall (fun t => t <> JStr (s_ "object")) ts
    | _ => True
    end.

  Definition dict_ok (needs_schemas : bool) (o : option json) : Prop :=
    match o with
    | Some (JObj p) => NoDup (keys p) /\ (needs_schemas = true -> Forall (fun kv => is_schema (snd kv) = true) p)
    | _ => True
    end.

  Definition nonempty_list (o : option json) : Prop :=
    match o with Some (JArr []) => False | _ => True end.

  Definition node_ok (kvs : list (str * json)) : Prop :=
    let get (s : String.string) := lookup (s_ s) kvs in
    NoDup (keys kvs) /\ type_not_object kvs /\ lit_clean kvs "const" /\ lit_clean kvs "enum" /\
    dict_ok true (get "properties") /\
    (match get "properties" with Some (JObj p) => NoDup (map (attr cfg) (keys p)) | _ => True end) /\
    dict_ok true (get "patternProperties") /\ dict_ok false (get "dependencies") /\
    nonempty_list (get "anyOf") /\ nonempty_list (get "oneOf").

  Inductive plain : json -> Prop :=
  | plain_bool b : plain (JBool b)
  | plain_obj kvs : node_ok kvs -> Forall plain (subschemas kvs) -> plain (JObj kvs).

  Section Ind.
    Variable P : json -> Prop.
    Hypothesis Hb : forall b, P (JBool b).
    Hypothesis Ho : forall kvs, node_ok kvs -> Forall plain (subschemas kvs) -> Forall P (subschemas kvs) -> P (JObj kvs).
    Fixpoint plain_ind' (S0 : json) (H : plain S0) {struct H} : P S0 :=
      match H with
      | plain_bool b => Hb b
      | plain_obj kvs Hn Hs =>
        Ho kvs Hn Hs
           ((fix go (l : list json) (Hl : Forall plain l) {struct Hl} : Forall P l :=
               match Hl with
               | Forall_nil _ => Forall_nil _
               | Forall_cons x Hx Hr => Forall_cons x (plain_ind' x Hx) (go _ Hr)
               end) (subschemas kvs) Hs)
      end.
  End Ind.
End Plain.

(* ---- a boolean checker for the fragment (used for the non-vacuity examples and by the
   harness to count how many of the schemas it tests the theorem applies to) ---- *)
Lemma nodupb_sound l : nodupb l = true -> NoDup l.
Proof.
  induction l as [|x r IH]; simpl; intros H; constructor; apply andb_true_iff in H as [H1 H2]; auto.
  apply negb_true_iff in H1. now apply mem_str_false.
Qed.

Section Checker.
  Variable cfg : pcfg.
  Notation node_okb := (node_okb cfg).
  Notation plainb := (plainb cfg).

  Lemma dict_okb_sound needs o : dict_okb needs o = true -> dict_ok needs o.
  Proof.
    unfold dict_okb, dict_ok. destruct o as [[| | | | | |p]|]; auto.
    intros H. apply andb_true_iff in H as [H1 H2]. split; [now apply nodupb_sound|].
    intros ->. apply Forall_forall. rewrite forallb_forall in H2. exact H2.
  Qed.

  Lemma node_okb_sound kvs : node_okb kvs = true -> node_ok cfg kvs.
  Proof.
    unfold node_okb, node_ok. intros H.
    repeat match type of H with _ && _ = true => let H2 := fresh "Hc" in apply andb_true_iff in H as [H H2] end.
    repeat split.
    - now apply nodupb_sound.
    - unfold type_not_objectb in Hc7. unfold type_not_object.
      destruct (lookup (s_ "type") kvs) as [[| | | |t|ts|]|]; auto.
      + apply negb_true_iff in Hc7. now apply str_eqb_neq.
      + apply Forall_forall. intros tj Hin. rewrite forallb_forall in Hc7. specialize (Hc7 _ Hin).
        destruct tj; try discriminate. apply negb_true_iff in Hc7. apply str_eqb_neq in Hc7. congruence.
    - unfold lit_cleanb in Hc6. unfold lit_clean. destruct (lookup (s_ "const") kvs); auto.
    - unfold lit_cleanb in Hc5. unfold lit_clean. destruct (lookup (s_ "enum") kvs); auto.
    - now apply dict_okb_sound.
    - destruct (lookup (s_ "properties") kvs) as [[| | | | | |p]|]; auto. now apply nodupb_sound.
    - now apply dict_okb_sound.
    - now apply dict_okb_sound.
    - unfold nonempty_listb in Hc0. unfold nonempty_list.
      destruct (lookup (s_ "anyOf") kvs) as [[| | | | |[|]|]|]; auto. discriminate.
    - unfold nonempty_listb in Hc. unfold nonempty_list.
      destruct (lookup (s_ "oneOf") kvs) as [[| | | | |[|]|]|]; auto. discriminate.
  Qed.

  Theorem plainb_sound : forall fuel S0, plainb fuel S0 = true -> plain cfg S0.
  Proof.
    induction fuel as [|n IH]; intros S0 H; [discriminate|]. cbn [plainb] in H.
    destruct S0; try discriminate; [constructor|].
    apply andb_true_iff in H as [H1 H2]. constructor; [now apply node_okb_sound|].
    apply Forall_forall. intros x Hx. apply IH. rewrite forallb_forall in H2. auto.
  Qed.
End Checker.
