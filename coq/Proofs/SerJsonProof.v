(* SerJsonProof.v — C03: facts about the JSON serializer model (SerJson.v). *)
From Coq Require Import String.
From Statham.Model Require Import Str Json Elem PyNum Validate Equality SerJson Spec6.
From Statham.Proofs Require Import StrFacts.
Local Open Scope string_scope.
Local Open Scope list_scope.

Definition source_of (np : str * prop elem) : str := match p_source (snd np) with [] => fst np | s => s end.

Lemma opt_list_id {A} (r : list A) :
  match (match r with [] => None | _ => Some r end) with Some l => l | None => [] end = r.
Proof. destruct r; reflexivity. Qed.

Lemma required_gen (explicit : list str) (props : list (str * prop elem)) n :
  In n (match props with
        | [] => explicit
        | _ => explicit ++ filter (fun m => negb (mem_str m explicit)) (required_of_props props)
        end) <->
  (In n explicit \/ exists np, In np props /\ p_required (snd np) = true /\ source_of np = n).
Proof.
  assert (Hprops : forall m, In m (required_of_props props) <->
                             exists np, In np props /\ p_required (snd np) = true /\ source_of np = m).
  { intros m. unfold required_of_props. rewrite in_map_iff. split.
    - intros (np & E & Hin). apply filter_In in Hin as [Hin Hr]. eauto.
    - intros (np & Hin & Hr & E). exists np. split; auto. apply filter_In. auto. }
  destruct props as [|p0 rest].
  - split; [tauto|]. intros [H|(np & [] & _)]; exact H.
  - rewrite in_app_iff, filter_In, Hprops. split.
    + intros [H|[H _]]; auto.
    + intros [H|H]; auto. destruct (mem_str n explicit) eqn:Em; [left; now apply mem_str_In|right; split; auto].
Qed.

(* "required" of the emitted schema (repaired code): every explicitly required name and the
   JSON name of every required property, nothing else *)
Theorem required_complete k n :
  In n (match merged_required true k with Some l => l | None => [] end) <->
  (In n (match k_required k with Some l => l | None => [] end) \/
   exists np, In np (match k_properties k with Some l => l | None => [] end) /\ p_required (snd np) = true /\ source_of np = n).
Proof. unfold merged_required. rewrite opt_list_id. apply required_gen. Qed.

(* "properties" of the emitted schema is keyed by the JSON names *)
Theorem properties_keyed_by_source F l :
  keys (s_props true F l) = map source_of l.
Proof. induction l as [|[n p] r IH]; simpl; [reflexivity|]. now rewrite IH. Qed.

(* the code as it was (properties keyed by Python name, required overwritten) did NOT preserve
   meaning: witnesses for the two repaired defects *)
Definition no_oracle : oracles := mkO (fun _ _ => false) (fun _ => None).
Definition kprops (req : option (list str)) (ps : list (str * prop elem)) (ap : addl elem) : kwds elem :=
  mkK None None None None (AddBool true) None None false None None None None None None None None None None
      req (Some ps) None ap None None None None None.

Theorem old_required_overwritten_refuted :
  let e := EK CElement (kprops (Some [s_ "x"]) [(s_ "y", mkProp (EK CInteger k0) false (s_ "y"))] (AddBool true)) in
  let v := JObj [] in
  accepts no_oracle e v = false /\ v6 no_oracle WNever (ser_top true false [] e) v = true /\
  v6 no_oracle WNever (ser_top true true [] e) v = false.
Proof. vm_compute. repeat split. Qed.

Theorem old_python_names_refuted :
  let e := EK CElement (kprops None [(s_ "class_", mkProp (EK CString k0) false (s_ "class"))] (AddBool false)) in
  let v := JObj [(s_ "class", JStr (s_ "c"))] in
  accepts no_oracle e v = true /\ v6 no_oracle WNever (ser_top false true [] e) v = false /\
  v6 no_oracle WNever (ser_top true true [] e) v = true.
Proof. vm_compute. repeat split. Qed.
