(* C01Thread.v — the validity theorem with object classes: the induction of C01Parse with the
   parse state threaded through it.  `walk` (C01Plain) says that no class name repeats along the
   parse, so _ParseState.dedupe returns each freshly built class itself; the class then decides
   its schema node by C01Element.object_om. *)
From Coq Require String. Import String.StringSyntax.
From Coq Require Import Lia Btauto.
From Statham.Model Require Import Str Json Elem Equality Names PyNum Validate Tables Parser Spec6 Plain.
From Statham.Proofs Require Import StrFacts JsonEqProof MetaProof DefaultsProof ParserFacts Agree_tables
     C01Vm C01Scalar C01Items C01Object C01Deep C01Plain C01Default C01Element C01Parse.
Local Open Scope string_scope.
Arguments s_ : simpl never.

Definition Inv (st : pstate) (u : list str) : Prop := forall n, lookup n st <> None -> In n u.

Lemma Inv_dict_set st u name (v : list elem) : Inv st u -> Inv (dict_set name v st) (name :: u).
Proof.
  unfold Inv. intros H n Hn. rewrite lookup_dict_set in Hn.
  destruct (str_eqb_spec n name) as [E|Hne]; [subst; now left|right; auto].
Qed.

Lemma dedupe_fresh cls st e st' u : Inv st u -> ~ In (obj_name cls) u ->
  dedupe cls st = POk (e, st') -> e = cls /\ Inv st' (obj_name cls :: u).
Proof.
  intros Hi Hn H. unfold dedupe in H.
  assert (El : lookup (obj_name cls) st = None).
  { destruct (lookup (obj_name cls) st) eqn:E; [|reflexivity]. exfalso. apply Hn, Hi. congruence. }
  rewrite El in H. cbn [find length app] in H. inversion H; subst. split; [reflexivity|].
  now apply Inv_dict_set.
Qed.

Section Thr.
  Variable cfg : pcfg.
  Variable O : oracles.
  Notation w := WCode.
  Notation F := (v6 O WCode).
  Notation B := (build O).
  Notation sim := (sim O WCode).
  Notation P := (parse_element cfg).

  Definition IHt (S0 : json) : Prop :=
    forall u u' st e st', walk cfg u S0 u' -> Inv st u -> P S0 st = POk (e, st') -> sim e S0 /\ Inv st' u'.

  Lemma walks_nil_inv u u' : walks cfg u [] u' -> u' = u.
  Proof. intros H. now inversion H. Qed.
  Lemma walks_one_inv u x u' : walks cfg u [x] u' -> walk cfg u x u'.
  Proof. intros H. inversion H as [|? ? u1 ? ? Hx Hr]; subst. inversion Hr; subst. exact Hx. Qed.
  Lemma walk_leaf_inv u S0 u' : (match S0 with JObj _ => False | _ => True end) -> walk cfg u S0 u' -> u' = u.
  Proof. intros Hl H. inversion H; subst; try reflexivity; contradiction. Qed.

  Lemma parse_list_thr l : Forall IHt l -> forall u u' st es st',
    walks cfg u l u' -> Inv st u -> parse_list P l st = POk (es, st') -> Forall2 sim es l /\ Inv st' u'.
  Proof.
    induction 1 as [|x r Hx Hr IH]; intros u u' st es st' Hw Hi H; cbn [parse_list] in H.
    - apply ret_inv in H as [<- <-]. apply walks_nil_inv in Hw. subst. split; [constructor|exact Hi].
    - inversion Hw as [|? ? u1 ? ? Hwx Hwr]; subst.
      apply bind_inv in H as (e & s1 & He & H). apply bind_inv in H as (es' & s2 & Hes & H).
      apply ret_inv in H as [<- <-].
      destruct (Hx _ _ _ _ _ Hwx Hi He) as [Hs Hi1].
      destruct (IH _ _ _ _ _ Hwr Hi1 Hes) as [Hss Hi2]. split; [constructor; auto|exact Hi2].
  Qed.

  Definition arel (ke : str * elem) (kv : str * json) : Prop :=
    fst ke = fst kv /\ sim (snd ke) (snd kv) /\ exists s1 s2, P (snd kv) s1 = POk (snd ke, s2).

  Lemma parse_assoc_thr kvs : Forall (fun kv => is_schema (snd kv) = true -> IHt (snd kv)) kvs ->
    forall u u' st es st',
    walks cfg u (filter is_schema (map snd kvs)) u' -> Inv st u ->
    parse_assoc P kvs st = POk (es, st') ->
    Forall2 arel es (filter (fun kv => is_schema (snd kv)) kvs) /\ Inv st' u'.
  Proof.
    induction 1 as [|[k v] r Hx Hr IH]; intros u u' st es st' Hw Hi H; cbn [parse_assoc] in H.
    - apply ret_inv in H as [<- <-]. apply walks_nil_inv in Hw. subst. split; [constructor|exact Hi].
    - cbn [map filter snd] in *. destruct (is_schema v) eqn:Es.
      + inversion Hw as [|? ? u1 ? ? Hwx Hwr]; subst.
        apply bind_inv in H as (e & s1 & He & H). apply bind_inv in H as (es' & s2 & Hes & H).
        apply ret_inv in H as [<- <-].
        destruct (Hx eq_refl _ _ _ _ _ Hwx Hi He) as [Hs Hi1].
        destruct (IH _ _ _ _ _ Hwr Hi1 Hes) as [Hss Hi2].
        split; [constructor; [repeat split; eauto|exact Hss]|exact Hi2].
      + eauto.
  Qed.

  Lemma arel_sim_assoc es kvs : Forall2 arel es kvs -> sim_assoc O WCode es kvs.
  Proof. induction 1 as [|? ? ? ? (E & Hs & _) _ IH]; constructor; auto. Qed.

  (* ---- one lemma per keyword position ---- *)
  Lemma items_thr kvs u u' st it st' :
    Forall IHt (match lookup (s_ "items") kvs with Some (JArr l) => l | Some s => [s] | None => [] end) ->
    walks cfg u (match lookup (s_ "items") kvs with Some (JArr l) => l | Some s => [s] | None => [] end) u' ->
    Inv st u ->
    with_key (parse_items P) (s_ "items") kvs (ret None) st = POk (it, st') ->
    sim_items O WCode it (lookup (s_ "items") kvs) /\ Inv st' u'.
  Proof.
    intros HI Hw Hi H. rewrite with_key_lookup in H. unfold sim_items.
    destruct (lookup (s_ "items") kvs) as [Si|].
    2:{ apply ret_inv in H as [<- <-]. apply walks_nil_inv in Hw. subst. split; [reflexivity|exact Hi]. }
    unfold parse_items in H.
    destruct Si as [| | | | |l|];
      try (apply bind_inv in H as (e & s1 & He & H); apply ret_inv in H as [<- <-];
           inversion HI as [|? ? Hx _]; subst; apply walks_one_inv in Hw;
           destruct (Hx _ _ _ _ _ Hw Hi He) as [Hs Hi1]; split; [eexists; split; [reflexivity|exact Hs]|exact Hi1]).
    apply bind_inv in H as (es & s1 & Hes & H). apply ret_inv in H as [<- <-].
    destruct (parse_list_thr l HI _ _ _ _ _ Hw Hi Hes) as [Hs Hi1].
    split; [eexists; split; [reflexivity|exact Hs]|exact Hi1].
  Qed.

  Lemma addl_thr key kvs u u' st a st' :
    Forall IHt (opt_list (lookup key kvs)) -> walks cfg u (opt_list (lookup key kvs)) u' -> Inv st u ->
    with_key (parse_addl P) key kvs (ret (AddBool true)) st = POk (a, st') ->
    sim_addl O WCode a (lookup key kvs) /\ Inv st' u'.
  Proof.
    intros HI Hw Hi H. rewrite with_key_lookup in H. unfold sim_addl.
    destruct (lookup key kvs) as [Sa|].
    2:{ apply ret_inv in H as [<- <-]. apply walks_nil_inv in Hw. subst. split; [reflexivity|exact Hi]. }
    unfold parse_addl in H. cbn [opt_list] in *. inversion HI as [|? ? Hx _]; subst. apply walks_one_inv in Hw.
    destruct Sa as [|b| | | | |];
      try (apply bind_inv in H as (e & s1 & He & H); apply ret_inv in H as [<- <-];
           destruct (Hx _ _ _ _ _ Hw Hi He) as [Hs Hi1]; split; [eexists; split; [reflexivity|exact Hs]|exact Hi1]).
    apply ret_inv in H as [<- <-]. apply walk_leaf_inv in Hw; [|exact I]. subst. split; [now left|exact Hi].
  Qed.

  Lemma some_thr key kvs u u' st oe st' :
    Forall IHt (opt_list (lookup key kvs)) -> walks cfg u (opt_list (lookup key kvs)) u' -> Inv st u ->
    with_key (parse_some P) key kvs (ret None) st = POk (oe, st') ->
    sim_opt O WCode oe (lookup key kvs) /\ Inv st' u'.
  Proof.
    intros HI Hw Hi H. rewrite with_key_lookup in H. unfold sim_opt.
    destruct (lookup key kvs) as [Sa|].
    2:{ apply ret_inv in H as [<- <-]. apply walks_nil_inv in Hw. subst. split; [reflexivity|exact Hi]. }
    unfold parse_some in H. cbn [opt_list] in *. inversion HI as [|? ? Hx _]; subst. apply walks_one_inv in Hw.
    apply bind_inv in H as (e & s1 & He & H). apply ret_inv in H as [<- <-].
    destruct (Hx _ _ _ _ _ Hw Hi He) as [Hs Hi1]. split; [eexists; split; [reflexivity|exact Hs]|exact Hi1].
  Qed.

  Lemma filter_schema_vals (p : list (str * json)) : Forall (fun kv => is_schema (snd kv) = true) p ->
    filter is_schema (map snd p) = map snd p /\ filter (fun kv => is_schema (snd kv)) p = p.
  Proof.
    induction 1 as [|[k v] r Hx Hr [IH1 IH2]]; [split; reflexivity|]. cbn [map filter snd] in *.
    rewrite Hx, IH1, IH2. split; reflexivity.
  Qed.

  Lemma pats_thr kvs u u' st pats st' :
    dict_ok true (lookup (s_ "patternProperties") kvs) ->
    Forall IHt (obj_vals (lookup (s_ "patternProperties") kvs)) ->
    walks cfg u (obj_vals (lookup (s_ "patternProperties") kvs)) u' -> Inv st u ->
    with_key (parse_pats P) (s_ "patternProperties") kvs (ret None) st = POk (pats, st') ->
    pats_rel O WCode kvs pats /\ Inv st' u'.
  Proof.
    intros Hok HI Hw Hi H. rewrite with_key_lookup in H. unfold pats_rel.
    destruct (lookup (s_ "patternProperties") kvs) as [Sp|].
    2:{ apply ret_inv in H as [<- <-]. apply walks_nil_inv in Hw. subst. split; [reflexivity|exact Hi]. }
    unfold parse_pats in H. destruct Sp as [| | | | | |pp]; try (exfalso; eapply fail_inv; exact H).
    apply bind_inv in H as (es & s1 & Hes & H). apply ret_inv in H as [<- <-].
    cbn [dict_ok obj_vals] in *. destruct Hok as [Hnd Hall].
    destruct (filter_schema_vals pp (Hall eq_refl)) as [E1 E2].
    rewrite <- E1 in Hw.
    destruct (parse_assoc_thr pp (Forall_obj_vals _ _ HI) _ _ _ _ _ Hw Hi Hes) as [Hs Hi1].
    rewrite E2 in Hs. apply arel_sim_assoc in Hs.
    split; [|exact Hi1]. exists es. split; [|exact Hs]. f_equal. unfold dict_of_pairs. apply dict_of_nodup.
    rewrite (sim_assoc_keys O WCode _ _ Hs). exact Hnd.
  Qed.

  Lemma deps_thr kvs u u' st deps st' :
    dict_ok false (lookup (s_ "dependencies") kvs) ->
    Forall IHt (filter is_schema (obj_vals (lookup (s_ "dependencies") kvs))) ->
    walks cfg u (filter is_schema (obj_vals (lookup (s_ "dependencies") kvs))) u' -> Inv st u ->
    with_key (parse_deps P) (s_ "dependencies") kvs (ret None) st = POk (deps, st') ->
    deps_rel O WCode kvs deps /\ Inv st' u'.
  Proof.
    intros Hok HI Hw Hi H.
    cut (deps_parsed O WCode kvs deps /\ Inv st' u'); [intros [Hd Hi']; split; [now apply deps_parsed_rel|exact Hi']|].
    rewrite with_key_lookup in H. unfold deps_parsed.
    destruct (lookup (s_ "dependencies") kvs) as [Sp|].
    2:{ apply ret_inv in H as [<- <-]. apply walks_nil_inv in Hw. subst. split; [reflexivity|exact Hi]. }
    unfold parse_deps in H. destruct Sp as [| | | | | |dd]; try (exfalso; eapply fail_inv; exact H).
    apply bind_inv in H as (es & s1 & Hes & H). apply ret_inv in H as [<- <-].
    cbn [dict_ok obj_vals] in *. destruct Hok as [Hnd _].
    destruct (parse_assoc_thr dd (Forall_filter_vals _ _ HI) _ _ _ _ _ Hw Hi Hes) as [Hs Hi1].
    apply arel_sim_assoc in Hs.
    split; [|exact Hi1]. split; [exact Hnd|]. exists es. split; [reflexivity|exact Hs].
  Qed.

  (* properties: also the concrete shape of the parsed _PropertyDict and, for schemas without
     composition keywords, whether the property's element has a default *)
  Definition props_struct0 (kvs : list (str * json)) (props : option (list (str * prop elem))) : Prop :=
    match lookup (s_ "properties") kvs with
    | None => props = None
    | Some (JObj pkvs) =>
      NoDup (keys pkvs) /\
      exists es, props = Some (map (fun ke : str * elem =>
                                     (attr cfg (fst ke), mkProp (snd ke) (mem_str (fst ke) (req_names kvs)) (fst ke))) es) /\
                 Forall2 (fun (ke : str * elem) (kv : str * json) =>
                            fst ke = fst kv /\
                            (nocomp (snd kv) -> (elem_default (snd ke) = None <-> schema_has_default (snd kv) = false)))
                         es pkvs
    | Some _ => False
    end.

  Lemma props_thr kvs u u' st props st' :
    dict_ok true (lookup (s_ "properties") kvs) ->
    (match lookup (s_ "properties") kvs with Some (JObj p) => NoDup (map (attr cfg) (keys p)) | _ => True end) ->
    Forall IHt (obj_vals (lookup (s_ "properties") kvs)) ->
    walks cfg u (obj_vals (lookup (s_ "properties") kvs)) u' -> Inv st u ->
    with_key (parse_props P (attr cfg) (req_names kvs)) (s_ "properties") kvs (ret None) st = POk (props, st') ->
    props_rel O WCode kvs props /\
    (forall r, In r (match props with Some ps => props_required ps | None => [] end) -> In r (req_names kvs)) /\
    props_struct0 kvs props /\ Inv st' u'.
  Proof.
    intros Hok Hattr HI Hw Hi H. rewrite with_key_lookup in H. unfold props_rel, props_struct0.
    destruct (lookup (s_ "properties") kvs) as [Sp|].
    2:{ apply ret_inv in H as [<- <-]. apply walks_nil_inv in Hw. subst.
        repeat split; auto. intros r []. }
    unfold parse_props in H. destruct Sp as [| | | | | |pkvs]; try (exfalso; eapply fail_inv; exact H).
    apply bind_inv in H as (es & s1 & Hes & H). apply ret_inv in H as [<- <-].
    cbn [dict_ok obj_vals] in *. destruct Hok as [Hnd Hall].
    destruct (filter_schema_vals pkvs (Hall eq_refl)) as [E1 E2].
    rewrite <- E1 in Hw.
    destruct (parse_assoc_thr pkvs (Forall_obj_vals _ _ HI) _ _ _ _ _ Hw Hi Hes) as [Ha Hi1].
    rewrite E2 in Ha. pose proof (arel_sim_assoc _ _ Ha) as Hs.
    set (reqs := req_names kvs) in *.
    set (ps := map (fun ke : str * elem => (attr cfg (fst ke), mkProp (snd ke) (mem_str (fst ke) reqs) (fst ke))) es).
    assert (Ekeys : keys ps = map (attr cfg) (keys pkvs)).
    { rewrite <- (sim_assoc_keys O WCode _ _ Hs). unfold ps, keys. rewrite !map_map. reflexivity. }
    assert (Esrc : map (fun np : str * prop elem => p_source (snd np)) ps = keys pkvs).
    { rewrite <- (sim_assoc_keys O WCode _ _ Hs). unfold ps, keys. rewrite !map_map. reflexivity. }
    assert (Edict : dict_of_pairs ps = ps).
    { unfold dict_of_pairs. apply dict_of_nodup. now rewrite Ekeys. }
    rewrite Edict. repeat split.
    - intros key. cbn [find_by_source_o].
      destruct (lookup key pkvs) as [Sx|] eqn:El.
      + apply lookup_In in El.
        destruct (Forall2_In_r _ _ _ _ Hs El) as ([k' e] & Hin & Ek & He). cbn [fst snd] in *. subst k'.
        exists (attr cfg key), (mem_str key reqs), e. split; [|exact He].
        assert (Hp : In (attr cfg key, mkProp e (mem_str key reqs) key) ps).
        { unfold ps. apply in_map_iff. exists (key, e). auto. }
        apply (find_by_source_unique (fun e => e) ps (eq_ind_r (fun l => NoDup l) Hnd Esrc) _ _ None Hp).
      + apply find_by_source_skip. rewrite Esrc. now apply lookup_None.
    - intros r Hr. unfold props_required in Hr. apply in_map_iff in Hr as ([n p] & <- & Hf).
      apply filter_In in Hf as [Hin Hc]. cbn [snd] in *. apply andb_true_iff in Hc as [Hc _].
      unfold ps in Hin. apply in_map_iff in Hin as ([k' e] & E & _). inversion E; subst. cbn [p_source p_required] in *.
      now apply mem_str_In.
    - exact Hnd.
    - exists es. split; [reflexivity|].
      clear - Ha. induction Ha as [|ke kv es pk (E & _ & s1 & s2 & Hp) _ IH]; constructor; [|exact IH].
      split; [exact E|]. intros Hn. eapply parse_default_status; eauto.
    - exact Hi1.
  Qed.

  (* ---- the node itself ---- *)
  Lemma typed_single_state t S0 K st e st' : str_eqb t (s_ "object") = false ->
    typed_single cfg t S0 K st = POk (e, st') -> st' = st.
  Proof.
    intros Ho H. unfold typed_single in H. rewrite Ho in H.
    destruct (has_key (s_ "self") S0); [exfalso; eapply fail_inv; exact H|].
    destruct (str_eqb t (s_ "array")); [now apply ret_inv in H as [_ <-]|].
    destruct (lookup t type_mapping); [now apply ret_inv in H as [_ <-]|exfalso; eapply fail_inv; exact H].
  Qed.

  Lemma finish_plain_state kvs S0 K st e st' : type_not_object kvs ->
    lookup (s_ "type") S0 = lookup (s_ "type") kvs ->
    finish_plain cfg S0 K st = POk (e, st') -> st' = st.
  Proof.
    intros Hno Et H. unfold finish_plain in H. rewrite Et in H. red in Hno.
    destruct (lookup (s_ "type") kvs) as [Sty|].
    2:{ destruct (has_key (s_ "self") S0); [exfalso; eapply fail_inv; exact H|]. now apply ret_inv in H as [_ <-]. }
    destruct Sty as [| | | |t|ts|]; try (exfalso; eapply fail_inv; exact H).
    - eapply typed_single_state; eauto. now apply str_eqb_neq.
    - assert (Hgo : forall S' K' ts0, Forall (fun t => t <> JStr (s_ "object")) ts0 -> forall s0 es s1,
                (fix go (l : list json) : M (list elem) :=
                   match l with
                   | [] => ret []
                   | JStr t :: r => do e <- typed_single cfg t S' K';; do es <- go r;; ret (e :: es)
                   | _ :: _ => fail PCrash
                   end) ts0 s0 = POk (es, s1) -> s1 = s0).
      { intros S' K'. induction 1 as [|tj tr Ht _ IH]; intros s0 es s1 H0.
        - now apply ret_inv in H0 as [_ <-].
        - destruct tj; try (exfalso; eapply fail_inv; exact H0).
          apply bind_inv in H0 as (e0 & t1 & He0 & H0). apply bind_inv in H0 as (es0 & t2 & Hes0 & H0).
          apply ret_inv in H0 as [_ <-].
          apply typed_single_state in He0; [|apply str_eqb_neq; intros ->; now apply Ht].
          apply IH in Hes0. congruence. }
      assert (Hgen : forall s0 e0 s1,
                (do es <- (fix go (l : list json) : M (list elem) :=
                    match l with
                    | [] => ret []
                    | JStr t :: r => do e <- typed_single cfg t (remove_key (s_ "default") S0) (set_default K None);; do es <- go r;; ret (e :: es)
                    | _ :: _ => fail PCrash
                    end) ts;;
                 match es with
                 | [] => fail PCrash
                 | _ => ret (EComp MAny es (k_default K))
                 end) s0 = POk (e0, s1) -> s1 = s0).
      { intros s0 e0 s1 H0. apply bind_inv in H0 as (es & t1 & Hes & H0).
        apply Hgo in Hes; [|exact Hno]. subst t1.
        destruct es; [exfalso; eapply fail_inv; exact H0|]. now apply ret_inv in H0 as [_ <-]. }
      destruct ts as [|[| | | |t| |] [|t2 tr]]; try (eapply Hgen; exact H).
      eapply typed_single_state; eauto. apply str_eqb_neq. intros ->. inversion Hno; subst. congruence.
  Qed.

  Lemma lookup_filter_drop (bad : list str) (kvs : list (str * json)) key : In key bad ->
    lookup key (filter (fun kv => negb (mem_str (fst kv) bad)) kvs) = None.
  Proof.
    intros Hin. apply lookup_None. intros Hk. unfold keys in Hk. apply in_map_iff in Hk as ([k v] & E & Hf).
    cbn [fst] in E. subst k. apply filter_In in Hf as [_ Hf]. cbn [fst] in Hf.
    apply negb_true_iff in Hf. apply mem_str_false in Hf. tauto.
  Qed.

  Definition other_of (kvs : list (str * json)) : list (str * json) :=
    filter (fun kv => negb (mem_str (fst kv) (s_ "default" :: composition_keywords))) kvs.

  Lemma other_keep kvs (p : String.string) : ~ In (s_ p) (s_ "default" :: composition_keywords) ->
    lookup (s_ p) (other_of kvs) = lookup (s_ p) kvs.
  Proof. intros H. unfold other_of. now apply lookup_filter_keep. Qed.

  Lemma obj_record_other kvs K d :
    obj_record cfg (other_of kvs) (set_default K d) = set_default (obj_record cfg kvs K) None.
  Proof.
    unfold obj_record, has_key.
    rewrite (other_keep kvs "required"), (other_keep kvs "const"), (other_keep kvs "enum"),
            (other_keep kvs "patternProperties"), (other_keep kvs "minProperties"), (other_keep kvs "maxProperties"),
            (other_keep kvs "propertyNames"), (other_keep kvs "dependencies"), (other_keep kvs "description")
      by (vm_compute; intuition discriminate).
    assert (Ed : lookup (s_ "default") (other_of kvs) = None).
    { unfold other_of. apply lookup_filter_drop. now left. }
    rewrite Ed. reflexivity.
  Qed.

  Lemma obj_title_other kvs : obj_title (other_of kvs) = obj_title kvs.
  Proof. unfold obj_title. now rewrite (other_keep kvs "title"), (other_keep kvs "_x_autotitle") by (vm_compute; intuition discriminate). Qed.

  Lemma parse_keys_thr kvs ks :
    (forall key, In key ks -> Forall IHt (arr_list (lookup key kvs))) ->
    forall u u' st parsed st',
    walks cfg u (flat_map (fun key => arr_list (lookup key kvs)) ks) u' -> Inv st u ->
    parse_keys (fun key => with_key (parse_comp_list P) key kvs (ret [])) ks st = POk (parsed, st') ->
    Inv st' u' /\ forall key, In key ks -> comp_rel O WCode kvs key parsed.
  Proof.
    induction ks as [|k0 r IH]; intros HI u u' st parsed st' Hw Hi H; cbn [parse_keys flat_map] in *.
    - apply ret_inv in H as [<- <-]. apply walks_nil_inv in Hw. subst. split; [exact Hi|intros key []].
    - apply walks_app in Hw as (u1 & Hw1 & Hw2).
      apply bind_inv in H as (es & s1 & Hsub & H). apply bind_inv in H as (rest & s2 & Hrest & H).
      apply ret_inv in H as [<- <-].
      assert (Hstep : Inv s1 u1 /\ match lookup k0 kvs with
                                    | None => es = []
                                    | Some (JArr l) => Forall2 sim es l
                                    | Some _ => False end).
      { rewrite with_key_lookup in Hsub. pose proof (HI k0 (or_introl eq_refl)) as HI0.
        destruct (lookup k0 kvs) as [Sl|].
        - unfold parse_comp_list in Hsub. destruct Sl; try (exfalso; eapply fail_inv; exact Hsub).
          cbn [arr_list] in *. destruct (parse_list_thr _ HI0 _ _ _ _ _ Hw1 Hi Hsub) as [Hs Hi1]. split; auto.
        - apply ret_inv in Hsub as [<- <-]. cbn [arr_list] in Hw1. apply walks_nil_inv in Hw1. subst. split; auto. }
      destruct Hstep as [Hi1 Hrel0].
      destruct (IH (fun key Hk => HI key (or_intror Hk)) _ _ _ _ _ Hw2 Hi1 Hrest) as [Hi2 Hrel].
      split; [exact Hi2|]. intros key Hin. unfold comp_rel, ofk. cbn [lookup].
      destruct (str_eqb_spec key k0) as [->|Hne]; [exact Hrel0|].
      destruct Hin as [E|Hin]; [congruence|]. exact (Hrel key Hin).
  Qed.

  Definition comp_exact : Prop :=
    (forall key, In key (map s_ ["allOf"; "anyOf"; "oneOf"]) -> In key (c_comp_order cfg)) /\
    (forall key, In key (c_comp_order cfg) -> In key (map s_ ["allOf"; "anyOf"; "oneOf"])).
  Hypothesis Hcfg : comp_exact.

  Lemma object_node_type kvs : is_object_node kvs = true -> lookup (s_ "type") kvs = Some (JStr (s_ "object")).
  Proof.
    unfold is_object_node. destruct (lookup (s_ "type") kvs) as [[| | | |t| |]|]; try discriminate.
    intros E. apply str_eqb_eq in E. now subst.
  Qed.

  Lemma not_object_node kvs : is_object_node kvs = false -> type_cond true kvs -> type_not_object kvs.
  Proof.
    unfold is_object_node, type_cond, type_not_object.
    destruct (lookup (s_ "type") kvs) as [[| | | |t| |]|]; auto. intros E _. now apply str_eqb_neq.
  Qed.

  Lemma Forall2_impl_In {A C} (R R' : A -> C -> Prop) l l' :
    Forall2 R l l' -> (forall x y, In y l' -> R x y -> R' x y) -> Forall2 R' l l'.
  Proof.
    induction 1 as [|x y l l' Hxy Hl IH]; intros Himp; constructor.
    - apply Himp; [now left|exact Hxy].
    - apply IH. intros x0 y0 Hy. apply Himp. now right.
  Qed.

  Lemma In_has_key {A} k (v : A) l : In (k, v) l -> has_key k l = true.
  Proof.
    intros H. unfold has_key. destruct (lookup k l) eqn:E; [reflexivity|].
    apply lookup_None in E. exfalso. apply E. unfold keys. apply in_map_iff. exists (k, v). auto.
  Qed.

  Theorem parse_sim_obj : forall S0, plain cfg true S0 -> IHt S0.
  Proof.
    apply (plain_ind' cfg true IHt).
    - (* booleans *)
      intros b u u' st e st' Hw Hi H. apply walk_leaf_inv in Hw; [|exact I]. subst u'.
      destruct b; cbn [parse_element] in H; apply ret_inv in H as [<- <-]; (split; [|exact Hi]).
      + apply sim_element. reflexivity.
      + intros v _. reflexivity.
    - intros kvs Hnode _ IH u u' st e st' Hw Hi H.
      destruct Hnode as (Hnd & Htc & Hconst & Henum & Hpok & Hattr & Hppok & Hdok & Hany & Hone).
      unfold subschemas in IH.
      repeat match type of IH with Forall _ (_ ++ _) => let I1 := fresh "I" in apply Forall_app in IH as [I1 IH] end.
      cbn [parse_element] in H.
      destruct (existsb (fun kv => mem_str (fst kv) (c_unsupported cfg)) kvs); [exfalso; eapply fail_inv; exact H|].
      apply bind_inv in H as (props & s1 & Hp1 & H). apply bind_inv in H as (items & s2 & Hp2 & H).
      apply bind_inv in H as (pats & s3 & Hp3 & H). apply bind_inv in H as (pnames & s4 & Hp4 & H).
      apply bind_inv in H as (contains & s5 & Hp5 & H). apply bind_inv in H as (deps & s6 & Hp6 & H).
      apply bind_inv in H as (addp & s7 & Hp7 & H). apply bind_inv in H as (addi & s8 & Hp8 & H).
      (* the walk of this node *)
      assert (Hwn : exists u1 u2, walks cfg u (pre_list kvs) u1 /\ own_step kvs u1 u2 /\
                (if has_comp kvs
                 then exists u3, walks cfg u2 (comp_lists cfg kvs) u3 /\ walks cfg u3 (opt_list (lookup (s_ "not") kvs)) u'
                 else u' = u2)).
      { inversion Hw as [? ? Hl|? ? u1 u2 Hc Hpre Hown|? ? u1 u2 u3 ? Hc Hpre Hown Hcl Hnot]; subst; [contradiction| |].
        - exists u1, u'. rewrite Hc. auto.
        - exists u1, u2. rewrite Hc. eauto. }
      destruct Hwn as (u1 & u2 & Hpre & Hown & Hrest). clear Hw.
      unfold pre_list in Hpre.
      apply walks_app in Hpre as (a1 & W1 & Hpre). apply walks_app in Hpre as (a2 & W2 & Hpre).
      apply walks_app in Hpre as (a3 & W3 & Hpre). apply walks_app in Hpre as (a4 & W4 & Hpre).
      apply walks_app in Hpre as (a5 & W5 & Hpre). apply walks_app in Hpre as (a6 & W6 & Hpre).
      apply walks_app in Hpre as (a7 & W7 & W8).
      destruct (props_thr kvs _ _ _ _ _ Hpok Hattr I5 W1 Hi Hp1) as (Rprops & Rreq & Rstruct & J1).
      destruct (items_thr kvs _ _ _ _ _ I W2 J1 Hp2) as (Ritems & J2).
      destruct (pats_thr kvs _ _ _ _ _ Hppok I6 W3 J2 Hp3) as (Rpats & J3).
      destruct (some_thr _ kvs _ _ _ _ _ I2 W4 J3 Hp4) as (Rpnames & J4).
      destruct (some_thr _ kvs _ _ _ _ _ I1 W5 J4 Hp5) as (Rcontains & J5).
      destruct (deps_thr kvs _ _ _ _ _ Hdok I7 W6 J5 Hp6) as (Rdeps & J6).
      destruct (addl_thr _ kvs _ _ _ _ _ I3 W7 J6 Hp7) as (Raddp & J7).
      destruct (addl_thr _ kvs _ _ _ _ _ I0 W8 J7 Hp8) as (Raddi & J8).
      set (K := kw_record kvs props items pats pnames contains deps addp addi) in *.
      (* the node itself: Element / typed element / class *)
      assert (Hstep : forall S0 K' s9 e9 s10,
                (S0 = kvs /\ K' = K) \/ (S0 = other_of kvs /\ K' = set_default K None) ->
                finish_plain cfg S0 K' s9 = POk (e9, s10) -> Inv s9 u1 ->
                (forall v, jwf v -> om (B e9 (Some v)) (cl_type kvs v && rest_b O WCode kvs v)) /\ Inv s10 u2).
      { intros S0 K' s9 e9 s10 HS Hfp Hi9.
        assert (Et : lookup (s_ "type") S0 = lookup (s_ "type") kvs).
        { destruct HS as [[-> _]|[-> _]]; [reflexivity|]. apply other_keep. vm_compute. intuition discriminate. }
        assert (HKv : Kvariant kvs props items pats pnames contains deps addp addi K').
        { destruct HS as [[_ ->]|[_ ->]]; [now left|right; eexists; reflexivity]. }
        unfold own_step in Hown.
        destruct (is_object_node kvs) eqn:Eobj.
        - (* a class *)
          pose proof (object_node_type kvs Eobj) as Ety.
          assert (Hobj : obj_node_ok kvs).
          { red in Htc. rewrite Ety in Htc. now destruct (Htc eq_refl). }
          unfold finish_plain in Hfp. rewrite Et, Ety in Hfp. unfold typed_single in Hfp.
          rewrite str_eqb_refl in Hfp. unfold parse_object in Hfp.
          assert (Eti : obj_title S0 = obj_title kvs).
          { destruct HS as [[-> _]|[-> _]]; [reflexivity|apply obj_title_other]. }
          rewrite Eti in Hfp.
          destruct (obj_title kvs) as [[| | | |[|c t]| |]|];
            try (exfalso; revert Hfp; unfold fail; try destruct (py_truthy _); discriminate).
          destruct Hown as [Hfresh ->].
          destruct (dedupe_fresh (EObj (title_format (c :: t)) [s_ "Object"] (obj_record cfg S0 K')) _ _ _ _ Hi9 Hfresh Hfp)
            as [-> Hi10].
          split; [|exact Hi10].
          intros v Hv.
          assert (Eb : B (EObj (title_format (c :: t)) [s_ "Object"] (obj_record cfg S0 K')) (Some v) =
                       B (EObj (title_format (c :: t)) [s_ "Object"] (obj_record cfg kvs K)) (Some v)).
          { destruct HS as [[-> ->]|[-> ->]]; [reflexivity|]. rewrite obj_record_other. apply build_obj_set_default. }
          rewrite Eb. unfold cl_type. rewrite Ety.
          (* the hypotheses of object_om *)
          assert (Hrd : reqs_declared kvs).
          { intros r Hr. specialize (Hobj r Hr).
            destruct (lookup (s_ "properties") kvs) as [[| | | | | |pkvs]|]; try contradiction.
            destruct Hobj as (Sp & Hl & _). unfold has_key. now rewrite Hl. }
          assert (Hst : props_struct kvs props cfg).
          { red. red in Rstruct. destruct (lookup (s_ "properties") kvs) as [[| | | | | |pkvs]|] eqn:Ep; auto.
            destruct Rstruct as (Hndp & es & Eprops & Hes). split; [exact Hndp|]. exists es. split; [exact Eprops|].
            eapply Forall2_impl_In; [exact Hes|]. intros ke [k0 S1] Hin (E & Hd). split; [exact E|]. intros Hr. apply Hd.
            cbn [fst snd] in *. specialize (Hobj _ Hr). rewrite Ep in Hobj. destruct Hobj as (Sp & Hl & Hnc).
            rewrite (In_lookup _ _ _ Hndp Hin) in Hl. now inversion Hl. }
          assert (Hra : forall r, In r (reqs kvs) -> has_key (attr cfg r) (props0 props) = true).
          { intros r Hr. pose proof (Hobj r Hr) as Ho. red in Rstruct.
            destruct (lookup (s_ "properties") kvs) as [[| | | | | |pkvs]|]; try contradiction.
            destruct Ho as (Sp & Hl & _). destruct Rstruct as (Hndp & es & -> & Hes).
            apply lookup_In in Hl. destruct (Forall2_In_r _ _ _ _ Hes Hl) as ([k0 e0] & Hin & E & _).
            cbn [fst] in E. subst k0. unfold props0.
            apply (In_has_key _ (mkProp e0 (mem_str r (req_names kvs)) r)).
            apply in_map_iff. exists (r, e0). auto. }
          assert (Htyp : typed_object kvs = true).
          { unfold typed_object. rewrite Ety. apply str_eqb_refl. }
          exact (object_om O WCode kvs props items pats pnames contains deps addp addi
                           Hconst Henum Ritems Raddi Rcontains Rpnames Rprops Rpats Raddp Rdeps Rreq cfg Hra
                           _ _ v eq_refl Htyp Hst Hrd Hv).
        - (* Element / typed element *)
          pose proof (not_object_node kvs Eobj Htc) as Hno. subst u2.
          pose proof (finish_plain_state kvs S0 K' _ _ _ Hno Et Hfp) as ->.
          split; [|exact Hi9]. intros v Hv.
          refine (finish_plain_om O WCode kvs props items pats pnames contains deps addp addi
                    Hconst Henum Ritems Raddi Rcontains Rpnames Rprops Rpats Raddp Rdeps Rreq cfg
                    (fun name => waived_false WCode ltac:(discriminate) kvs name Hno) S0 K' _ _ _ HKv Et Hno Hfp v Hv). }
      destruct Hcfg as [Hcfg1 Hcfg2].
      change (existsb (fun kv => mem_str (fst kv) composition_keywords) kvs) with (has_comp kvs) in H.
      destruct (has_comp kvs) eqn:Ecomp; cbn [negb] in H.
      + (* composition *)
        change (filter (fun kv => negb (mem_str (fst kv) (s_ "default" :: composition_keywords))) kvs)
          with (other_of kvs) in H.
        apply bind_inv in H as (base & s9 & Hbase & H). apply bind_inv in H as (parsed & s10 & Hparsed & H).
        apply bind_inv in H as (nots & s11 & Hnots & H).
        destruct Hrest as (u3 & Wc & Wn).
        destruct (Hstep _ _ _ _ _ (or_intror (conj eq_refl eq_refl)) Hbase J8) as [Hb0 J9].
        assert (HIc : forall key, In key (c_comp_order cfg) -> Forall IHt (arr_list (lookup key kvs))).
        { intros key Hk. specialize (Hcfg2 key Hk). cbn [map In] in Hcfg2.
          destruct Hcfg2 as [<-|[<-|[<-|[]]]]; assumption. }
        destruct (parse_keys_thr kvs (c_comp_order cfg) HIc _ _ _ _ _ Wc J9 Hparsed) as [J10 Hrel].
        assert (Hn : nots_rel O WCode kvs nots /\ Inv s11 u').
        { unfold nots_rel. rewrite with_key_lookup in Hnots.
          destruct (lookup (s_ "not") kvs) as [Sn|].
          - unfold parse_not in Hnots. apply bind_inv in Hnots as (en & t1 & Hen & Hnots).
            apply ret_inv in Hnots as [<- <-]. cbn [opt_list] in *. inversion I4 as [|? ? Hi4 _]; subst.
            apply walks_one_inv in Wn. destruct (Hi4 _ _ _ _ _ Wn J10 Hen) as [Hs J11].
            split; [exists en; auto|exact J11].
          - apply ret_inv in Hnots as [<- <-]. cbn [opt_list] in Wn. apply walks_nil_inv in Wn. subst. auto. }
        destruct Hn as [Hn J11].
        assert (Est : st' = s11).
        { match type of H with (if ?c then _ else _) _ = _ => destruct c end; now apply ret_inv in H as [_ <-]. }
        subst st'. split; [|exact J11].
        intros v Hv.
        refine (comp_assemble O WCode kvs v base parsed nots e s11 s11 Hv Hany Hone (Hb0 v Hv) _ _ _ Hn H).
        * apply Hrel, Hcfg1. now left.
        * apply Hrel, Hcfg1. right; now left.
        * apply Hrel, Hcfg1. right; right; now left.
      + (* no composition keyword *)
        subst u'. destruct (Hstep _ _ _ _ _ (or_introl (conj eq_refl eq_refl)) H J8) as [Hb0 J9].
        split; [|exact J9]. intros v Hv. apply nocomp_assemble; [exact Ecomp|]. apply Hb0, Hv.
  Qed.
End Thr.

(* ---- the statements used by Properties/C01.v ---- *)
Theorem validity_classes cfg O S0 u u' st e st' :
  comp_exact cfg -> plain cfg true S0 -> walk cfg u S0 u' -> Inv st u ->
  parse_element cfg S0 st = POk (e, st') ->
  forall v, jwf v -> om (build O e (Some v)) (valid6 O S0 v).
Proof.
  intros Hc Hp Hw Hi H v Hv.
  destruct (parse_sim_obj cfg O Hc S0 Hp u u' st e st' Hw Hi H) as [Hs _]. exact (Hs v Hv).
Qed.

Corollary validity_classes_top cfg O S0 u' e st' :
  comp_exact cfg -> plain cfg true S0 -> walk cfg [] S0 u' ->
  parse_element cfg S0 [] = POk (e, st') ->
  forall v, jwf v -> om (build O e (Some v)) (valid6 O S0 v).
Proof.
  intros Hc Hp Hw H. eapply validity_classes; eauto. intros n Hn. now destruct Hn.
Qed.

Definition comp_exactb (l : list str) : bool :=
  forallb (fun k => mem_str k l) (map s_ ["allOf"; "anyOf"; "oneOf"]) &&
  forallb (fun k => mem_str k (map s_ ["allOf"; "anyOf"; "oneOf"])) l.

Lemma comp_exactb_sound u r un l : comp_exactb l = true -> comp_exact (mkCfg u r un l).
Proof.
  unfold comp_exactb, comp_exact. intros H. apply andb_true_iff in H as [H1 H2].
  rewrite forallb_forall in H1, H2. cbn [c_comp_order].
  split; intros key Hk; apply mem_str_In; auto.
Qed.

Lemma real_comp_exact u r un : comp_exact (mkCfg u r un Statham.Generated.Gen_parser_tables.comp_order_now).
Proof. apply comp_exactb_sound. vm_compute. reflexivity. Qed.
