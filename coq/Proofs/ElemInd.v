(* ElemInd.v — induction over element trees: P holds of e whenever it holds of every direct
   sub-element (Sub.children). *)
From Statham.Model Require Import Str Json Elem Sub.

Section ElemInd.
  Variable P : elem -> Prop.
  Hypothesis step : forall e, Forall P (children e) -> P e.

  Section Lists.
    Variable F : forall e, P e.
    Fixpoint all_list (l : list elem) : Forall P l :=
      match l with [] => Forall_nil _ | x :: r => Forall_cons x (F x) (all_list r) end.
    Fixpoint all_props (l : list (str * prop elem)) : Forall P (map (fun np => p_elem (snd np)) l) :=
      match l with [] => Forall_nil _ | (n, p) :: r => Forall_cons (p_elem p) (F (p_elem p)) (all_props r) end.
    Fixpoint all_pats (l : list (str * elem)) : Forall P (map snd l) :=
      match l with [] => Forall_nil _ | (n, e) :: r => Forall_cons e (F e) (all_pats r) end.
    Definition all_dep (d : dep_t elem) : Forall P (dep_elems d) :=
      match d with DepElem e => Forall_cons e (F e) (Forall_nil _) | DepNames _ => Forall_nil _ end.
    Fixpoint all_deps (l : list (str * dep_t elem)) : Forall P (flat_map (fun kd => dep_elems (snd kd)) l) :=
      match l with
      | [] => Forall_nil _
      | (n, d) :: r => proj2 (Forall_app P (dep_elems d) _) (conj (all_dep d) (all_deps r))
      end.
    Definition all_items (o : option (items_t elem)) : Forall P (sub_items o) :=
      match o with
      | Some (ItOne e) => Forall_cons e (F e) (Forall_nil _)
      | Some (ItMany l) => all_list l
      | None => Forall_nil _
      end.
    Definition all_addl (a : addl elem) : Forall P (sub_addl a) :=
      match a with AddElem e => Forall_cons e (F e) (Forall_nil _) | AddBool _ => Forall_nil _ end.
    Definition all_opt (o : option elem) : Forall P (sub_opt o) :=
      match o with Some e => Forall_cons e (F e) (Forall_nil _) | None => Forall_nil _ end.
    Definition all_k (k : kwds elem) : Forall P (ksub k) :=
      proj2 (Forall_app P _ _) (conj (all_items (k_items k))
      (proj2 (Forall_app P _ _) (conj (all_addl (k_additionalItems k))
      (proj2 (Forall_app P _ _) (conj (all_opt (k_contains k))
      (proj2 (Forall_app P _ _) (conj (match k_properties k as o return Forall P (sub_props o) with
                                       | Some l => all_props l | None => Forall_nil _ end)
      (proj2 (Forall_app P _ _) (conj (match k_patternProperties k as o return Forall P (sub_pats o) with
                                       | Some l => all_pats l | None => Forall_nil _ end)
      (proj2 (Forall_app P _ _) (conj (all_addl (k_additionalProperties k))
      (proj2 (Forall_app P _ _) (conj (all_opt (k_propertyNames k))
             (match k_dependencies k as o return Forall P (sub_deps o) with
              | Some l => all_deps l | None => Forall_nil _ end)))))))))))))).
  End Lists.

  Fixpoint elem_ind' (e : elem) : P e :=
    step e
      (match e as e0 return Forall P (children e0) with
       | EK _ k => all_k elem_ind' k
       | ENothing => Forall_nil _
       | ENot x _ => Forall_cons x (elem_ind' x) (Forall_nil _)
       | EComp _ es _ => all_list elem_ind' es
       | EObj _ _ k => all_k elem_ind' k
       end).
End ElemInd.
