(* StrFacts.v — basic facts about str equality and association lists. *)
From Coq Require Import Lia Permutation.
From Statham.Model Require Import Str.

Lemma str_eqb_spec (a b : str) : reflect (a = b) (str_eqb a b).
Proof.
  revert b; induction a as [|x a IH]; intros [|y b]; simpl; try (constructor; congruence).
  destruct (N.eqb_spec x y) as [->|Hn]; simpl.
  - destruct (IH b) as [->|Hn]; constructor; congruence.
  - constructor; congruence.
Qed.

Lemma str_eqb_refl a : str_eqb a a = true.
Proof. destruct (str_eqb_spec a a); congruence. Qed.

Lemma str_eqb_eq a b : str_eqb a b = true <-> a = b.
Proof. destruct (str_eqb_spec a b); split; congruence. Qed.

Lemma str_eqb_neq a b : str_eqb a b = false <-> a <> b.
Proof. destruct (str_eqb_spec a b); split; congruence. Qed.

Lemma str_eqb_sym a b : str_eqb a b = str_eqb b a.
Proof. destruct (str_eqb_spec a b), (str_eqb_spec b a); congruence. Qed.

Definition str_eq_dec : forall a b : str, {a = b} + {a <> b} := list_eq_dec N.eq_dec.

Lemma mem_str_In x l : mem_str x l = true <-> In x l.
Proof.
  unfold mem_str; rewrite existsb_exists; split.
  - intros (y & Hy & He); apply str_eqb_eq in He; subst; auto.
  - intros H; exists x; split; auto using str_eqb_refl.
Qed.

Lemma mem_str_false x l : mem_str x l = false <-> ~ In x l.
Proof. rewrite <- mem_str_In; destruct (mem_str x l); split; congruence. Qed.

Section Assoc.
  Context {A : Type}.
  Implicit Types kvs : list (str * A).

  Lemma lookup_In k kvs v : lookup k kvs = Some v -> In (k, v) kvs.
  Proof.
    induction kvs as [|[k' v'] r IH]; simpl; [discriminate|].
    destruct (str_eqb_spec k k') as [->|Hn]; intros H.
    - injection H as ->; auto.
    - auto.
  Qed.

  Lemma In_lookup k v kvs : NoDup (keys kvs) -> In (k, v) kvs -> lookup k kvs = Some v.
  Proof.
    induction kvs as [|[k' v'] r IH]; simpl; [tauto|].
    intros Hnd [Heq|Hin].
    - injection Heq as -> ->; now rewrite str_eqb_refl.
    - inversion Hnd as [|? ? Hni Hnd']; subst.
      destruct (str_eqb_spec k k') as [->|Hn]; [|auto].
      exfalso; apply Hni; unfold keys; change k' with (fst (k', v)); now apply in_map.
  Qed.

  Lemma lookup_None k kvs : lookup k kvs = None <-> ~ In k (keys kvs).
  Proof.
    induction kvs as [|[k' v'] r IH]; simpl; [tauto|].
    destruct (str_eqb_spec k k') as [->|Hn].
    - split; [discriminate|tauto].
    - rewrite IH; split; [intros H [E|I]; [congruence|tauto] | tauto].
  Qed.

  Lemma keys_remove_key k kvs : keys (remove_key k kvs) = filter (fun x => negb (str_eqb k x)) (keys kvs).
  Proof.
    induction kvs as [|[k' v'] r IH]; simpl; [reflexivity|].
    destruct (str_eqb k k'); simpl; congruence.
  Qed.

  Lemma In_remove_key k k' v kvs : In (k', v) (remove_key k kvs) <-> In (k', v) kvs /\ k' <> k.
  Proof.
    induction kvs as [|[k2 v2] r IH]; simpl; [tauto|].
    destruct (str_eqb_spec k k2) as [->|Hn]; simpl; rewrite IH; split.
    - tauto.
    - intros [[E|I] Hne]; [congruence|tauto].
    - intros [E|[I Hne]]; [injection E as <- <-; split; auto; congruence | tauto].
    - tauto.
  Qed.
End Assoc.
