(* DictFacts.v — Python dict equality on association lists with unique keys:
   "same size and every key of a is in b with a related value" is symmetric/reflexive. *)
From Coq Require Import Lia.
From Statham.Model Require Import Str.
From Statham.Proofs Require Import StrFacts.

Section DSub.
  Context {A B : Type}.
  Variable R : A -> B -> bool.
  Fixpoint dsub (a : list (str * A)) (b : list (str * B)) : bool :=
    match a with
    | [] => true
    | (k, x) :: r => match lookup k b with Some y => R x y && dsub r b | None => false end
    end.

  Lemma dsub_spec a b : dsub a b = true <->
    (forall k x, In (k, x) a -> exists y, lookup k b = Some y /\ R x y = true).
  Proof.
    induction a as [|[k x] r IH]; simpl.
    - split; [intros _ k x []|reflexivity].
    - destruct (lookup k b) as [y|] eqn:E.
      + rewrite andb_true_iff, IH. split.
        * intros [H1 H2] k' x' [Heq|Hin]; [injection Heq as <- <-; eauto|auto].
        * intros H. split.
          -- destruct (H k x (or_introl eq_refl)) as (y' & Hy & HR). congruence.
          -- intros k' x' Hin. apply H. now right.
      + split; [discriminate|].
        intros H. destruct (H k x (or_introl eq_refl)) as (y' & Hy & _). congruence.
  Qed.
End DSub.

Lemma keys_incl_of_dsub {A B} (R : A -> B -> bool) a b : dsub R a b = true -> incl (keys a) (keys b).
Proof.
  rewrite dsub_spec. intros H k Hk. unfold keys in Hk. apply in_map_iff in Hk as ([k' x] & E & Hin).
  simpl in E; subst k'. destruct (H k x Hin) as (y & Hy & _).
  apply lookup_In in Hy. unfold keys. apply in_map_iff. exists (k, y). split; auto.
Qed.

Lemma dsub_sym {A B} (R : A -> B -> bool) (R' : B -> A -> bool) a b :
  NoDup (keys a) -> NoDup (keys b) -> length a = length b ->
  (forall k x y, In (k, x) a -> In (k, y) b -> R x y = true -> R' y x = true) ->
  dsub R a b = true -> dsub R' b a = true.
Proof.
  intros Ha Hb Hl HR H.
  pose proof (keys_incl_of_dsub R a b H) as Hincl.
  assert (Hback : incl (keys b) (keys a)).
  { apply NoDup_length_incl; auto. unfold keys. rewrite !map_length. lia. }
  rewrite dsub_spec in H. apply dsub_spec. intros k y Hin.
  assert (Hk : In k (keys a)).
  { apply Hback. unfold keys. apply in_map_iff. exists (k, y). split; auto. }
  unfold keys in Hk. apply in_map_iff in Hk as ([k' x] & E & Hina). simpl in E; subst k'.
  exists x. split; [apply In_lookup; auto|].
  destruct (H k x Hina) as (y' & Hy' & HRxy).
  assert (y' = y).
  { pose proof (In_lookup k y b Hb Hin). congruence. }
  subst y'. eapply HR; eauto.
Qed.

Lemma dsub_refl {A} (R : A -> A -> bool) a :
  NoDup (keys a) -> (forall k x, In (k, x) a -> R x x = true) -> dsub R a a = true.
Proof.
  intros Ha HR. apply dsub_spec. intros k x Hin. exists x. split; [apply In_lookup; auto|eauto].
Qed.
