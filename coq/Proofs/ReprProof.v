(* ReprProof.v — C18: binding the arguments produced by custom_repr_args back through the
   constructor signature reproduces every attribute up to Python ==, and a keyword is
   printed exactly when its value differs from the parameter default. *)
From Coq Require Import Lia.
From Statham.Model Require Import Str Json Elem Tables Repr.
From Statham.Proofs Require Import StrFacts.

Section Generic.
  Variable V : Type.
  Variable veq : V -> V -> bool.
  Variable unpack : V -> list V.
  Variable pack : list V -> V.
  Hypothesis veq_refl : forall x, veq x x = true.
  Hypothesis pack_unpack : forall x, veq x (pack (unpack x)) = true.
  Variable get : str -> V.

  Notation param := (param V).
  Notation repr_args := (repr_args V veq unpack).
  Notation bind_sig := (bind_sig V pack).

  Definition omitted (p : param) : bool :=
    match snd p with Some dv => veq (get (pname V p)) dv | None => false end.

  (* what the rebuilt attribute of parameter p must be related to *)
  Definition attr_ok (p : param) (a : str * V) : Prop :=
    fst a = pname V p /\ veq (get (pname V p)) (snd a) = true.

  Lemma kw_tail_args sig : kwonly_tail V sig = true -> fst (repr_args sig get) = [].
  Proof.
    induction sig as [|[[n k] d] sig IH]; simpl; [reflexivity|].
    destruct k; try discriminate. destruct d as [dv|]; [|discriminate].
    intros H. specialize (IH H). destruct (repr_args sig get) as [a kw]. simpl in IH. subst a.
    destruct (veq (get n) dv); reflexivity.
  Qed.

  (* keyword arguments: looked up by name they give exactly the non-default values *)
  Lemma kwargs_lookup sig n : ~ In n (map (pname V) sig) -> lookup n (snd (repr_args sig get)) = None.
  Proof.
    induction sig as [|[[m k] d] sig IH]; simpl; [reflexivity|].
    intros Hn. assert (Hm : m <> n) by tauto. assert (Hr : ~ In n (map (pname V) sig)) by tauto.
    specialize (IH Hr). destruct (repr_args sig get) as [a kw]. simpl in *.
    destruct (match d with Some dv => veq (get m) dv | None => false end); [exact IH|].
    destruct k; simpl; try exact IH.
    destruct (str_eqb_spec n m); [congruence|exact IH].
  Qed.

  Lemma kwargs_lookup_kw sig n d : NoDup (map (pname V) sig) -> In (n, KwOnly, d) sig ->
    lookup n (snd (repr_args sig get)) = if omitted (n, KwOnly, d) then None else Some (get n).
  Proof.
    induction sig as [|[[m k] d'] sig IH]; simpl; [tauto|].
    intros Hnd [Heq|Hin].
    - injection Heq as -> -> ->. inversion Hnd as [|? ? Hni _]; subst.
      pose proof (kwargs_lookup sig n Hni) as Hl.
      unfold omitted, pname in *; simpl in *. destruct (repr_args sig get) as [a kw]. simpl in *.
      destruct (match d with Some dv => veq (get n) dv | None => false end); [exact Hl|].
      simpl. now rewrite str_eqb_refl.
    - inversion Hnd as [|? ? Hni Hnd']; subst. specialize (IH Hnd' Hin).
      assert (Hne : n <> m).
      { intros ->. apply Hni. apply in_map_iff. exists (m, KwOnly, d). split; [reflexivity|assumption]. }
      destruct (repr_args sig get) as [a kw]. simpl in *.
      destruct (match d' with Some dv => veq (get m) dv | None => false end); [exact IH|].
      destruct k; simpl; try exact IH.
      destruct (str_eqb_spec n m); [congruence|exact IH].
  Qed.

  Lemma bind_kw_phase sig K : kwonly_tail V sig = true ->
    (forall n d, In (n, KwOnly, d) sig -> lookup n K = if omitted (n, KwOnly, d) then None else Some (get n)) ->
    exists attrs, bind_sig sig [] K = Some attrs /\ Forall2 attr_ok sig attrs.
  Proof.
    induction sig as [|[[n k] d] sig IH]; simpl; intros Ht HK.
    - exists []. split; [reflexivity|constructor].
    - destruct k; try discriminate. destruct d as [dv|]; [|discriminate].
      destruct (IH Ht) as (attrs & Hb & Hf). { intros m d' Hin. apply HK. now right. }
      rewrite Hb. rewrite (HK n (Some dv) (or_introl eq_refl)). unfold omitted, pname; simpl.
      destruct (veq (get n) dv) eqn:E; simpl.
      + eexists. split; [reflexivity|]. constructor; [split; simpl; auto|exact Hf].
      + eexists. split; [reflexivity|]. constructor; [split; simpl; auto|exact Hf].
  Qed.

  Lemma bind_pos_phase sig : shape_ok V sig = true -> NoDup (map (pname V) sig) ->
    forall K, (forall n d, In (n, KwOnly, d) sig -> lookup n K = if omitted (n, KwOnly, d) then None else Some (get n)) ->
    exists attrs, bind_sig sig (fst (repr_args sig get)) K = Some attrs /\ Forall2 attr_ok sig attrs.
  Proof.
    induction sig as [|[[n k] d] sig IH]; intros Hs Hnd K HK.
    - exists []. split; [reflexivity|constructor].
    - destruct k; destruct d as [dv|]; simpl in Hs.
      + (* PosOrKw with default: not in the shape *)
        discriminate.
      + (* required positional *)
        inversion Hnd; subst.
        destruct (IH Hs H2 K) as (attrs & Hb & Hf). { intros m d' Hin. apply HK. now right. }
        simpl. destruct (repr_args sig get) as [a kw] eqn:E. simpl in *. rewrite Hb. simpl.
        eexists. split; [reflexivity|]. constructor; [split; simpl; auto|exact Hf].
      + discriminate.
      + (* *args *)
        destruct (bind_kw_phase sig K Hs) as (attrs & Hb & Hf). { intros m d' Hin. apply HK. now right. }
        simpl. pose proof (kw_tail_args sig Hs) as Ha.
        destruct (repr_args sig get) as [a kw]. simpl in *. subst a. rewrite app_nil_r, Hb. simpl.
        eexists. split; [reflexivity|]. constructor; [split; simpl; auto|exact Hf].
      + (* keyword-only tail starts here *)
        assert (Ht : kwonly_tail V ((n, KwOnly, Some dv) :: sig) = true) by exact Hs.
        match goal with |- context [Repr.bind_sig _ _ _ ?A _] => replace A with (@nil V) by (symmetry; exact (kw_tail_args _ Ht)) end.
        apply bind_kw_phase; assumption.
      + discriminate.
      + discriminate.
      + discriminate.
  Qed.

  Theorem repr_roundtrip sig : shape_ok V sig = true -> NoDup (map (pname V) sig) ->
    exists attrs, bind_sig sig (fst (repr_args sig get)) (snd (repr_args sig get)) = Some attrs /\
                  Forall2 attr_ok sig attrs.
  Proof.
    intros Hs Hnd. apply bind_pos_phase; auto.
    intros n d Hin. apply kwargs_lookup_kw; auto.
  Qed.

  (* minimality: a keyword-only parameter is printed iff its value is not == its default *)
  Theorem repr_minimal sig n d : NoDup (map (pname V) sig) -> In (n, KwOnly, d) sig ->
    (has_key n (snd (repr_args sig get)) = negb (omitted (n, KwOnly, d))).
  Proof.
    intros Hnd Hin. unfold has_key. rewrite (kwargs_lookup_kw sig n d Hnd Hin).
    destruct (omitted _); reflexivity.
  Qed.
End Generic.

(* ---- instantiation on the signatures regenerated from /repo ---- *)
From Statham.Generated Require Gen_signatures.

Lemma nodupb_NoDup l : nodupb l = true -> NoDup l.
Proof.
  induction l as [|x l IH]; simpl; [constructor|].
  intros H. apply andb_prop in H as [H1 H2]. constructor; [|auto].
  apply mem_str_false. now destruct (mem_str x l).
Qed.

Section Conv.
  Variable V : Type.
  Variable np : V.                 (* NotPassed() *)
  Variable inj : json -> V.        (* literal defaults (True / False) *)
  Definition conv (r : sigrow) : param V :=
    match r with (n, k, d, _) =>
      (n, k, match d with SDRequired => None | SDNotPassed => Some np | SDJson j => Some (inj j) end) end.

  (* the shape test on raw rows *)
  Fixpoint kwonly_rows (sig : list sigrow) : bool :=
    match sig with
    | [] => true
    | (_, KwOnly, (SDNotPassed | SDJson _), _) :: rest => kwonly_rows rest
    | _ => false
    end.
  Fixpoint shape_rows (sig : list sigrow) : bool :=
    match sig with
    | (_, PosOrKw, SDRequired, _) :: rest => shape_rows rest
    | (_, VarPos, SDRequired, _) :: rest => kwonly_rows rest
    | _ => kwonly_rows sig
    end.

  Lemma kwonly_conv sig : kwonly_tail V (map conv sig) = kwonly_rows sig.
  Proof.
    induction sig as [|[[[n k] d] b] sig IH]; simpl; [reflexivity|].
    destruct k; try reflexivity. destruct d; simpl; auto.
  Qed.
  Lemma shape_conv sig : shape_ok V (map conv sig) = shape_rows sig.
  Proof.
    induction sig as [|[[[n k] d] b] sig IH]; simpl; [reflexivity|].
    destruct k; destruct d; simpl; auto using kwonly_conv.
  Qed.
  Lemma names_conv sig : map (pname V) (map conv sig) = sig_names sig.
  Proof.
    unfold sig_names. rewrite map_map. apply map_ext. intros [[[n k] d] b]. reflexivity.
  Qed.
End Conv.

Definition all_signatures : list (list sigrow) :=
  [Gen_signatures.sig_Element; Gen_signatures.sig_String; Gen_signatures.sig_Integer;
   Gen_signatures.sig_Number; Gen_signatures.sig_Boolean; Gen_signatures.sig_Null;
   Gen_signatures.sig_Array; Gen_signatures.sig_Not; Gen_signatures.sig_AnyOf;
   Gen_signatures.sig_OneOf; Gen_signatures.sig_AllOf; Gen_signatures.sig_Nothing;
   Gen_signatures.sig_Property].

Lemma all_signatures_shape :
  forallb (fun sig => shape_rows sig && nodupb (sig_names sig)) all_signatures = true.
Proof. vm_compute. reflexivity. Qed.

Theorem repr_roundtrip_generated :
  forall (V : Type) (veq : V -> V -> bool) (unpack : V -> list V) (pack : list V -> V) (np : V) (inj : json -> V),
  (forall x, veq x x = true) -> (forall x, veq x (pack (unpack x)) = true) ->
  forall (get : str -> V) sig, In sig all_signatures ->
  let ps := map (conv V np inj) sig in
  exists attrs, bind_sig V pack ps (fst (repr_args V veq unpack ps get)) (snd (repr_args V veq unpack ps get)) = Some attrs /\
                Forall2 (attr_ok V veq get) ps attrs.
Proof.
  intros V veq unpack pack np inj Hr Hp get sig Hin ps.
  pose proof all_signatures_shape as H. rewrite forallb_forall in H.
  specialize (H sig Hin). apply andb_prop in H as [Hs Hn].
  apply repr_roundtrip; auto.
  - unfold ps. now rewrite shape_conv.
  - unfold ps. rewrite names_conv. now apply nodupb_NoDup.
Qed.

Theorem repr_minimal_generated :
  forall (V : Type) (veq : V -> V -> bool) (unpack : V -> list V) (np : V) (inj : json -> V)
         (get : str -> V) sig n d, In sig all_signatures ->
  let ps := map (conv V np inj) sig in
  In (n, KwOnly, d) ps ->
  has_key n (snd (repr_args V veq unpack ps get)) =
  negb (match d with Some dv => veq (get n) dv | None => false end).
Proof.
  intros V veq unpack np inj get sig n d Hin ps Hp.
  pose proof all_signatures_shape as H. rewrite forallb_forall in H.
  specialize (H sig Hin). apply andb_prop in H as [Hs Hn].
  rewrite (repr_minimal V veq unpack get ps n d); [reflexivity| |exact Hp].
  unfold ps. rewrite names_conv. now apply nodupb_NoDup.
Qed.
