(* C01Scalar.v — the non-recursive keyword validators of an element built by the parser
   agree with the Draft-6 scalar clauses of the raw schema, class by class. *)
From Coq Require String. Import String.StringSyntax.
From Coq Require Import Btauto Lia.
From Statham.Model Require Import Str Json Elem PyNum Validate Tables Parser Spec6 Plain.
From Statham.Proofs Require Import StrFacts C01Vm.
Local Open Scope string_scope.

Lemma vall_vm l bs : Forall2 vm l bs -> vm (vall l) (forallb (fun b => b) bs).
Proof. induction 1; simpl; [reflexivity|]. now apply vm_vand. Qed.

Definition mult_b (param : option json) (v : json) : bool :=
  match param, guard_num v with
  | Some p, Some vn =>
    match py_num p with
    | Some pn => match multiple_of_check vn pn with PVal b => b | PExn _ => false end
    | None => true
    end
  | _, _ => true
  end.

Lemma mult_vm p v : vm (multiple_ok p v) (mult_b p v).
Proof.
  unfold multiple_ok, mult_b. destruct p; [|reflexivity]. destruct (guard_num v); [|reflexivity].
  destruct (py_num j); [|reflexivity]. destruct (multiple_of_check n n0); [apply vm_vb|exact I].
Qed.

Section Scalar.
  Variable O : oracles.

  Definition sv_list (k : kwds elem) (v : json) : list bool :=
    let n := guard_num v in
    let slen := match v with JStr s => Some (len_num s) | _ => None end in
    let alen := match v with JArr l => Some (len_num l) | _ => None end in
    let olen := match v with JObj l => Some (len_num l) | _ => None end in
    [ const_ok (k_const k) v;
      enum_ok (k_enum k) v;
      thr OpLt n (k_minimum k);
      thr OpGt n (k_maximum k);
      thr OpLe n (k_exclusiveMinimum k);
      thr OpGe n (k_exclusiveMaximum k);
      mult_b (k_multipleOf k) v;
      thr OpLt slen (k_minLength k);
      thr OpGt slen (k_maxLength k);
      (match k_pattern k, v with Some p, JStr s => re_search O p s | _, _ => true end);
      (match k_format k, v with
       | Some f, JStr s => match fmt O f with Some chk => chk s | None => true end
       | _, _ => true end);
      thr OpLt alen (k_minItems k);
      thr OpGt alen (k_maxItems k);
      (match v with JArr l => if k_uniqueItems k then unique_items l else true | _ => true end);
      (match v, k_items k with
       | JArr l, Some (ItMany its) =>
         (Nat.leb (length l) (length its)) || addl_truthy (k_additionalItems k)
       | _, _ => true end);
      thr OpLt olen (k_minProperties k);
      thr OpGt olen (k_maxProperties k);
      (match v with
       | JObj kvs => forallb (fun r => has_key r kvs) (required_names k)
       | _ => true end) ].

  Lemma sv_vm k v : vm (scalar_validators O k v) (forallb (fun b => b) (sv_list k v)).
  Proof.
    unfold scalar_validators, sv_list. apply vall_vm.
    repeat (constructor; [first [apply vm_vb | apply mult_vm]|]). constructor.
  Qed.

  (* ---- the spec side, entry by entry ---- *)
  Definition on (kvs : list (str * json)) (s : String.string) (c : json -> bool) : bool :=
    match lookup (s_ s) kvs with Some p => c p | None => true end.

  Definition spec_list (kvs : list (str * json)) (v : json) : list bool :=
    let n := js_num v in
    let slen := match v with JStr x => Some (len_num x) | _ => None end in
    let alen := match v with JArr x => Some (len_num x) | _ => None end in
    let olen := match v with JObj x => Some (len_num x) | _ => None end in
    [ on kvs "const" (fun c => js_eq v c);
      on kvs "enum" (fun e => match e with JArr l => existsb (js_eq v) l | _ => true end);
      on kvs "minimum" (num_clause OpLt n); on kvs "maximum" (num_clause OpGt n);
      on kvs "exclusiveMinimum" (num_clause OpLe n); on kvs "exclusiveMaximum" (num_clause OpGe n);
      on kvs "multipleOf" (fun m => match n, py_num m with
                              | Some vn, Some mn =>
                                match multiple_of_check vn mn with PVal b => b | PExn _ => false end
                              | _, _ => true end);
      on kvs "minLength" (num_clause OpLt slen); on kvs "maxLength" (num_clause OpGt slen);
      on kvs "pattern" (fun p => match p, v with JStr ps, JStr x => re_search O ps x | _, _ => true end);
      on kvs "format" (fun f => match f, v with
                          | JStr fs, JStr x => match fmt O fs with Some chk => chk x | None => true end
                          | _, _ => true end);
      on kvs "minItems" (num_clause OpLt alen); on kvs "maxItems" (num_clause OpGt alen);
      on kvs "uniqueItems" (fun u => match u, v with JBool true, JArr l => pairwise_distinct l | _, _ => true end);
      on kvs "minProperties" (num_clause OpLt olen); on kvs "maxProperties" (num_clause OpGt olen) ].

  Lemma cl_scalar_list kvs v : cl_scalar O kvs v = forallb (fun b => b) (spec_list kvs v).
  Proof.
    unfold cl_scalar, spec_list, on. cbn [forallb]. rewrite andb_true_r.
    rewrite <- !andb_assoc. reflexivity.
  Qed.
End Scalar.

(* ---- per-keyword agreement for the record built by the parser ---- *)
Lemma clean_strip : forall j, clean j = true -> strip_autotitle j = j.
Proof.
  fix IH 1. intros [| | | | |l|kvs]; simpl; intros H; try reflexivity.
  - f_equal. induction l as [|x r IHl]; simpl in *; [reflexivity|].
    apply andb_true_iff in H as [H1 H2]. rewrite IH, IHl; auto.
  - f_equal. induction kvs as [|[k v] r IHl]; simpl in *; [reflexivity|].
    apply andb_true_iff in H as [H12 H3]. apply andb_true_iff in H12 as [H1 H2].
    apply negb_true_iff in H1. rewrite H1. rewrite IH, IHl; auto.
Qed.

Definition lit_clean (kvs : list (str * json)) (s : String.string) : Prop :=
  match lookup (s_ s) kvs with Some j => clean j = true | None => True end.

Lemma thr_clause op n kvs s : thr op n (lookup (s_ s) kvs) = on kvs s (num_clause op n).
Proof.
  unfold thr, on, num_clause. destruct (lookup (s_ s) kvs) as [p|]; [|reflexivity].
  destruct n; [|reflexivity]. destruct (py_num p); reflexivity.
Qed.

Lemma unique_pairwise l : unique_items l = pairwise_distinct l.
Proof. induction l; simpl; [reflexivity|]. now rewrite IHl. Qed.

Section Untyped.
  Variable O : oracles.
  Variables (kvs : list (str * json)).
  Variables (props : option (list (str * prop elem))) (items : option (items_t elem))
            (pats : option (list (str * elem))) (pnames contains : option elem)
            (deps : option (list (str * dep_t elem))) (addp addi : addl elem).
  Let K := kw_record kvs props items pats pnames contains deps addp addi.
  Hypothesis Hconst : lit_clean kvs "const".
  Hypothesis Henum : lit_clean kvs "enum".

  Lemma const_entry v : const_ok (k_const K) v = on kvs "const" (fun c => js_eq v c).
  Proof.
    unfold K, kw_record, on, const_ok, lit_eq; cbn [k_const].
    red in Hconst. destruct (lookup (s_ "const") kvs); [|reflexivity]. now rewrite clean_strip.
  Qed.

  Lemma enum_entry v : enum_ok (k_enum K) v =
    on kvs "enum" (fun e => match e with JArr l => existsb (js_eq v) l | _ => true end).
  Proof.
    unfold K, kw_record, on, enum_ok, lit_eq; cbn [k_enum].
    red in Henum. destruct (lookup (s_ "enum") kvs) as [j|]; [|reflexivity]. rewrite clean_strip by assumption.
    destruct j; reflexivity.
  Qed.

  Lemma mult_entry v : mult_b (k_multipleOf K) v =
    on kvs "multipleOf" (fun m => match js_num v, py_num m with
                              | Some vn, Some mn =>
                                match multiple_of_check vn mn with PVal b => b | PExn _ => false end
                              | _, _ => true end).
  Proof.
    unfold K, kw_record, on, mult_b, guard_num; cbn [k_multipleOf].
    destruct (lookup (s_ "multipleOf") kvs) as [p|]; [|reflexivity].
    destruct (js_num v); [|reflexivity]. destruct (py_num p); reflexivity.
  Qed.

  Lemma pattern_entry v :
    (match k_pattern K, v with Some p, JStr s => re_search O p s | _, _ => true end) =
    on kvs "pattern" (fun p => match p, v with JStr ps, JStr x => re_search O ps x | _, _ => true end).
  Proof.
    unfold K, kw_record, on, jstr; cbn [k_pattern].
    destruct (lookup (s_ "pattern") kvs) as [[| | | |p| |]|]; reflexivity.
  Qed.

  Lemma format_entry v :
    (match k_format K, v with
     | Some f, JStr s => match fmt O f with Some chk => chk s | None => true end
     | _, _ => true end) =
    on kvs "format" (fun f => match f, v with
                          | JStr fs, JStr x => match fmt O fs with Some chk => chk x | None => true end
                          | _, _ => true end).
  Proof.
    unfold K, kw_record, on, jstr; cbn [k_format].
    destruct (lookup (s_ "format") kvs) as [[| | | |p| |]|]; reflexivity.
  Qed.

  Lemma unique_entry v :
    (match v with JArr l => if k_uniqueItems K then unique_items l else true | _ => true end) =
    on kvs "uniqueItems" (fun u => match u, v with JBool true, JArr l => pairwise_distinct l | _, _ => true end).
  Proof.
    unfold K, kw_record, on, jbool_or; cbn [k_uniqueItems].
    destruct (lookup (s_ "uniqueItems") kvs) as [[|[|]| | | | |]|]; destruct v; try reflexivity.
  Qed.

  (* the whole list: the model's 18 entries are the spec's 16 plus the additionalItems
     validator and the required-names check *)
  Definition addi_b (v : json) : bool :=
    match v, items with
    | JArr l, Some (ItMany its) => (Nat.leb (length l) (length its)) || addl_truthy addi
    | _, _ => true end.
  Definition req_b (v : json) : bool :=
    match v with
    | JObj m => forallb (fun r => has_key r m) (required_names K)
    | _ => true end.

  Lemma sv_untyped v :
    forallb (fun b => b) (sv_list O K v) = cl_scalar O kvs v && addi_b v && req_b v.
  Proof.
    rewrite cl_scalar_list. unfold sv_list, spec_list. cbn [forallb].
    rewrite const_entry, enum_entry, mult_entry, pattern_entry, format_entry, unique_entry.
    unfold guard_num.
    change (k_minimum K) with (lookup (s_ "minimum") kvs).
    change (k_maximum K) with (lookup (s_ "maximum") kvs).
    change (k_exclusiveMinimum K) with (lookup (s_ "exclusiveMinimum") kvs).
    change (k_exclusiveMaximum K) with (lookup (s_ "exclusiveMaximum") kvs).
    change (k_minLength K) with (lookup (s_ "minLength") kvs).
    change (k_maxLength K) with (lookup (s_ "maxLength") kvs).
    change (k_minItems K) with (lookup (s_ "minItems") kvs).
    change (k_maxItems K) with (lookup (s_ "maxItems") kvs).
    change (k_minProperties K) with (lookup (s_ "minProperties") kvs).
    change (k_maxProperties K) with (lookup (s_ "maxProperties") kvs).
    rewrite !thr_clause.
    change (k_items K) with items. change (k_additionalItems K) with addi.
    fold (addi_b v). fold (req_b v).
    generalize (addi_b v) (req_b v); intros a r.
    repeat match goal with |- context [on kvs ?s ?c] => generalize (on kvs s c); intro end.
    btauto.
  Qed.

  Lemma on_true s c : (forall p, c p = true) -> on kvs s c = true.
  Proof. intros H. unfold on. destruct (lookup (s_ s) kvs); auto. Qed.

  Ltac compute_has := repeat match goal with |- context [mem_str (s_ ?p) (signature_of ?c)] =>
      let b := eval vm_compute in (mem_str (s_ p) (signature_of c)) in
      change (mem_str (s_ p) (signature_of c)) with b end.

  Lemma sv_typed c v : c <> CElement -> type_ok c v = true ->
    forallb (fun b => b) (sv_list O (filter_kw c K) v) =
    cl_scalar O kvs v && (match c with CArray => addi_b v | _ => true end).
  Proof.
    intros Hc Ht. rewrite cl_scalar_list. unfold sv_list, spec_list. cbn [forallb].
    destruct c; try congruence; clear Hc;
      unfold filter_kw;
      cbn [k_default k_const k_enum k_items k_additionalItems k_minItems k_maxItems k_uniqueItems
           k_contains k_minimum k_maximum k_exclusiveMinimum k_exclusiveMaximum k_multipleOf k_format
           k_pattern k_minLength k_maxLength k_required k_properties k_patternProperties
           k_additionalProperties k_minProperties k_maxProperties k_propertyNames k_dependencies
           k_description];
      compute_has; cbv iota;
      rewrite const_entry, enum_entry, ?mult_entry, ?pattern_entry, ?format_entry, ?unique_entry;
      unfold guard_num;
      change (k_minimum K) with (lookup (s_ "minimum") kvs);
      change (k_maximum K) with (lookup (s_ "maximum") kvs);
      change (k_exclusiveMinimum K) with (lookup (s_ "exclusiveMinimum") kvs);
      change (k_exclusiveMaximum K) with (lookup (s_ "exclusiveMaximum") kvs);
      change (k_minLength K) with (lookup (s_ "minLength") kvs);
      change (k_maxLength K) with (lookup (s_ "maxLength") kvs);
      change (k_minItems K) with (lookup (s_ "minItems") kvs);
      change (k_maxItems K) with (lookup (s_ "maxItems") kvs);
      rewrite ?thr_clause;
      change (k_items K) with items; change (k_additionalItems K) with addi;
      destruct v; try discriminate Ht; clear Ht;
      unfold required_names, addi_b;
      cbn [thr mult_b js_num k_required k_properties app forallb];
      repeat match goal with |- context [on kvs ?s ?c] =>
               rewrite (on_true s c) by (intros p; try reflexivity; destruct p as [|[|]| | | | |]; reflexivity) end;
      repeat match goal with |- context [on kvs ?s ?c] => generalize (on kvs s c); intro end;
      try match goal with |- context [match items with _ => _ end] => generalize (match items with Some (ItMany its) => (Nat.leb (length l) (length its)) || addl_truthy addi | _ => true end); intro end;
      btauto.
  Qed.
End Untyped.
