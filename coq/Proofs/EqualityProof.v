(* EqualityProof.v — C17: element equality (Equality.v) is reflexive and symmetric on
   well-formed element trees (finite floats, dict-valued keywords with unique keys). *)
From Coq Require Import Lia.
From Statham.Model Require Import Str Json Elem Equality Sub.
From Statham.Proofs Require Import StrFacts JsonInd DictFacts JsonEqProof ElemInd.

Definition owf (o : option json) : Prop := match o with Some j => jwf j | None => True end.
Definition lwf (o : option (list json)) : Prop := match o with Some l => Forall jwf l | None => True end.
Definition okeys {A} (o : option (list (str * A))) : Prop := match o with Some l => NoDup (keys l) | None => True end.

Definition kwf (k : kwds elem) : Prop :=
  owf (k_default k) /\ owf (k_const k) /\ lwf (k_enum k) /\ owf (k_minItems k) /\ owf (k_maxItems k) /\
  owf (k_minimum k) /\ owf (k_maximum k) /\ owf (k_exclusiveMinimum k) /\ owf (k_exclusiveMaximum k) /\
  owf (k_multipleOf k) /\ owf (k_minLength k) /\ owf (k_maxLength k) /\ owf (k_minProperties k) /\
  owf (k_maxProperties k) /\ okeys (k_properties k) /\ okeys (k_patternProperties k) /\ okeys (k_dependencies k).

Definition local_wf (e : elem) : Prop :=
  match e with
  | EK _ k | EObj _ _ k => kwf k
  | ENot _ d | EComp _ _ d => owf d
  | ENothing => True
  end.

Inductive ewf : elem -> Prop :=
| ewf_intro e : local_wf e -> Forall ewf (children e) -> ewf e.

Lemma ewf_inv e : ewf e -> local_wf e /\ Forall ewf (children e).
Proof. inversion 1; auto. Qed.

(* ---- field-level facts ---- *)
Lemma opt_js_sym a b : owf a -> owf b -> opt_eqb js_eq a b = true -> opt_eqb js_eq b a = true.
Proof. destruct a, b; simpl; try congruence. intros. now apply jeq_sym_imp. Qed.
Lemma opt_js_refl a : owf a -> opt_eqb js_eq a a = true.
Proof. destruct a; simpl; auto. apply jeq_refl. Qed.
Lemma opt_str_sym a b : opt_eqb str_eqb a b = true -> opt_eqb str_eqb b a = true.
Proof. destruct a, b; simpl; try congruence. now rewrite str_eqb_sym. Qed.
Lemma opt_str_refl a : opt_eqb str_eqb a a = true.
Proof. destruct a; simpl; auto using str_eqb_refl. Qed.
Lemma strs_sym a : forall b, list_eqb str_eqb a b = true -> list_eqb str_eqb b a = true.
Proof.
  induction a as [|x r IH]; intros [|y s]; simpl; try congruence.
  rewrite !andb_true_iff. intros [H1 H2]. rewrite str_eqb_sym. auto.
Qed.
Lemma strs_refl a : list_eqb str_eqb a a = true.
Proof. induction a; simpl; auto. now rewrite str_eqb_refl. Qed.
Lemma opt_strs_sym a b : opt_eqb (list_eqb str_eqb) a b = true -> opt_eqb (list_eqb str_eqb) b a = true.
Proof. destruct a, b; simpl; try congruence. apply strs_sym. Qed.
Lemma opt_strs_refl a : opt_eqb (list_eqb str_eqb) a a = true.
Proof. destruct a; simpl; auto using strs_refl. Qed.
Lemma enum_sym a b : lwf a -> lwf b -> opt_eqb (list_eqb js_eq) a b = true -> opt_eqb (list_eqb js_eq) b a = true.
Proof.
  destruct a as [l1|], b as [l2|]; simpl; try congruence. intros Ha Hb.
  revert l2 Hb. induction Ha as [|x r Hx Hr IH]; intros [|y s] Hb; simpl; try congruence.
  inversion Hb; subst. rewrite !andb_true_iff. intros [E1 E2]. split; [now apply jeq_sym_imp|auto].
Qed.
Lemma enum_refl a : lwf a -> opt_eqb (list_eqb js_eq) a a = true.
Proof.
  destruct a as [l|]; simpl; auto. induction 1; simpl; auto. unfold js_eq in *. now rewrite jeq_refl.
Qed.

Section Fields.
  Variable F : elem -> elem -> bool.

  (* dict-valued fields as instances of the generic dict comparison *)
  Definition prop_rel (p q : prop elem) : bool :=
    F (p_elem p) (p_elem q) && Bool.eqb (p_required p) (p_required q) && str_eqb (p_source p) (p_source q).
  Lemma props_sub_dsub a b : props_sub F a b = dsub prop_rel a b.
  Proof.
    induction a as [|[k p] r IH]; simpl; [reflexivity|].
    destruct (lookup k b); [|reflexivity]. unfold prop_rel. now rewrite IH.
  Qed.
  Lemma pats_sub_dsub a b : pats_sub F a b = dsub F a b.
  Proof. induction a as [|[k p] r IH]; simpl; [reflexivity|]. destruct (lookup k b); [now rewrite IH|reflexivity]. Qed.
  Definition dep_rel (d d' : dep_t elem) : bool :=
    match d, d' with
    | DepNames x, DepNames y => list_eqb str_eqb x y
    | DepElem x, DepElem y => F x y
    | _, _ => false
    end.
  Lemma deps_sub_dsub a b : deps_sub F a b = dsub dep_rel a b.
  Proof. induction a as [|[k p] r IH]; simpl; [reflexivity|]. destruct (lookup k b); [now rewrite IH|reflexivity]. Qed.
End Fields.

Lemma In_sub_props l k (p : prop elem) : In (k, p) l -> In (p_elem p) (sub_props (Some l)).
Proof. intros H. simpl. apply in_map_iff. exists (k, p). auto. Qed.
Lemma In_sub_pats (l : list (str * elem)) k e : In (k, e) l -> In e (sub_pats (Some l)).
Proof. intros H. simpl. apply in_map_iff. exists (k, e). auto. Qed.
Lemma In_sub_deps (l : list (str * dep_t elem)) k e : In (k, DepElem e) l -> In e (sub_deps (Some l)).
Proof. intros H. simpl. apply in_flat_map. exists (k, DepElem e). simpl. auto. Qed.

Section Sym.
  Variable F : elem -> elem -> bool.
  (* the induction hypothesis, for the sub-elements of the left operand *)
  Variable subs : list elem.
  Hypothesis HF : forall x, In x subs -> forall y, ewf y -> F x y = true -> F y x = true.

  Lemma oelem_sym a b : incl (sub_opt a) subs -> Forall ewf (sub_opt b) ->
    oelem_eq F a b = true -> oelem_eq F b a = true.
  Proof.
    destruct a, b; simpl; try congruence. intros Hi Hw. inversion Hw; subst. apply HF; auto. apply Hi; simpl; auto.
  Qed.
  Lemma addl_sym a b : incl (sub_addl a) subs -> Forall ewf (sub_addl b) ->
    addl_eq F a b = true -> addl_eq F b a = true.
  Proof.
    destruct a, b; simpl; try congruence.
    - intros _ _. intros E; apply Bool.eqb_prop in E; rewrite E; apply Bool.eqb_reflx.
    - intros Hi Hw. inversion Hw; subst. apply HF; auto. apply Hi; simpl; auto.
  Qed.
  Lemma elems_sym a : forall b, incl a subs -> Forall ewf b -> elems_eq F a b = true -> elems_eq F b a = true.
  Proof.
    induction a as [|x r IH]; intros [|y s] Hi Hw; simpl; try congruence.
    inversion Hw as [|? ? Wy Ws]; subst. rewrite !andb_true_iff. intros [E1 E2]. split.
    - apply HF; auto. apply Hi; simpl; auto.
    - apply IH; auto. intros z Hz. apply Hi. now right.
  Qed.
  Lemma items_sym a b : incl (sub_items a) subs -> Forall ewf (sub_items b) ->
    items_eq F a b = true -> items_eq F b a = true.
  Proof.
    destruct a as [[x|l]|], b as [[y|m]|]; simpl; try congruence.
    - intros Hi Hw. inversion Hw; subst. apply HF; auto. apply Hi; simpl; auto.
    - apply elems_sym.
  Qed.
  Lemma props_sym a b : okeys a -> okeys b -> incl (sub_props a) subs -> Forall ewf (sub_props b) ->
    props_eq F a b = true -> props_eq F b a = true.
  Proof.
    destruct a as [l1|], b as [l2|]; simpl; try congruence. intros Ha Hb Hi Hw.
    rewrite !andb_true_iff, !props_sub_dsub, !Nat.eqb_eq. intros [Hl Hd]. split; [lia|].
    eapply dsub_sym; eauto. intros k p q Hp Hq. unfold prop_rel. rewrite !andb_true_iff.
    intros [[H1 H2] H3]. repeat split.
    - apply HF; auto.
      + apply Hi. apply in_map_iff. exists (k, p). auto.
      + rewrite Forall_forall in Hw. apply Hw. apply in_map_iff. exists (k, q). auto.
    - apply Bool.eqb_prop in H2. rewrite H2. apply Bool.eqb_reflx.
    - now rewrite str_eqb_sym.
  Qed.
  Lemma pats_sym a b : okeys a -> okeys b -> incl (sub_pats a) subs -> Forall ewf (sub_pats b) ->
    pats_eq F a b = true -> pats_eq F b a = true.
  Proof.
    destruct a as [l1|], b as [l2|]; simpl; try congruence. intros Ha Hb Hi Hw.
    rewrite !andb_true_iff, !pats_sub_dsub, !Nat.eqb_eq. intros [Hl Hd]. split; [lia|].
    eapply dsub_sym; eauto. intros k p q Hp Hq H1.
    apply HF; auto.
    - apply Hi. apply in_map_iff. exists (k, p). auto.
    - rewrite Forall_forall in Hw. apply Hw. apply in_map_iff. exists (k, q). auto.
  Qed.
  Lemma deps_sym a b : okeys a -> okeys b -> incl (sub_deps a) subs -> Forall ewf (sub_deps b) ->
    deps_eq F a b = true -> deps_eq F b a = true.
  Proof.
    destruct a as [l1|], b as [l2|]; simpl; try congruence. intros Ha Hb Hi Hw.
    rewrite !andb_true_iff, !deps_sub_dsub, !Nat.eqb_eq. intros [Hl Hd]. split; [lia|].
    eapply dsub_sym; eauto. intros k p q Hp Hq. destruct p as [x|x], q as [y|y]; simpl; try congruence.
    - apply strs_sym.
    - intros H1. apply HF; auto.
      + apply Hi. apply in_flat_map. exists (k, DepElem x). simpl; auto.
      + rewrite Forall_forall in Hw. apply Hw. apply in_flat_map. exists (k, DepElem y). simpl; auto.
  Qed.

  Lemma kwds_sym ka kb : kwf ka -> kwf kb -> incl (ksub ka) subs -> Forall ewf (ksub kb) ->
    kwds_eq F ka kb = true -> kwds_eq F kb ka = true.
  Proof.
    intros Wa Wb Hi Hw. unfold kwf in Wa, Wb.
    destruct Wa as (a1 & a2 & a3 & a4 & a5 & a6 & a7 & a8 & a9 & a10 & a11 & a12 & a13 & a14 & a15 & a16 & a17).
    destruct Wb as (b1 & b2 & b3 & b4 & b5 & b6 & b7 & b8 & b9 & b10 & b11 & b12 & b13 & b14 & b15 & b16 & b17).
    unfold ksub in Hi, Hw.
    repeat (apply Forall_app in Hw; destruct Hw as [? Hw]).
    assert (I1 : incl (sub_items (k_items ka)) subs) by (intros z Hz; apply Hi; repeat (apply in_or_app; (left; exact Hz) || right); exact Hz).
    assert (I2 : incl (sub_addl (k_additionalItems ka)) subs) by (intros z Hz; apply Hi; apply in_or_app; right; apply in_or_app; left; exact Hz).
    assert (I3 : incl (sub_opt (k_contains ka)) subs) by (intros z Hz; apply Hi; do 2 (apply in_or_app; right); apply in_or_app; left; exact Hz).
    assert (I4 : incl (sub_props (k_properties ka)) subs) by (intros z Hz; apply Hi; do 3 (apply in_or_app; right); apply in_or_app; left; exact Hz).
    assert (I5 : incl (sub_pats (k_patternProperties ka)) subs) by (intros z Hz; apply Hi; do 4 (apply in_or_app; right); apply in_or_app; left; exact Hz).
    assert (I6 : incl (sub_addl (k_additionalProperties ka)) subs) by (intros z Hz; apply Hi; do 5 (apply in_or_app; right); apply in_or_app; left; exact Hz).
    assert (I7 : incl (sub_opt (k_propertyNames ka)) subs) by (intros z Hz; apply Hi; do 6 (apply in_or_app; right); apply in_or_app; left; exact Hz).
    assert (I8 : incl (sub_deps (k_dependencies ka)) subs) by (intros z Hz; apply Hi; do 7 (apply in_or_app; right); exact Hz).
    unfold kwds_eq. rewrite !andb_true_iff.
    intros H'. repeat match goal with H : _ /\ _ |- _ => destruct H end.
    repeat split;
      first [ apply opt_js_sym; assumption | apply opt_str_sym; assumption | apply opt_strs_sym; assumption
            | apply enum_sym; assumption | apply items_sym; assumption | apply addl_sym; assumption
            | apply oelem_sym; assumption | apply props_sym; assumption | apply pats_sym; assumption
            | apply deps_sym; assumption
            | match goal with H : Bool.eqb ?x ?y = true |- Bool.eqb ?y ?x = true =>
                apply Bool.eqb_prop in H; rewrite H; apply Bool.eqb_reflx end ].
  Qed.
End Sym.

Theorem elem_eq_sym_imp : forall a, ewf a -> forall b, ewf b -> elem_eq a b = true -> elem_eq b a = true.
Proof.
  induction a using elem_ind'. intros Wa b Wb Hab.
  apply ewf_inv in Wa as [La Ca]. apply ewf_inv in Wb as [Lb Cb].
  assert (HF : forall x, In x (children a) -> forall y, ewf y -> elem_eq x y = true -> elem_eq y x = true).
  { intros x Hx y Wy. rewrite Forall_forall in H, Ca. apply (H x Hx (Ca x Hx) y Wy). }
  destruct a as [c k| |x d|m es d|n bs k], b as [c' k'| |x' d'|m' es' d'|n' bs' k']; simpl in Hab |- *; try congruence.
  - apply andb_true_iff in Hab as [H1 H2]. apply andb_true_iff. split.
    + destruct c, c'; simpl in *; congruence.
    + eapply kwds_sym; eauto. apply incl_refl.
  - apply andb_true_iff in Hab as [H1 H2]. apply andb_true_iff. split.
    + simpl in Cb. inversion Cb; subst. apply HF; simpl; auto.
    + apply opt_js_sym; auto.
  - apply andb_true_iff in Hab as [H12 H3]. apply andb_true_iff in H12 as [H1 H2].
    rewrite !andb_true_iff. repeat split.
    + destruct m, m'; simpl in *; congruence.
    + eapply elems_sym; eauto. apply incl_refl.
    + apply opt_js_sym; auto.
  - eapply kwds_sym; eauto. apply incl_refl.
Qed.

Corollary elem_eq_sym a b : ewf a -> ewf b -> elem_eq a b = elem_eq b a.
Proof.
  intros Ha Hb. destruct (elem_eq a b) eqn:E1, (elem_eq b a) eqn:E2; try reflexivity.
  - rewrite (elem_eq_sym_imp a Ha b Hb E1) in E2. discriminate.
  - rewrite (elem_eq_sym_imp b Hb a Ha E2) in E1. discriminate.
Qed.

(* ---- reflexivity ---- *)
Section Refl.
  Variable F : elem -> elem -> bool.
  Variable subs : list elem.
  Hypothesis HF : forall x, In x subs -> F x x = true.

  Lemma elems_refl a : incl a subs -> elems_eq F a a = true.
  Proof.
    induction a as [|x r IH]; intros Hi; simpl; [reflexivity|].
    rewrite HF by (apply Hi; simpl; auto). apply IH. intros z Hz. apply Hi. now right.
  Qed.
  Lemma kwds_refl k : kwf k -> incl (ksub k) subs -> kwds_eq F k k = true.
  Proof.
    intros W Hi. unfold kwf in W.
    destruct W as (a1 & a2 & a3 & a4 & a5 & a6 & a7 & a8 & a9 & a10 & a11 & a12 & a13 & a14 & a15 & a16 & a17).
    unfold ksub in Hi.
    assert (I1 : incl (sub_items (k_items k)) subs) by (intros z Hz; apply Hi; apply in_or_app; left; exact Hz).
    assert (I2 : incl (sub_addl (k_additionalItems k)) subs) by (intros z Hz; apply Hi; apply in_or_app; right; apply in_or_app; left; exact Hz).
    assert (I3 : incl (sub_opt (k_contains k)) subs) by (intros z Hz; apply Hi; do 2 (apply in_or_app; right); apply in_or_app; left; exact Hz).
    assert (I4 : incl (sub_props (k_properties k)) subs) by (intros z Hz; apply Hi; do 3 (apply in_or_app; right); apply in_or_app; left; exact Hz).
    assert (I5 : incl (sub_pats (k_patternProperties k)) subs) by (intros z Hz; apply Hi; do 4 (apply in_or_app; right); apply in_or_app; left; exact Hz).
    assert (I6 : incl (sub_addl (k_additionalProperties k)) subs) by (intros z Hz; apply Hi; do 5 (apply in_or_app; right); apply in_or_app; left; exact Hz).
    assert (I7 : incl (sub_opt (k_propertyNames k)) subs) by (intros z Hz; apply Hi; do 6 (apply in_or_app; right); apply in_or_app; left; exact Hz).
    assert (I8 : incl (sub_deps (k_dependencies k)) subs) by (intros z Hz; apply Hi; do 7 (apply in_or_app; right); exact Hz).
    unfold kwds_eq. rewrite !andb_true_iff.
    repeat split; try (apply opt_js_refl; assumption); try apply opt_str_refl; try apply opt_strs_refl;
      try (apply enum_refl; assumption); try apply Bool.eqb_reflx.
    - destruct (k_items k) as [[x|l]|]; simpl in *; auto. apply HF, I1; simpl; auto. now apply elems_refl.
    - destruct (k_additionalItems k); simpl in *; [apply Bool.eqb_reflx|apply HF, I2; simpl; auto].
    - destruct (k_contains k); simpl in *; auto. apply HF, I3; simpl; auto.
    - destruct (k_properties k) as [l|]; simpl in *; auto. rewrite Nat.eqb_refl, props_sub_dsub. simpl.
      apply dsub_refl; auto. intros key p Hin. unfold prop_rel.
      rewrite HF, Bool.eqb_reflx, str_eqb_refl; auto. apply I4. apply in_map_iff. exists (key, p). auto.
    - destruct (k_patternProperties k) as [l|]; simpl in *; auto. rewrite Nat.eqb_refl, pats_sub_dsub. simpl.
      apply dsub_refl; auto. intros key p Hin. apply HF, I5. apply in_map_iff. exists (key, p). auto.
    - destruct (k_additionalProperties k); simpl in *; [apply Bool.eqb_reflx|apply HF, I6; simpl; auto].
    - destruct (k_propertyNames k); simpl in *; auto. apply HF, I7; simpl; auto.
    - destruct (k_dependencies k) as [l|]; simpl in *; auto. rewrite Nat.eqb_refl, deps_sub_dsub. simpl.
      apply dsub_refl; auto. intros key d Hin. destruct d as [ns|x]; simpl; [apply strs_refl|].
      apply HF, I8. apply in_flat_map. exists (key, DepElem x). simpl; auto.
  Qed.
End Refl.

Theorem elem_eq_refl : forall a, ewf a -> elem_eq a a = true.
Proof.
  induction a using elem_ind'. intros Wa. apply ewf_inv in Wa as [La Ca].
  assert (HF : forall x, In x (children a) -> elem_eq x x = true).
  { intros x Hx. rewrite Forall_forall in H, Ca. auto. }
  destruct a as [c k| |x d|m es d|n bs k]; simpl.
  - apply andb_true_iff. split; [destruct c; reflexivity|]. eapply kwds_refl; eauto. apply incl_refl.
  - reflexivity.
  - rewrite HF by (simpl; auto). simpl. apply opt_js_refl; auto.
  - rewrite !andb_true_iff. repeat split; [destruct m; reflexivity| |apply opt_js_refl; auto].
    eapply elems_refl; eauto. apply incl_refl.
  - eapply kwds_refl; eauto. apply incl_refl.
Qed.
