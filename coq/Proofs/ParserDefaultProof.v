(* ParserDefaultProof.v — C07: the element parse_element returns for a schema that declares a
   default carries that default (auto-title annotations removed), for every shape of schema. *)
From Coq Require Import String.
From Statham.Model Require Import Str Json Elem PyNum Validate Equality Names Tables Parser.
From Statham.Proofs Require Import StrFacts ParserFacts.
Local Open Scope string_scope.
Local Open Scope list_scope.

(* carried: literally, or — when the parser returns an already known equal class — up to the
   literal equality that class equality uses *)
Definition carried (x : json) (e : elem) : Prop :=
  exists d', elem_default e = Some d' /\ (d' = x \/ js_eq x d' = true).

Lemma sig_has_default c : mem_str (s_ "default") (signature_of c) = true.
Proof. destruct c; vm_compute; reflexivity. Qed.

Lemma filter_kw_default c K : k_default (filter_kw c K) = k_default K.
Proof. unfold filter_kw. cbn [k_default]. now rewrite sig_has_default. Qed.

Lemma dedupe_carried cls x st e st' : elem_default cls = Some x -> (exists n b k, cls = EObj n b k) ->
  dedupe cls st = POk (e, st') -> carried x e.
Proof.
  intros Hd (n & b & k & ->) H. unfold dedupe in H. cbn [obj_name] in H.
  match type of H with match find ?f ?l with _ => _ end = _ => destruct (find f l) as [x0|] eqn:E end.
  - injection H as <- <-. apply find_some in E as [_ Heq].
    destruct x0 as [| | | |n0 b0 k0]; simpl in Heq; try discriminate.
    unfold kwds_eq in Heq. repeat (apply andb_prop in Heq as [Heq ?]).
    simpl in Hd. rewrite Hd in Heq. destruct (k_default k0) as [d'|] eqn:Ek; simpl in Heq; [|discriminate].
    exists d'. split; [exact Ek|now right].
  - match type of H with POk (match ?c with O => _ | S _ => _ end, _) = _ => destruct c end; injection H as <- <-;
      exists x; split; auto.
Qed.

Lemma elem_eq_dec_nothing (e : elem) : {e = ENothing} + {e <> ENothing}.
Proof. destruct e; (left; reflexivity) || (right; discriminate). Defined.

Section P.
  Variable cfg : pcfg.

  Lemma typed_single_carried t S K st e st' x : k_default K = Some x -> has_key (s_ "default") S = true ->
    typed_single cfg t S K st = POk (e, st') -> carried x e.
  Proof.
    intros HK HS H. unfold typed_single in H.
    destruct (str_eqb t (s_ "object")).
    - unfold parse_object in H.
      destruct (obj_title S) as [[| | | |ts| |]|];
        try (exfalso; revert H; unfold fail; try destruct (py_truthy _); discriminate).
      destruct ts as [|c0 ts']; [exfalso; revert H; unfold fail; discriminate|].
      eapply dedupe_carried; [| |exact H]; [|eauto].
      unfold obj_record. cbn [elem_default k_default]. rewrite HS. exact HK.
    - destruct (has_key (s_ "self") S); [exfalso; revert H; unfold fail; discriminate|].
      destruct (str_eqb t (s_ "array")).
      + apply ret_inv in H as [<- _]. exists x. split; [|now left].
        cbn [elem_default]. unfold arr_record. destruct (k_items (filter_kw CArray K)); cbn [k_default]; now rewrite filter_kw_default.
      + destruct (lookup t type_mapping) as [c|]; [|exfalso; revert H; unfold fail; discriminate].
        apply ret_inv in H as [<- _]. exists x. split; [|now left]. cbn [elem_default]. now rewrite filter_kw_default.
  Qed.

  Lemma finish_plain_carried S K st e st' x : k_default K = Some x -> has_key (s_ "default") S = true ->
    finish_plain cfg S K st = POk (e, st') -> carried x e.
  Proof.
    intros HK HS H. unfold finish_plain in H.
    destruct (lookup (s_ "type") S) as [[| | | |t|ts|]|]; try (exfalso; revert H; unfold fail; discriminate).
    - eapply typed_single_carried; eauto.
    - destruct ts as [|[| | | |t| |] [|t2 ts']]; try (eapply typed_single_carried; eauto; fail);
        (binv H; destruct a; [exfalso; revert H; unfold fail; discriminate|];
         apply ret_inv in H as [<- _]; exists x; split; [exact HK|now left]).
    - destruct (has_key (s_ "self") S); [exfalso; revert H; unfold fail; discriminate|].
      apply ret_inv in H as [<- _]. exists x. split; [exact HK|now left].
  Qed.

  Lemma with_elem_default_carried e x : e <> ENothing -> carried x (with_elem_default e (Some x)).
  Proof. destruct e; intros H; try congruence; exists x; split; auto. Qed.

  Theorem parse_element_keeps_default kvs st e st' d :
    lookup (s_ "default") kvs = Some d ->
    parse_element cfg (JObj kvs) st = POk (e, st') ->
    e = ENothing \/ carried (strip_autotitle d) e.
  Proof.
    intros Hd H. cbn [parse_element] in H.
    destruct (existsb (fun kv => mem_str (fst kv) (c_unsupported cfg)) kvs); [exfalso; eapply fail_inv; eauto|].
    do 8 (binv H; clear Hb).
    assert (HS : has_key (s_ "default") kvs = true) by (unfold has_key; now rewrite Hd).
    rewrite Hd in H.
    match type of H with (if negb ?c then _ else _) _ = _ => destruct c eqn:Ecomp end; cbn [negb] in H.
    - (* composition *)
      binv H. clear Hb. binv H. clear Hb. binv H. clear Hb.
      match type of H with (if is_obj ?el then _ else _) _ = _ => destruct (is_obj el) eqn:Eo; set (element := el) in * end.
      + apply ret_inv in H as [<- _]. right. exists (strip_autotitle d). split; auto.
      + apply ret_inv in H as [<- _].
        destruct (elem_eq_dec_nothing element) as [E|E]; [left; rewrite E; reflexivity|right; now apply with_elem_default_carried].
    - right. eapply finish_plain_carried; [| |exact H]; [unfold kw_record; cbn [k_default]; rewrite Hd; reflexivity|exact HS].
  Qed.
End P.
