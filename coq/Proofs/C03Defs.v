(* C03Defs.v — serialize_json with CALLER-SUPPLIED definitions: a sub-element equal (==) to a definition
   is replaced by a reference to it (_from_definitions).  Resolving the references of the emitted
   document gives a document with the meaning of the in-place document ser_inl e, hence of the tree:
   "replacing an element by a reference to an equal definition never changes meaning" (C17), by
   ser_inl_cong (equal trees, same meaning) and the two-serializer congruence ek_cong. *)
From Coq Require String. Import String.StringSyntax.
From Coq Require Import List Bool Lia PeanoNat.
From Statham.Model Require Import Str Json Elem Sub Equality PyNum Validate Tables Spec6 SerJson Resolve NfFrag SerFrag EqFrag ClsFrag.
From Statham.Proofs Require Import StrFacts ElemInd JsonEqProof EqualityProof C03Lookup C06RoundBase C01Vm C01Items C03Meaning C17Cong
     C03Resolve C01Parse C03Classes C17Classes.
Import ListNotations.
Local Open Scope string_scope.
Local Open Scope list_scope.
Arguments s_ : simpl never.

(* one layer of the serializer around a given image of the children *)
Definition shell (R : elem -> json) (y : elem) : json :=
  match y with
  | ENothing => JBool false
  | EK c k => JObj (ser_kwds true true R k ++ json_type c)
  | ENot x d => JObj ((match d with Some j => [(s_ "default", j)] | None => [] end) ++ [(s_ "not", R x)])
  | EComp m es d =>
    JObj ((match d with Some j => [(s_ "default", j)] | None => [] end) ++ [(mode_key m, JArr (s_elems R es))])
  | EObj n _ k =>
    JObj (ser_kwds true true R k ++ [(s_ "type", JStr (s_ "object")); (s_ "title", JStr n)])
  end.

Lemma shell_ser_inl y : shell ser_inl y = ser_inl y.
Proof. destruct y; reflexivity. Qed.

Section Defs.
  Variable cd : list (str * elem).           (* caller definitions *)
  Variable DJ : list (str * json).           (* the "definitions" of the emitted document *)

  Definition serD : elem -> json := ser_top true true cd.
  Definition subD (x : elem) : json :=
    match x with EObj n _ _ => ref_to n | _ => from_definitions cd x (serD x) end.

  Lemma serD_shell y : serD y = shell subD y.
  Proof. destruct y; reflexivity. Qed.

  Lemma serD_shape y : (exists l, serD y = JObj l) \/ serD y = JBool false.
  Proof. destruct y; try (left; eexists; reflexivity). right. reflexivity. Qed.

  Lemma subD_shape x : (exists l, subD x = JObj l) \/ subD x = JBool false.
  Proof.
    destruct x; try (left; eexists; reflexivity); unfold subD, from_definitions;
      destruct (find _ cd) as [[key0 d0]|]; try (left; eexists; reflexivity); apply serD_shape.
  Qed.

  (* resolving one layer, given the resolution of the children *)
  Lemma shell_resolve n (R : elem -> json) y :
    Forall (fun x => inl DJ (S n) (subD x) = Some (R x)) (children y) ->
    inl DJ (S (S n)) (serD y) = Some (shell R y).
  Proof.
    intros Hch. rewrite serD_shell.
    set (go := inl DJ (S n)) in *.
    assert (Hbool : go (JBool false) = Some (JBool false)) by reflexivity.
    destruct y as [c k| |x d|m es d|nm b k]; cbn [children shell] in *.
    - rewrite inl_S. fold go. rewrite ref_target_keys.
      2:{ apply keys_no_ref. intros y Hy. apply keys_json_type in Hy. destruct Hy as [<-|[]]. now left. }
      rewrite (omap_kvs_app_some go _ _ _ _ (omap_ser go subD R subD_shape Hbool k Hch) (ltac:(destruct c; reflexivity) : omap_kvs go (json_type c) = Some (json_type c))).
      reflexivity.
    - reflexivity.
    - inversion Hch as [|? ? Hx _]; subst.
      rewrite inl_S. fold go. rewrite ref_target_nostr.
      2:{ intros s Es. destruct (subD_shape x) as [(l & E)|E]; rewrite E in Es; discriminate. }
      rewrite (omap_kvs_app_some go _ _ (match d with Some j => [(s_ "default", j)] | None => [] end) [(s_ "not", R x)]).
      + reflexivity.
      + destruct d; reflexivity.
      + apply (slot_elem go subD R); [reflexivity|exact Hx].
    - rewrite inl_S. fold go. rewrite ref_target_nostr by (intros s Es; discriminate).
      rewrite (omap_kvs_app_some go _ _ (match d with Some j => [(s_ "default", j)] | None => [] end) [(mode_key m, JArr (s_elems R es))]).
      + reflexivity.
      + destruct d; reflexivity.
      + pose proof (omap_list_elems go subD R es Hch) as Hl.
        destruct m; unfold mode_key; cbn [omap_kvs]; unfold at_key;
          repeat match goal with |- context [mem_str (s_ ?a) ?L] =>
                   let r := eval vm_compute in (mem_str (s_ a) L) in change (mem_str (s_ a) L) with r end;
          repeat match goal with |- context [str_eqb (s_ ?a) (s_ ?b)] =>
                   let r := eval vm_compute in (str_eqb (s_ a) (s_ b)) in change (str_eqb (s_ a) (s_ b)) with r end;
          cbv iota; rewrite Hl; reflexivity.
    - rewrite inl_S. fold go. rewrite ref_target_keys.
      2:{ apply keys_no_ref. intros y Hy. exact Hy. }
      rewrite (omap_kvs_app_some go _ _ _ _ (omap_ser go subD R subD_shape Hbool k Hch)
                 (eq_refl : omap_kvs go [(s_ "type", JStr (s_ "object")); (s_ "title", JStr nm)] = Some _)).
      reflexivity.
  Qed.
End Defs.

(* ---- the meaning of one layer ---- *)
Section Mean.
  Variable O : oracles.
  Notation w := WCode.
  Notation F := (v6 O w).
  Notation Feq := (Feq O w).

  Definition hasdef (x : elem) : bool := match elem_default x with Some _ => true | None => false end.
  Definition Good (R : json) (y : elem) : Prop :=
    ((exists l, R = JObj l) \/ (y = ENothing /\ R = JBool false)) /\ Feq R (ser_inl y) /\ schema_has_default R = hasdef y.

  Lemma Good_ser_inl y : Good (ser_inl y) y.
  Proof. split; [apply ser_inl_shape|split; [intros v _; reflexivity|apply ser_inl_default]]. Qed.

  Ltac lits :=
    repeat match goal with |- context [str_eqb (s_ ?a) (s_ ?b)] =>
             let r := eval vm_compute in (str_eqb (s_ a) (s_ b)) in change (str_eqb (s_ a) (s_ b)) with r end;
    cbv iota.

  Lemma shell_good (R : elem -> json) y : goodc y -> Forall (fun x => Good (R x) x) (children y) -> Good (shell R y) y.
  Proof.
    intros Gy Hch.
    destruct (goodc_children y Gy) as (Cy & Ly & Wy & My).
    assert (Hrefl : forall x, In x (children y) -> elem_eq x x = true).
    { intros x Hx. rewrite Forall_forall in Cy. apply elem_eq_refl. exact (proj1 (proj2 (Cy x Hx))). }
    assert (N1 : Forall (gsh R) (children y)).
    { eapply Forall_impl; [|exact Hch]. intros x (Hs & _). exact Hs. }
    assert (N2 : forall l, Forall (gsh ser_inl) l) by (intros l; apply Forall_forall; intros x _; apply ser_inl_shape).
    assert (IHc : forall x z, In x (children y) -> In z (children y) -> elem_eq x z = true -> Feq (R x) (ser_inl z)).
    { intros x z Hx Hz Hxz v Hv. rewrite Forall_forall in Hch, Cy.
      rewrite (proj1 (proj2 (Hch x Hx)) v Hv). exact (ser_inl_cong O x (Cy x Hx) z (Cy z Hz) Hxz v Hv). }
    assert (Ht : forall c key, In key (keys (json_type c)) -> key = s_ "type" \/ key = s_ "title") by (intros c; apply Htail_c).
    split; [|split].
    - destruct y; try (left; eexists; reflexivity). right. split; reflexivity.
    - rewrite <- shell_ser_inl.
      destruct y as [c k| |x d|m es d|n b k]; cbn [children local_c local_wf shell] in *.
      + (* Element / typed *)
        intros v Hv.
        apply (C17Classes.ek_cong O w R ser_inl (Qek k) c k k (json_type c) (json_type c) (Htail_c c) (Htail_c c) eq_refl
                 (kwds_refl elem_eq (ksub k) Hrefl k Wy (incl_refl _)) Wy Wy (local_dsl_g c k Ly) (local_dsl_g c k Ly) N1 (N2 _) IHc).
        * intros m. rewrite (req_as_M_ek R c k k Ly Ly k m), (req_as_M_ek ser_inl c k k Ly Ly k m). reflexivity.
        * intros n0. reflexivity.
        * exact Hv.
      + intros v _. reflexivity.
      + (* Not *)
        intros v Hv. inversion Hch as [|? ? (_ & Hx & _) _]; subst.
        rewrite (v6_single O w d "not" (R x) v), (v6_single O w d "not" (ser_inl x) v) by (cbn; tauto).
        unfold cl_comp. cbn [wkey]. lits. now rewrite (Hx v Hv).
      + (* compositions *)
        intros v Hv.
        assert (Hpt : map (fun S0 => F S0 v) (s_elems R es) = map (fun S0 => F S0 v) (s_elems ser_inl es)).
        { clear -Hch Hv. induction Hch as [|x r (_ & Hx & _) _ IHl]; [reflexivity|]. simpl. f_equal; [exact (Hx v Hv)|exact IHl]. }
        assert (Hfa : forall l, forallb (fun S' => F S' v) l = forallb (fun b => b) (map (fun S0 => F S0 v) l)).
        { induction l; simpl; congruence. }
        assert (Hex : forall l, existsb (fun S' => F S' v) l = existsb (fun b => b) (map (fun S0 => F S0 v) l)).
        { induction l; simpl; congruence. }
        destruct m; unfold mode_key.
        * rewrite (v6_single O w d "anyOf" _ v), (v6_single O w d "anyOf" _ v) by (cbn; tauto).
          unfold cl_comp. cbn [wkey]. lits. now rewrite !Hex, Hpt.
        * rewrite (v6_single O w d "oneOf" _ v), (v6_single O w d "oneOf" _ v) by (cbn; tauto).
          unfold cl_comp. cbn [wkey]. lits. rewrite <- !(filter_map_len (s_elems R es)), <- !(filter_map_len (s_elems ser_inl es)).
          now rewrite Hpt.
        * rewrite (v6_single O w d "allOf" _ v), (v6_single O w d "allOf" _ v) by (cbn; tauto).
          unfold cl_comp. cbn [wkey]. lits. now rewrite !Hfa, Hpt.
      + (* an object class *)
        intros v Hv. destruct Ly as [G1 X1].
        assert (Hto : forall key, In key (keys [(s_ "type", JStr (s_ "object")); (s_ "title", JStr n)]) -> key = s_ "type" \/ key = s_ "title").
        { intros key [<-|[<-|[]]]; auto. }
        assert (S1 : Forall (fun x => sim O w x (R x) /\ gsh R x) (ksub k)).
        { apply Forall_forall. intros x Hx. rewrite Forall_forall in Hch, Cy. destruct (Hch x Hx) as (Hs & Hf & _). split; [|exact Hs].
          intros v' Hv'. rewrite (Hf v' Hv'). exact (ser_inl_meaning O x (proj1 (Cy x Hx)) v' Hv'). }
        assert (S2 : Forall (fun x => sim O w x (ser_inl x) /\ gsh ser_inl x) (ksub k)).
        { apply Forall_forall. intros x Hx. rewrite Forall_forall in Cy. split; [exact (ser_inl_meaning O x (proj1 (Cy x Hx)))|apply ser_inl_shape]. }
        assert (D1 : forall x, In x (ksub k) -> schema_has_default (R x) = match elem_default x with Some _ => true | None => false end).
        { intros x Hx. rewrite Forall_forall in Hch. exact (proj2 (proj2 (Hch x Hx))). }
        apply (C17Classes.ek_cong O w R ser_inl (fun _ => True) CElement k k _ _ Hto Hto eq_refl
                 (kwds_refl elem_eq (ksub k) Hrefl k Wy (incl_refl _)) Wy Wy G1 G1 N1 (N2 _) IHc).
        * intros m.
          pose proof (req_cls O w Hw_c R eq_refl n k D1 G1 X1 S1 m) as R1.
          pose proof (req_cls O w Hw_c ser_inl eq_refl n k (fun x _ => ser_inl_default x) G1 X1 S2 m) as R2.
          unfold C01Element.req_specw in R1, R2. rewrite <- R1, <- R2. reflexivity.
        * intros n0. reflexivity.
        * exact Hv.
    - unfold hasdef. destruct y as [c k| |x d|m es d|n b k]; cbn [shell schema_has_default elem_default]; try reflexivity.
      + unfold has_key. rewrite (lk_default R k (json_type c) (Ht c)). destruct (k_default k); reflexivity.
      + destruct d; reflexivity.
      + destruct d, m; reflexivity.
      + unfold has_key. rewrite (lk_default R k _).
        * destruct (k_default k); reflexivity.
        * intros key [<-|[<-|[]]]; auto.
  Qed.
End Mean.

(* ---- depth, as a relation (children are not a structural position of the nested type) ---- *)
Inductive dle : nat -> elem -> Prop :=
| dle_node m y : Forall (dle m) (children y) -> dle (S m) y.

Lemma dle_mono m y : dle m y -> forall m', m <= m' -> dle m' y.
Proof.
  revert y. induction m as [|m IH]; intros y H m' Hle; inversion H as [? ? Hc]; subst.
  destruct m' as [|m']; [lia|]. constructor. eapply Forall_impl; [|exact Hc]. intros x Hx. apply IH; [exact Hx|lia].
Qed.

Section Main.
  Variable O : oracles.
  Notation w := WCode.
  Notation F := (v6 O w).
  Notation Feq := (Feq O w).
  Variable cd : list (str * elem).
  Variable DJ : list (str * json).
  Variable node : elem -> Prop.
  Hypothesis Hchild : forall y x, node y -> In x (children y) -> node x.
  Hypothesis Hdef : forall key d, In (key, d) cd -> node d.
  Hypothesis Hgood : forall y, node y -> goodc y.
  Hypothesis Hcls : forall y n b k, node y -> In (EObj n b k) (children y) -> lookup n DJ = Some (serD cd (EObj n b k)).
  Hypothesis Hkey : forall key d, In (key, d) cd -> lookup key DJ = Some (serD cd d).
  Hypothesis Hdepth : forall key d c m, In (key, d) cd -> node c -> elem_eq d c = true -> dle m c -> dle m d.

  Definition Res (j : json) (y : elem) : Prop :=
    exists n0, forall n, n0 <= n -> exists R, inl DJ n j = Some R /\ Good O R y.

  Lemma top_step m :
    (forall y x, node y -> In x (children y) -> dle m x -> Res (subD cd x) x) ->
    forall y, node y -> dle (S m) y -> Res (serD cd y) y.
  Proof.
    intros Hsub y Hy Hd. inversion Hd as [? ? Hc]; subst.
    assert (Hch : Forall (fun x => exists n0, forall n, n0 <= n -> exists R, inl DJ n (subD cd x) = Some R /\ Good O R x) (children y)).
    { apply Forall_forall. intros x Hx. rewrite Forall_forall in Hc. exact (Hsub y x Hy Hx (Hc x Hx)). }
    apply (forall_exists_max (fun n x => exists R, inl DJ n (subD cd x) = Some R /\ Good O R x)) in Hch.
    2:{ intros x n n' Hle (R & H1 & H2). exists R. split; [eapply inl_mono; eauto|exact H2]. }
    destruct Hch as (n0 & Hch).
    exists (S (S n0)). intros n Hn. destruct n as [|[|n']]; try lia.
    assert (Hn' : n0 <= S n') by lia. specialize (Hch (S n') Hn').
    set (R := fun x => match inl DJ (S n') (subD cd x) with Some r => r | None => JNull end).
    assert (H1 : Forall (fun x => inl DJ (S n') (subD cd x) = Some (R x)) (children y)).
    { eapply Forall_impl; [|exact Hch]. intros x (r & E & _). unfold R. now rewrite E. }
    assert (H2 : Forall (fun x => Good O (R x) x) (children y)).
    { eapply Forall_impl; [|exact Hch]. intros x (r & E & G). unfold R. now rewrite E. }
    exists (shell R y). split; [exact (shell_resolve cd DJ n' R y H1)|exact (shell_good O R y (Hgood y Hy) H2)].
  Qed.

  Lemma Good_transfer R d x : goodc d -> goodc x -> elem_eq d x = true -> Good O R d -> Good O R x.
  Proof.
    intros Gd Gx He (Hs & Hf & Hdf). split; [|split].
    - destruct Hs as [Hs|[-> Hs]]; [now left|]. right. split; [|exact Hs]. destruct x; try discriminate. reflexivity.
    - intros v Hv. rewrite (Hf v Hv). exact (ser_inl_cong O d Gd x Gx He v Hv).
    - rewrite Hdf. unfold hasdef. pose proof (elem_eq_default d x He) as [A B].
      destruct (elem_default d), (elem_default x); try reflexivity.
      + discriminate (B eq_refl).
      + discriminate (A eq_refl).
  Qed.

  Lemma Res_ref key j y : lookup key DJ = Some j -> Res j y -> Res (ref_to key) y.
  Proof.
    intros Hl (n0 & H). exists (S n0). intros n Hn. destruct n as [|n']; [lia|].
    rewrite inl_S, ref_target_ref, Hl. apply H. lia.
  Qed.

  Lemma sub_step m :
    (forall y, node y -> dle m y -> Res (serD cd y) y) ->
    forall y x, node y -> In x (children y) -> dle m x -> Res (subD cd x) x.
  Proof.
    intros Htop y x Hy Hx Hd. pose proof (Hchild y x Hy Hx) as Nx.
    destruct x as [c k| |z d|md es d|n b k].
    5:{ change (subD cd (EObj n b k)) with (ref_to n). apply (Res_ref n _ _ (Hcls y n b k Hy Hx)). exact (Htop _ Nx Hd). }
    all: match goal with |- Res (subD cd ?X) _ => change (subD cd X) with (from_definitions cd X (serD cd X)); set (x := X) in * end;
      unfold from_definitions; destruct (find (fun kd => elem_eq (snd kd) x) cd) as [[key d0]|] eqn:Ef;
      [|exact (Htop _ Nx Hd)];
      apply find_some in Ef as [Hin He]; cbn [snd] in He;
      apply (Res_ref key _ _ (Hkey key d0 Hin));
      destruct (Htop d0 (Hdef key d0 Hin) (Hdepth key d0 x m Hin Nx He Hd)) as (n0 & H);
      exists n0; intros n Hn; destruct (H n Hn) as (R & E & G); exists R; split; [exact E|];
      exact (Good_transfer R d0 x (Hgood _ (Hdef key d0 Hin)) (Hgood _ Nx) He G).
  Qed.

  Theorem resolve_top : forall m y, node y -> dle m y -> Res (serD cd y) y.
  Proof.
    induction m as [|m IH]; intros y Hy Hd; [inversion Hd|].
    apply (top_step m); [|exact Hy|exact Hd]. exact (sub_step m IH).
  Qed.
End Main.
