(* C03Resolve.v — resolving the references of the document serialize_json emits gives the document
   with the object classes written in place (Resolve.ser_inl): inl dfs n (ser_top e) = ser_inl e for
   every tree whose reachable classes are all present in the definitions under their names. *)
From Coq Require String. Import String.StringSyntax.
From Coq Require Import List Bool Lia PeanoNat.
From Statham.Model Require Import Str Json Elem Sub Equality SerJson Resolve NfFrag.
From Statham.Proofs Require Import StrFacts ElemInd C03Lookup C06RoundBase.
Import ListNotations.
Local Open Scope string_scope.
Local Open Scope list_scope.
Arguments s_ : simpl never.

(* ---- the maps are monotone in the function they apply ---- *)
Section Mono.
  Variables go1 go2 : json -> option json.
  Hypothesis Hgo : forall x r, go1 x = Some r -> go2 x = Some r.

  Lemma omap_list_mono l r : omap_list go1 l = Some r -> omap_list go2 l = Some r.
  Proof.
    revert r. induction l as [|x l IH]; intros r H; simpl in *; [exact H|].
    destruct (go1 x) eqn:E1; [|discriminate]. destruct (omap_list go1 l) eqn:E2; [|discriminate].
    now rewrite (Hgo _ _ E1), (IH _ eq_refl).
  Qed.

  Lemma omap_vals_mono b l r : omap_vals go1 b l = Some r -> omap_vals go2 b l = Some r.
  Proof.
    revert r. induction l as [|[k v] l IH]; intros r H; simpl in *; [exact H|].
    destruct (omap_vals go1 b l) eqn:E2.
    - rewrite (IH _ eq_refl). destruct b.
      + destruct v; try exact H;
          match type of H with match ?g with _ => _ end = _ => destruct g eqn:E1; [|discriminate] end;
          now rewrite (Hgo _ _ E1).
      + destruct (go1 v) eqn:E1; [|discriminate]. now rewrite (Hgo _ _ E1).
    - destruct (if b then _ else _); discriminate.
  Qed.

  Lemma at_key_mono k v r : at_key go1 k v = Some r -> at_key go2 k v = Some r.
  Proof.
    unfold at_key. intros H.
    destruct (mem_str k kw_schema); [now apply Hgo|].
    destruct (str_eqb k (s_ "items")).
    { destruct v; try (now apply Hgo). destruct (omap_list go1 l) eqn:E; [|discriminate]. now rewrite (omap_list_mono _ _ E). }
    destruct (mem_str k kw_schema_list).
    { destruct v; try exact H. destruct (omap_list go1 l) eqn:E; [|discriminate]. now rewrite (omap_list_mono _ _ E). }
    destruct (mem_str k kw_schema_dict).
    { destruct v; try exact H. destruct (omap_vals go1 false kvs) eqn:E; [|discriminate]. now rewrite (omap_vals_mono _ _ _ E). }
    destruct (str_eqb k (s_ "dependencies")); [|exact H].
    destruct v; try exact H. destruct (omap_vals go1 true kvs) eqn:E; [|discriminate]. now rewrite (omap_vals_mono _ _ _ E).
  Qed.

  Lemma omap_kvs_mono l r : omap_kvs go1 l = Some r -> omap_kvs go2 l = Some r.
  Proof.
    revert r. induction l as [|[k v] l IH]; intros r H; simpl in *; [exact H|].
    destruct (at_key go1 k v) eqn:E1; [|discriminate]. destruct (omap_kvs go1 l) eqn:E2; [|discriminate].
    now rewrite (at_key_mono _ _ _ E1), (IH _ eq_refl).
  Qed.
End Mono.

Lemma inl_mono defs : forall n m j r, n <= m -> inl defs n j = Some r -> inl defs m j = Some r.
Proof.
  induction n as [|n IH]; intros m j r Hle H; [discriminate|].
  destruct m as [|m]; [lia|]. cbn [inl] in *.
  destruct (ref_target j) as [name|].
  - destruct (lookup name defs); [|discriminate]. apply (IH m); [lia|exact H].
  - destruct j; try exact H. destruct (omap_kvs (inl defs n) kvs) eqn:E; [|discriminate].
    rewrite (omap_kvs_mono (inl defs n) (inl defs m) (fun x r0 Hx => IH m x r0 ltac:(lia) Hx) _ _ E). exact H.
Qed.

Lemma omap_kvs_app go a b :
  omap_kvs go (a ++ b) = match omap_kvs go a, omap_kvs go b with Some x, Some y => Some (x ++ y) | _, _ => None end.
Proof.
  induction a as [|[k v] a IH]; simpl.
  - destruct (omap_kvs go b); reflexivity.
  - rewrite IH. destruct (at_key go k v); [|reflexivity].
    destruct (omap_kvs go a); [|reflexivity]. destruct (omap_kvs go b); reflexivity.
Qed.

Lemma omap_kvs_app_some go a b a' b' :
  omap_kvs go a = Some a' -> omap_kvs go b = Some b' -> omap_kvs go (a ++ b) = Some (a' ++ b').
Proof. intros Ha Hb. now rewrite omap_kvs_app, Ha, Hb. Qed.

(* ---- the keyword list of one element: apply `go` to every sub-schema ---- *)
Section Slots.
  Variable go : json -> option json.
  Variables F G : elem -> json.
  Hypothesis HF : forall x, (exists l, F x = JObj l) \/ F x = JBool false.
  Hypothesis Hbool : go (JBool false) = Some (JBool false).
  Notation ok := (fun x => go (F x) = Some (G x)).

  Lemma F_not_arr x : match F x with JArr _ => False | _ => True end.
  Proof. destruct (HF x) as [(l & ->)| ->]; exact I. Qed.

  Lemma omap_list_elems l : Forall ok l -> omap_list go (s_elems F l) = Some (s_elems G l).
  Proof. induction 1 as [|x r Hx _ IH]; simpl; [reflexivity|]. now rewrite Hx, IH. Qed.

  Lemma omap_props l : Forall ok (map (fun np : str * prop elem => p_elem (snd np)) l) ->
    omap_vals go false (s_props true F l) = Some (s_props true G l).
  Proof.
    induction l as [|[n p] r IH]; simpl; intros H; [reflexivity|]. inversion H as [|? ? Hx Hr]; subst.
    cbn [snd] in Hx. now rewrite Hx, (IH Hr).
  Qed.

  Lemma omap_pats l : Forall ok (map snd l) -> omap_vals go false (s_pats F l) = Some (s_pats G l).
  Proof.
    induction l as [|[n e] r IH]; simpl; intros H; [reflexivity|]. inversion H as [|? ? Hx Hr]; subst.
    cbn [snd] in Hx. now rewrite Hx, (IH Hr).
  Qed.

  Lemma omap_deps l : Forall ok (sub_deps (Some l)) -> omap_vals go true (s_deps F l) = Some (s_deps G l).
  Proof.
    induction l as [|[n [ns|e]] r IH]; cbn [s_deps omap_vals sub_deps flat_map snd dep_elems app]; intros H; [reflexivity| |].
    - cbn [sub_deps] in IH. now rewrite (IH H).
    - inversion H as [|? ? Hx Hr]; subst. cbn [sub_deps] in IH. rewrite (IH Hr).
      destruct (HF e) as [(l & E)|E]; rewrite E in *; now rewrite Hx.
  Qed.

  Lemma slot_elem (key : String.string) e : mem_str (s_ key) kw_schema = true -> ok e ->
    omap_kvs go [(s_ key, F e)] = Some [(s_ key, G e)].
  Proof. intros Hk Hx. cbn [omap_kvs]. unfold at_key. now rewrite Hk, Hx. Qed.

  Lemma omap_ser k : Forall ok (ksub k) ->
    omap_kvs go (ser_kwds true true F k) = Some (ser_kwds true true G k).
  Proof.
    intros H. unfold ksub in H.
    repeat match type of H with Forall _ (_ ++ _) => let Q := fresh "Q" in apply Forall_app in H as [Q H] end.
    unfold ser_kwds.
    repeat (apply omap_kvs_app_some);
      try (match goal with |- omap_kvs go (sj _ ?o) = _ => destruct o; reflexivity end);
      try (match goal with |- omap_kvs go (ss _ ?o) = _ => destruct o; reflexivity end).
    - destruct (k_enum k); reflexivity.
    - destruct (k_items k) as [[e|l]|]; cbn [sub_items] in Q; [| |reflexivity].
      + inversion Q as [|? ? Hx _]; subst. cbn [omap_kvs]. unfold at_key.
        change (mem_str (s_ "items") kw_schema) with false. change (str_eqb (s_ "items") (s_ "items")) with true. cbv iota.
        pose proof (F_not_arr e) as Hn. destruct (F e) eqn:E; try contradiction; now rewrite Hx.
      + cbn [omap_kvs]. unfold at_key.
        change (mem_str (s_ "items") kw_schema) with false. change (str_eqb (s_ "items") (s_ "items")) with true. cbv iota.
        now rewrite (omap_list_elems l Q).
    - unfold s_addl. destruct (k_additionalItems k) as [[|]|e]; cbn [sub_addl] in Q0; try reflexivity.
      + cbn [omap_kvs]. unfold at_key. change (mem_str (s_ "additionalItems") kw_schema) with true. cbv iota. now rewrite Hbool.
      + inversion Q0; subst. now apply slot_elem.
    - destruct (k_uniqueItems k); reflexivity.
    - unfold se. destruct (k_contains k) as [e|]; cbn [sub_opt] in Q1; [|reflexivity]. inversion Q1; subst. now apply slot_elem.
    - destruct (merged_required true k); reflexivity.
    - destruct (k_properties k) as [[|p0 r]|]; cbn [sub_props] in Q2; try reflexivity.
      cbn [omap_kvs]. unfold at_key.
      change (mem_str (s_ "properties") kw_schema) with false. change (str_eqb (s_ "properties") (s_ "items")) with false.
      change (mem_str (s_ "properties") kw_schema_list) with false. change (mem_str (s_ "properties") kw_schema_dict) with true. cbv iota.
      now rewrite (omap_props (p0 :: r) Q2).
    - destruct (k_patternProperties k) as [l|]; cbn [sub_pats] in Q3; [|reflexivity].
      cbn [omap_kvs]. unfold at_key.
      change (mem_str (s_ "patternProperties") kw_schema) with false. change (str_eqb (s_ "patternProperties") (s_ "items")) with false.
      change (mem_str (s_ "patternProperties") kw_schema_list) with false. change (mem_str (s_ "patternProperties") kw_schema_dict) with true. cbv iota.
      now rewrite (omap_pats l Q3).
    - unfold s_addl. destruct (k_additionalProperties k) as [[|]|e]; cbn [sub_addl] in Q4; try reflexivity.
      + cbn [omap_kvs]. unfold at_key. change (mem_str (s_ "additionalProperties") kw_schema) with true. cbv iota. now rewrite Hbool.
      + inversion Q4; subst. now apply slot_elem.
    - unfold se. destruct (k_propertyNames k) as [e|]; cbn [sub_opt] in Q5; [|reflexivity]. inversion Q5; subst. now apply slot_elem.
    - destruct (k_dependencies k) as [l|]; [|reflexivity].
      cbn [omap_kvs]. unfold at_key.
      change (mem_str (s_ "dependencies") kw_schema) with false. change (str_eqb (s_ "dependencies") (s_ "items")) with false.
      change (mem_str (s_ "dependencies") kw_schema_list) with false. change (mem_str (s_ "dependencies") kw_schema_dict) with false.
      change (str_eqb (s_ "dependencies") (s_ "dependencies")) with true. cbv iota.
      now rewrite (omap_deps l H).
  Qed.
End Slots.

(* ---- references ---- *)
Lemma strip_prefix_app p s : strip_prefix p (p ++ s) = Some s.
Proof. induction p as [|a p IH]; simpl; [reflexivity|]. now rewrite N.eqb_refl. Qed.

Lemma ref_target_ref n : ref_target (ref_to n) = Some n.
Proof.
  unfold ref_target, ref_to. change (str_eqb (s_ "$ref") (s_ "$ref")) with true. cbv iota. apply strip_prefix_app.
Qed.

Lemma ref_target_keys kvs : ~ In (s_ "$ref") (keys kvs) -> ref_target (JObj kvs) = None.
Proof.
  intros H. unfold ref_target. destruct kvs as [|[k v] r]; [reflexivity|]. destruct v; try reflexivity.
  destruct r; [|reflexivity].
  destruct (str_eqb_spec k (s_ "$ref")) as [->|_]; [|reflexivity]. exfalso. apply H. now left.
Qed.

Lemma ref_target_nostr key v : (forall s, v <> JStr s) -> forall d, ref_target (JObj (d ++ [(key, v)])) = None.
Proof.
  intros Hv d. unfold ref_target. destruct d as [|[k0 v0] r]; cbn [app].
  - destruct v; try reflexivity. exfalso. eapply Hv. reflexivity.
  - destruct v0; try reflexivity. destruct r; reflexivity.
Qed.

Definition ser := ser_top true true [].

Lemma ser_EObj n b k : ser (EObj n b k) = JObj (ser_kwds true true sub k ++ [(s_ "type", JStr (s_ "object")); (s_ "title", JStr n)]).
Proof. reflexivity. Qed.

Lemma sub_shape x : (exists l, sub x = JObj l) \/ sub x = JBool false.
Proof. destruct x; try (left; eexists; reflexivity). right. reflexivity. Qed.

Lemma sub_nonobj x : (match x with EObj _ _ _ => False | _ => True end) -> sub x = ser x.
Proof. destruct x; try reflexivity. contradiction. Qed.

(* ---- class nodes reachable from an element ---- *)
Inductive reach : elem -> elem -> Prop :=
| reach_refl e : reach e e
| reach_step e x y : In x (children e) -> reach x y -> reach e y.

Definition defs_ok (defs : list (str * json)) (e : elem) : Prop :=
  forall n b k, reach e (EObj n b k) -> lookup n defs = Some (ser (EObj n b k)).

Lemma defs_ok_child defs e x : defs_ok defs e -> In x (children e) -> defs_ok defs x.
Proof. intros H Hin n b k Hr. apply H. eapply reach_step; eauto. Qed.

Lemma keys_no_ref F k tail : incl (keys tail) [s_ "type"; s_ "title"] ->
  ~ In (s_ "$ref") (keys (ser_kwds true true F k ++ tail)).
Proof.
  intros Ht Hin. rewrite keys_app in Hin. apply in_app_iff in Hin as [Hin|Hin].
  - apply keys_ser_kwds in Hin. revert Hin. unfold kw_keywords.
    assert (G : forallb (fun x => negb (str_eqb (s_ "$ref") x)) kw_keywords = true) by (vm_compute; reflexivity).
    intros Hin. rewrite forallb_forall in G. specialize (G _ Hin). now rewrite str_eqb_refl in G.
  - apply Ht in Hin. destruct Hin as [E|[E|[]]]; revert E; vm_compute; discriminate.
Qed.

Lemma forall_exists_max {A} (P : nat -> A -> Prop) l :
  (forall x n m, n <= m -> P n x -> P m x) ->
  Forall (fun x => exists n0, forall n, n0 <= n -> P n x) l ->
  exists n0, forall n, n0 <= n -> Forall (P n) l.
Proof.
  intros Hmono. induction 1 as [|x r (n1 & H1) _ (n2 & H2)].
  - exists 0. constructor.
  - exists (max n1 n2). intros n Hn. constructor; [apply H1; lia|apply H2; lia].
Qed.

Lemma inl_S defs n j :
  inl defs (S n) j =
  match ref_target j with
  | Some name => match lookup name defs with Some d => inl defs n d | None => None end
  | None => match j with JObj kvs => option_map JObj (omap_kvs (inl defs n) kvs) | _ => Some j end
  end.
Proof. reflexivity. Qed.

Theorem resolve_ser defs : forall e, defs_ok defs e ->
  exists n0, forall n, n0 <= n ->
    inl defs n (ser e) = Some (ser_inl e) /\ inl defs n (sub e) = Some (ser_inl e).
Proof.
  apply (elem_ind' (fun e => defs_ok defs e -> exists n0, forall n, n0 <= n ->
                      inl defs n (ser e) = Some (ser_inl e) /\ inl defs n (sub e) = Some (ser_inl e))).
  intros e IH Hok.
  assert (Hch : Forall (fun x => exists n0, forall n, n0 <= n -> inl defs n (sub x) = Some (ser_inl x)) (children e)).
  { apply Forall_forall. intros x Hx. rewrite Forall_forall in IH.
    destruct (IH x Hx (defs_ok_child defs e x Hok Hx)) as (n0 & H). exists n0. intros n Hn. apply (H n Hn). }
  apply (forall_exists_max (fun n x => inl defs n (sub x) = Some (ser_inl x))) in Hch.
  2:{ intros x n m Hle H. eapply inl_mono; eauto. }
  destruct Hch as (n0 & Hch).
  set (N := S (max n0 1)).
  assert (Hself : forall n, N <= n -> inl defs n (ser e) = Some (ser_inl e)).
  { intros n Hn. destruct n as [|n1]; [unfold N in Hn; lia|].
    destruct n1 as [|n2]; [unfold N in Hn; lia|].
    assert (Hn1 : n0 <= S n2) by (unfold N in Hn; lia). specialize (Hch (S n2) Hn1).
    set (go := inl defs (S n2)) in *.
    assert (Hbool : go (JBool false) = Some (JBool false)) by reflexivity.
    destruct e as [c k| |x d|m es d|nm b k]; cbn [children] in Hch.
    - rewrite ser_EK. rewrite inl_S. fold go. cbn [ser_inl]. rewrite ref_target_keys.
      2:{ apply keys_no_ref. intros y Hy. apply keys_json_type in Hy. destruct Hy as [<-|[]]. now left. }
      rewrite (omap_kvs_app_some go _ _ _ _ (omap_ser go sub ser_inl sub_shape Hbool k Hch) (ltac:(destruct c; reflexivity) : omap_kvs go (json_type c) = Some (json_type c))).
      reflexivity.
    - reflexivity.
    - inversion Hch as [|? ? Hx _]; subst.
      change (ser (ENot x d)) with (JObj ((match d with Some j => [(s_ "default", j)] | None => [] end) ++ [(s_ "not", sub x)])).
      rewrite inl_S. fold go. cbn [ser_inl]. rewrite ref_target_nostr.
      2:{ intros s Es. destruct (sub_shape x) as [(l & E)|E]; rewrite E in Es; discriminate. }
      rewrite (omap_kvs_app_some go _ _ (match d with Some j => [(s_ "default", j)] | None => [] end) [(s_ "not", ser_inl x)]).
      + reflexivity.
      + destruct d; reflexivity.
      + apply slot_elem; [reflexivity|exact Hx].
    - change (ser (EComp m es d)) with (JObj ((match d with Some j => [(s_ "default", j)] | None => [] end) ++ [(mode_key m, JArr (s_elems sub es))])).
      rewrite inl_S. fold go. cbn [ser_inl]. rewrite ref_target_nostr by (intros s Es; discriminate).
      rewrite (omap_kvs_app_some go _ _ (match d with Some j => [(s_ "default", j)] | None => [] end) [(mode_key m, JArr (s_elems ser_inl es))]).
      + reflexivity.
      + destruct d; reflexivity.
      + pose proof (omap_list_elems go sub ser_inl es Hch) as Hl.
        destruct m; unfold mode_key; cbn [omap_kvs]; unfold at_key;
          repeat match goal with |- context [mem_str (s_ ?a) ?L] =>
                   let r := eval vm_compute in (mem_str (s_ a) L) in change (mem_str (s_ a) L) with r end;
          repeat match goal with |- context [str_eqb (s_ ?a) (s_ ?b)] =>
                   let r := eval vm_compute in (str_eqb (s_ a) (s_ b)) in change (str_eqb (s_ a) (s_ b)) with r end;
          cbv iota; rewrite Hl; reflexivity.
    - rewrite ser_EObj. rewrite inl_S. fold go. cbn [ser_inl]. rewrite ref_target_keys.
      2:{ apply keys_no_ref. intros y Hy. exact Hy. }
      rewrite (omap_kvs_app_some go _ _ _ _ (omap_ser go sub ser_inl sub_shape Hbool k Hch)
                 (eq_refl : omap_kvs go [(s_ "type", JStr (s_ "object")); (s_ "title", JStr nm)] = Some _)).
      reflexivity. }
  exists (S N). intros n Hn. split; [apply Hself; lia|].
  destruct e as [c k| |x d|m es d|nm b k]; try (rewrite sub_nonobj by exact I; apply Hself; lia).
  destruct n as [|n1]; [lia|]. change (sub (EObj nm b k)) with (ref_to nm). rewrite inl_S, ref_target_ref.
  rewrite (Hok nm b k (reach_refl _)). apply Hself. lia.
Qed.

(* the primary element is written at the top of the document, not under "definitions": only the class
   nodes BELOW it need an entry *)
Definition defs_ok_below (defs : list (str * json)) (e : elem) : Prop :=
  forall x, In x (children e) -> defs_ok defs x.

Theorem resolve_ser_top defs e : defs_ok_below defs e ->
  exists n0, forall n, n0 <= n -> inl defs n (ser e) = Some (ser_inl e).
Proof.
  intros Hok.
  assert (Hch : Forall (fun x => exists n0, forall n, n0 <= n -> inl defs n (sub x) = Some (ser_inl x)) (children e)).
  { apply Forall_forall. intros x Hx. destruct (resolve_ser defs x (Hok x Hx)) as (n0 & H). exists n0. intros n Hn. apply (H n Hn). }
  apply (forall_exists_max (fun n x => inl defs n (sub x) = Some (ser_inl x))) in Hch.
  2:{ intros x n m Hle H. eapply inl_mono; eauto. }
  destruct Hch as (n0 & Hch).
  exists (S (max n0 1)). intros n Hn. destruct n as [|n1]; [lia|].
  destruct n1 as [|n2]; [lia|].
  assert (Hn1 : n0 <= S n2) by lia. specialize (Hch (S n2) Hn1).
  set (go := inl defs (S n2)) in *.
  assert (Hbool : go (JBool false) = Some (JBool false)) by reflexivity.
  destruct e as [c k| |x d|m es d|nm b k]; cbn [children] in Hch.
  - rewrite ser_EK. rewrite inl_S. fold go. cbn [ser_inl]. rewrite ref_target_keys.
    2:{ apply keys_no_ref. intros y Hy. apply keys_json_type in Hy. destruct Hy as [<-|[]]. now left. }
    rewrite (omap_kvs_app_some go _ _ _ _ (omap_ser go sub ser_inl sub_shape Hbool k Hch) (ltac:(destruct c; reflexivity) : omap_kvs go (json_type c) = Some (json_type c))).
    reflexivity.
  - reflexivity.
  - inversion Hch as [|? ? Hx _]; subst.
    change (ser (ENot x d)) with (JObj ((match d with Some j => [(s_ "default", j)] | None => [] end) ++ [(s_ "not", sub x)])).
    rewrite inl_S. fold go. cbn [ser_inl]. rewrite ref_target_nostr.
    2:{ intros s Es. destruct (sub_shape x) as [(l & E)|E]; rewrite E in Es; discriminate. }
    rewrite (omap_kvs_app_some go _ _ (match d with Some j => [(s_ "default", j)] | None => [] end) [(s_ "not", ser_inl x)]).
    + reflexivity.
    + destruct d; reflexivity.
    + apply slot_elem; [reflexivity|exact Hx].
  - change (ser (EComp m es d)) with (JObj ((match d with Some j => [(s_ "default", j)] | None => [] end) ++ [(mode_key m, JArr (s_elems sub es))])).
    rewrite inl_S. fold go. cbn [ser_inl]. rewrite ref_target_nostr by (intros s Es; discriminate).
    rewrite (omap_kvs_app_some go _ _ (match d with Some j => [(s_ "default", j)] | None => [] end) [(mode_key m, JArr (s_elems ser_inl es))]).
    + reflexivity.
    + destruct d; reflexivity.
    + pose proof (omap_list_elems go sub ser_inl es Hch) as Hl.
      destruct m; unfold mode_key; cbn [omap_kvs]; unfold at_key;
        repeat match goal with |- context [mem_str (s_ ?a) ?L] =>
                 let r := eval vm_compute in (mem_str (s_ a) L) in change (mem_str (s_ a) L) with r end;
        repeat match goal with |- context [str_eqb (s_ ?a) (s_ ?b)] =>
                 let r := eval vm_compute in (str_eqb (s_ a) (s_ b)) in change (str_eqb (s_ a) (s_ b)) with r end;
        cbv iota; rewrite Hl; reflexivity.
  - rewrite ser_EObj. rewrite inl_S. fold go. cbn [ser_inl]. rewrite ref_target_keys.
    2:{ apply keys_no_ref. intros y Hy. exact Hy. }
    rewrite (omap_kvs_app_some go _ _ _ _ (omap_ser go sub ser_inl sub_shape Hbool k Hch)
               (eq_refl : omap_kvs go [(s_ "type", JStr (s_ "object")); (s_ "title", JStr nm)] = Some _)).
    reflexivity.
Qed.

(* ---- the whole document ---- *)
Lemma remove_key_absent {A} k (l : list (str * A)) : ~ In k (keys l) -> remove_key k l = l.
Proof.
  induction l as [|[k' v] r IH]; simpl; intros H; [reflexivity|].
  destruct (str_eqb_spec k k') as [->|Hne]; [exfalso; apply H; now left|]. f_equal. apply IH. tauto.
Qed.

Lemma remove_key_app {A} k (a b : list (str * A)) : remove_key k (a ++ b) = remove_key k a ++ remove_key k b.
Proof. induction a as [|[k' v] r IH]; simpl; [reflexivity|]. destruct (str_eqb k k'); [exact IH|]. simpl. now f_equal. Qed.

Lemma ser_keys_nodefs e kvs : ser e = JObj kvs -> ~ In (s_ "definitions") (keys kvs).
Proof.
  assert (G : forallb (fun x => negb (str_eqb (s_ "definitions") x)) (kw_keywords ++ map s_ ["type"; "title"; "default"; "not"; "anyOf"; "oneOf"; "allOf"]) = true)
    by (vm_compute; reflexivity).
  rewrite forallb_forall in G.
  assert (Hno : forall y, In y (kw_keywords ++ map s_ ["type"; "title"; "default"; "not"; "anyOf"; "oneOf"; "allOf"]) -> y <> s_ "definitions").
  { intros y Hy ->. specialize (G _ Hy). now rewrite str_eqb_refl in G. }
  intros E Hin. apply (Hno (s_ "definitions")); [|reflexivity]. clear G Hno.
  destruct e as [c k| |x d|m es d|nm b k].
  - rewrite ser_EK in E. inversion E; subst. rewrite keys_app in Hin. apply in_app_iff in Hin as [Hin|Hin]; apply in_or_app.
    + left. now apply keys_ser_kwds in Hin.
    + right. apply keys_json_type in Hin. destruct Hin as [<-|[]]. apply in_map. cbn; tauto.
  - discriminate.
  - change (ser (ENot x d)) with (JObj ((match d with Some j => [(s_ "default", j)] | None => [] end) ++ [(s_ "not", sub x)])) in E.
    inversion E; subst. apply in_or_app. right.
    destruct d; cbn [app keys map fst In] in Hin; repeat destruct Hin as [<-|Hin]; try contradiction; apply in_map; cbn; tauto.
  - change (ser (EComp m es d)) with (JObj ((match d with Some j => [(s_ "default", j)] | None => [] end) ++ [(mode_key m, JArr (s_elems sub es))])) in E.
    inversion E; subst. apply in_or_app. right.
    destruct d, m; unfold mode_key in Hin; cbn [app keys map fst In] in Hin; repeat destruct Hin as [<-|Hin]; try contradiction; apply in_map; cbn; tauto.
  - rewrite ser_EObj in E. inversion E; subst. rewrite keys_app in Hin. apply in_app_iff in Hin as [Hin|Hin]; apply in_or_app.
    + left. now apply keys_ser_kwds in Hin.
    + right. cbn [keys map fst In] in Hin. repeat destruct Hin as [<-|Hin]; try contradiction; apply in_map; cbn; tauto.
Qed.

Definition doc_of (body dfs : list (str * json)) : json :=
  JObj (body ++ match dfs with [] => [] | _ => [(s_ "definitions", JObj dfs)] end).

Theorem resolve_doc_ser e body dfs : ser e = JObj body -> defs_ok_below dfs e ->
  exists n0, forall n, n0 <= n -> resolve_doc n (doc_of body dfs) = Some (ser_inl e).
Proof.
  intros Eb Hok. destruct (resolve_ser_top dfs e Hok) as (n0 & H). exists n0. intros n Hn.
  pose proof (H n Hn) as H1. rewrite Eb in H1.
  pose proof (ser_keys_nodefs e body Eb) as Hnd.
  unfold resolve_doc, doc_of. rewrite lookup_app, remove_key_app, (remove_key_absent _ body Hnd).
  assert (El : lookup (s_ "definitions") body = None) by (now apply lookup_None).
  rewrite El. destruct dfs as [|d0 dr].
  - cbn [lookup remove_key app]. rewrite app_nil_r. exact H1.
  - cbn [lookup remove_key]. rewrite str_eqb_refl. cbn [app]. rewrite app_nil_r. exact H1.
Qed.
