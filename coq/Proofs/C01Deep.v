(* C01Deep.v — the validators that recurse into sub-elements (contains, propertyNames,
   dependencies), the AdditionalProperties validator, and `required`. *)
From Coq Require String. Import String.StringSyntax.
From Coq Require Import Lia.
From Statham.Model Require Import Str Json Elem PyNum Validate Tables Parser Spec6.
From Statham.Proofs Require Import StrFacts JsonEqProof MetaProof DefaultsProof C01Vm C01Items C01Object.
Local Open Scope string_scope.
Arguments s_ : simpl never.

Lemma v6_nonschema O w S v : is_schema S = false -> v6 O w S v = true.
Proof. destruct S; simpl; try reflexivity; discriminate. Qed.

Lemma forallb_jstr_list (g : str -> bool) l :
  forallb g (jstr_list (JArr l)) = forallb (fun n => match n with JStr s0 => g s0 | _ => true end) l.
Proof.
  unfold jstr_list. induction l as [|x r IH]; simpl; [reflexivity|].
  destruct x; simpl; rewrite ?IH; reflexivity.
Qed.

Section Deep.
  Variable O : oracles.
  Variable w : wmode.
  Notation F := (v6 O w).
  Notation B := (build O).
  Notation sim := (sim O w).
  Notation sim_assoc := (sim_assoc O w).
  Notation sim_opt := (sim_opt O w).

  Variable kvs : list (str * json).

  (* ---- dependencies ---- *)
  Definition dep_names (dd : list (str * json)) : list (str * dep_t elem) :=
    flat_map (fun kv => match snd kv with
                        | JArr _ => [(fst kv, @DepNames elem (jstr_list (snd kv)))]
                        | _ => [] end) dd.

  Definition deps_parsed (deps : option (list (str * dep_t elem))) : Prop :=
    match lookup (s_ "dependencies") kvs with
    | None => deps = None
    | Some (JObj dd) =>
      NoDup (keys dd) /\
      exists es, deps = Some (dict_merge (dict_of_pairs (dep_names dd))
                                         (map (fun ke => (fst ke, DepElem (snd ke))) es))
                 /\ sim_assoc es (filter (fun kv => is_schema (snd kv)) dd)
    | Some _ => False
    end.

  (* what the dependencies validator needs of the stored dependencies (any order) *)
  Definition deps_rel (deps : option (list (str * dep_t elem))) : Prop :=
    match lookup (s_ "dependencies") kvs with
    | None => deps = None
    | Some (JObj dd) =>
      NoDup (keys dd) /\
      exists ds, deps = Some ds /\
        (forall key d, In (key, d) ds ->
           (exists l, In (key, JArr l) dd /\ d = DepNames (jstr_list (JArr l))) \/
           (exists e S0, d = DepElem e /\ In (key, S0) dd /\ is_schema S0 = true /\ sim e S0)) /\
        (forall key S0, In (key, S0) dd -> (exists l, S0 = JArr l) \/ is_schema S0 = true -> In key (keys ds))
    | Some _ => False
    end.

  Definition dep_entry_b (dd : list (str * json)) (v : json) (m : list (str * json)) (key : str) : bool :=
    if has_key key m then
      match lookup key dd with
      | Some (JArr names) => forallb (fun n => match n with JStr s0 => has_key s0 m | _ => true end) names
      | Some d => F d v
      | None => true
      end
    else true.

  Lemma spec_deps_go dd v m : NoDup (keys dd) ->
    (fix go (l : list (str * json)) : bool :=
       match l with
       | [] => true
       | (key, d) :: r =>
         (if has_key key m then
            match d with
            | JArr names => forallb (fun n => match n with JStr s0 => has_key s0 m | _ => true end) names
            | _ => F d v
            end
          else true) && go r
       end) dd = forallb (fun kd => dep_entry_b dd v m (fst kd)) dd.
  Proof.
    intros Hnd.
    assert (H : forall l, incl l dd ->
      (fix go (l : list (str * json)) : bool :=
         match l with
         | [] => true
         | (key, d) :: r =>
           (if has_key key m then
              match d with
              | JArr names => forallb (fun n => match n with JStr s0 => has_key s0 m | _ => true end) names
              | _ => F d v
              end
            else true) && go r
         end) l = forallb (fun kd => dep_entry_b dd v m (fst kd)) l).
    { induction l as [|[key d] r IH]; intros Hi; [reflexivity|].
      cbn [forallb fst]. rewrite <- IH by (intros x Hx; apply Hi; now right).
      f_equal. unfold dep_entry_b.
      rewrite (In_lookup key d dd Hnd (Hi _ (or_introl eq_refl))).
      destruct (has_key key m); [|reflexivity]. destruct d; reflexivity. }
    apply H. apply incl_refl.
  Qed.

  Lemma deps_loop_vm v m (g : str -> bool) ds :
    (forall key d, In (key, d) ds -> has_key key m = true ->
       match d with
       | DepNames names => g key = forallb (fun n => has_key n m) names
       | DepElem de => om (B de (Some v)) (g key)
       end) ->
    vm (deps_loop B v m ds) (forallb (fun kd => if has_key (fst kd) m then g (fst kd) else true) ds).
  Proof.
    induction ds as [|[key d] r IH]; intros H; [reflexivity|].
    cbn [deps_loop forallb fst].
    specialize (IH (fun k' d' Hin => H k' d' (or_intror Hin))).
    destruct (has_key key m) eqn:Ek; [|exact IH].
    pose proof (H key d (or_introl eq_refl) Ek) as Hd.
    destruct d as [names|de].
    - rewrite Hd. apply vm_vand; [apply vm_vb|exact IH].
    - destruct (B de (Some v)); simpl in Hd; rewrite ?Hd; cbn [andb]; auto.
      eapply vm_rej_and; eauto.
  Qed.

  Lemma keys_dep_names dd : forall key d, In (key, d) (dep_names dd) ->
    exists l, In (key, JArr l) dd /\ d = DepNames (jstr_list (JArr l)).
  Proof.
    intros key d H. unfold dep_names in H. apply in_flat_map in H as ([k' j] & Hin & H).
    cbn [fst snd] in H. destruct j; try contradiction. destruct H as [E|[]]. inversion E; subst. eauto.
  Qed.

  Lemma In_dict_merge' {A} (x : str * A) b a : In x (dict_merge a b) -> In x a \/ In x b.
  Proof.
    revert a. unfold dict_merge. induction b as [|[kk v] r IH]; simpl; intros a H; [auto|].
    destruct (IH _ H) as [H1|H1]; auto.
    assert (Hs : forall l, In x (dict_set kk v l) -> x = (kk, v) \/ In x l).
    { induction l as [|[k' v'] t IHl]; simpl; [intuition|].
      destruct (str_eqb_spec kk k') as [->|Hn]; simpl.
      - intros [<-|H2]; auto.
      - intros [<-|H2]; auto. destruct (IHl H2); auto. }
    destruct (Hs _ H1); auto.
  Qed.

  Lemma lookup_dict_merge_some {A} k (b a : list (str * A)) :
    In k (keys a) \/ In k (keys b) -> exists v, lookup k (dict_merge a b) = Some v.
  Proof.
    intros H. rewrite lookup_dict_merge.
    destruct (lookup k (rev b)) as [v|] eqn:E; [eauto|].
    apply lookup_None in E. destruct H as [H|H].
    - destruct (lookup k a) eqn:E2; [eauto|]. apply lookup_None in E2. tauto.
    - exfalso. apply E. unfold keys in *. rewrite map_rev. now apply in_rev in H.
  Qed.

  Lemma Forall2_In_l {A C} (R : A -> C -> Prop) l l' x : Forall2 R l l' -> In x l -> exists y, In y l' /\ R x y.
  Proof.
    induction 1 as [|a c l l' Hac Hl IH]; intros Hin; [contradiction|].
    destruct Hin as [<-|Hin]; [exists c; split; [now left|auto]|].
    destruct (IH Hin) as (y & Hy & HR). exists y; split; [now right|auto].
  Qed.
  Lemma Forall2_In_r {A C} (R : A -> C -> Prop) l l' y : Forall2 R l l' -> In y l' -> exists x, In x l /\ R x y.
  Proof.
    induction 1 as [|a c l l' Hac Hl IH]; intros Hin; [contradiction|].
    destruct Hin as [<-|Hin]; [exists a; split; [now left|auto]|].
    destruct (IH Hin) as (x & Hx & HR). exists x; split; [now right|auto].
  Qed.

  Lemma In_keys {A} k (v : A) l : In (k, v) l -> In k (keys l).
  Proof. intros H. unfold keys. apply in_map_iff. exists (k, v). auto. Qed.

  Lemma deps_parsed_rel deps : deps_parsed deps -> deps_rel deps.
  Proof.
    unfold deps_parsed, deps_rel.
    destruct (lookup (s_ "dependencies") kvs) as [Sd|]; [|auto].
    destruct Sd as [| | | | | |dd]; try contradiction.
    intros (Hnd & es & -> & Hes). split; [exact Hnd|].
    set (els := map (fun ke : str * elem => (fst ke, DepElem (snd ke))) es).
    set (ds := dict_merge (dict_of_pairs (dep_names dd)) els).
    exists ds. split; [reflexivity|]. split.
    - intros key d H. unfold ds in H. apply In_dict_merge' in H as [H|H].
      + left. unfold dict_of_pairs in H. apply In_dict_merge' in H as [[]|H]. now apply keys_dep_names.
      + right. unfold els in H. apply in_map_iff in H as ([k' e] & E & Hin). inversion E; subst. clear E.
        destruct (Forall2_In_l _ _ _ _ Hes Hin) as ([k2 S0] & Hy & Ek & Hs). cbn [fst snd] in *. subst k2.
        apply filter_In in Hy as [Hy1 Hy2]. exists e, S0. auto.
    - intros key S0 Hin Hc.
      assert (Hk : In key (keys (dict_of_pairs (dep_names dd))) \/ In key (keys els)).
      { destruct Hc as [(l & ->)|Hc].
        - left. assert (Hdn : In (key, @DepNames elem (jstr_list (JArr l))) (dep_names dd)).
          { unfold dep_names. apply in_flat_map. exists (key, JArr l). split; [auto|now left]. }
          destruct (lookup_dict_merge_some key (dep_names dd) [] (or_intror (In_keys _ _ _ Hdn))) as (v0 & Hv0).
          apply lookup_In in Hv0. eapply In_keys; eauto.
        - right. assert (Hf : In (key, S0) (filter (fun kv => is_schema (snd kv)) dd)) by (apply filter_In; auto).
          destruct (Forall2_In_r _ _ _ _ Hes Hf) as ([k' e] & Hx & Ek & _). cbn [fst] in Ek. subst k'.
          unfold els, keys. rewrite map_map. apply in_map_iff. exists (key, e). auto. }
      destruct (lookup_dict_merge_some key els _ Hk) as (v0 & Hv0).
      apply lookup_In in Hv0. eapply In_keys; eauto.
  Qed.

  Lemma deps_vm deps v m : deps_rel deps -> jwf v ->
    vm (match deps with Some ds => deps_loop B v m ds | None => VPass end)
       (match lookup (s_ "dependencies") kvs with
        | Some (JObj dd) => forallb (fun kd => dep_entry_b dd v m (fst kd)) dd
        | _ => true end).
  Proof.
    intros Hd Hv. red in Hd.
    destruct (lookup (s_ "dependencies") kvs) as [Sd|]; [|subst deps; reflexivity].
    destruct Sd as [| | | | | |dd]; try contradiction.
    destruct Hd as (Hnd & ds & -> & Ha & Hb).
    set (g := fun key => match lookup key dd with
                         | Some (JArr names) => forallb (fun n => match n with JStr s0 => has_key s0 m | _ => true end) names
                         | Some d => F d v
                         | None => true end).
    eapply vm_ext; [apply (deps_loop_vm v m g ds)|].
    - intros key d Hin Hk. destruct (Ha key d Hin) as [(l & Hl & ->)|(e & S0 & -> & Hl & Hs & He)].
      + unfold g. rewrite (In_lookup _ _ _ Hnd Hl). symmetry. apply forallb_jstr_list.
      + unfold g. rewrite (In_lookup _ _ _ Hnd Hl). destruct S0; try discriminate; apply He; exact Hv.
    - apply eq_true_iff_eq. rewrite !forallb_forall. split.
      + intros H [key S0] Hin. cbn [fst]. unfold dep_entry_b. fold (g key).
        destruct (has_key key m) eqn:Ek; [|reflexivity].
        destruct (is_schema S0) eqn:Es.
        * pose proof (Hb key S0 Hin (or_intror Es)) as Hkk. unfold keys in Hkk. apply in_map_iff in Hkk as ([k' d'] & E & Hd).
          cbn [fst] in E; subst k'. pose proof (H _ Hd) as Hg. cbn [fst] in Hg. now rewrite Ek in Hg.
        * destruct S0; try discriminate Es;
            try (unfold g; rewrite (In_lookup _ _ _ Hnd Hin); reflexivity).
          pose proof (Hb key _ Hin (or_introl (ex_intro _ l eq_refl))) as Hkk. unfold keys in Hkk. apply in_map_iff in Hkk as ([k' d'] & E & Hd).
          cbn [fst] in E; subst k'. pose proof (H _ Hd) as Hg. cbn [fst] in Hg. now rewrite Ek in Hg.
      + intros H [key d] Hin. cbn [fst].
        assert (exists S0, In (key, S0) dd) as (S0 & HS).
        { destruct (Ha key d Hin) as [(l & Hl & _)|(e & S0 & _ & Hl & _)]; eauto. }
        pose proof (H _ HS) as Hg. cbn [fst] in Hg. unfold dep_entry_b in Hg. exact Hg.
  Qed.

  (* ---- contains / propertyNames ---- *)
  Lemma contains_part contains xs : sim_opt contains (lookup (s_ "contains") kvs) -> Forall jwf xs ->
    vm (match contains with Some c => contains_loop (fun x => B c (Some x)) xs | None => VPass end)
       (match lookup (s_ "contains") kvs with Some Sc => existsb (F Sc) xs | None => true end).
  Proof.
    intros H Hxs. red in H. destruct (lookup (s_ "contains") kvs) as [Sc|]; [|subst; reflexivity].
    destruct H as (e & -> & He). apply contains_vm. intros x Hx. apply He. rewrite Forall_forall in Hxs; auto.
  Qed.

  Lemma pnames_part pnames (m : list (str * json)) : sim_opt pnames (lookup (s_ "propertyNames") kvs) ->
    vm (match pnames with Some pn => pnames_loop (fun x => B pn (Some x)) m | None => VPass end)
       (match lookup (s_ "propertyNames") kvs with
        | Some Sn => forallb (fun kx => F Sn (JStr (fst kx))) m | None => true end).
  Proof.
    intros H. red in H. destruct (lookup (s_ "propertyNames") kvs) as [Sn|]; [|subst; reflexivity].
    destruct H as (e & -> & He). apply (pnames_vm _ (F Sn)). intros kx _. apply He. exact I.
  Qed.
End Deep.
