(* ParserFacts.v — monadic inversion and lookup lemmas for Parser.v. *)
From Statham.Model Require Import Str Json Elem Equality Names Tables Parser.
From Statham.Proofs Require Import StrFacts.

Arguments bind : simpl never.

Lemma bind_inv {A B} (m : M A) (f : A -> M B) st b st' :
  bind m f st = POk (b, st') -> exists a st1, m st = POk (a, st1) /\ f a st1 = POk (b, st').
Proof. unfold bind. destruct (m st) as [[a st1]|e]; [eauto|discriminate]. Qed.

Lemma ret_inv {A} (a b : A) st st' : ret a st = POk (b, st') -> a = b /\ st = st'.
Proof. unfold ret; intros H; injection H; auto. Qed.

Lemma fail_inv {A} e st (b : A) st' : @fail A e st = POk (b, st') -> False.
Proof. unfold fail; discriminate. Qed.

Ltac binv H :=
  let a := fresh "a" in let st := fresh "st" in let H1 := fresh "Hb" in
  apply bind_inv in H; destruct H as (a & st & H1 & H).

Lemma with_key_lookup {A} (f : json -> A) k kvs d :
  with_key f k kvs d = match lookup k kvs with Some v => f v | None => d end.
Proof.
  induction kvs as [|[k' v] r IH]; simpl; [reflexivity|].
  destruct (str_eqb k k'); auto.
Qed.

Lemma lookup_In_snd {A} k (kvs : list (str * A)) v : lookup k kvs = Some v -> In v (map snd kvs).
Proof. intros H; apply lookup_In in H. change v with (snd (k, v)); now apply in_map. Qed.

Lemma existsb_keys_false (l : list str) (kvs : list (str * json)) k :
  existsb (fun kv => mem_str (fst kv) l) kvs = false -> In k l -> lookup k kvs = None.
Proof.
  intros H Hin. apply lookup_None. intros Hk.
  unfold keys in Hk. apply in_map_iff in Hk. destruct Hk as ([k' v] & E & Hi); simpl in E; subst k'.
  assert (existsb (fun kv => mem_str (fst kv) l) kvs = true).
  { apply existsb_exists. exists (k, v); split; auto. simpl. now apply mem_str_In. }
  congruence.
Qed.
