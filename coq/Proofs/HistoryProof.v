(* HistoryProof.v — C13: on every history, each call of the live element answers exactly as
   the reference that has only seen the configuration operations (no call leaves a trace). *)
From Statham.Model Require Import Str Store History.
From Statham.Proofs Require Import StoreProof.

Section Hist.
  Variables (S V R C : Type).
  Variable apply_cfg : S -> C -> S.
  Variable rebind : S -> C -> store -> store.
  Variable call_binds : S -> list wop.
  Variable eval : S -> store -> V -> R.
  Variable home : S -> homes.                        (* where each declared property lives *)

  (* what the code guarantees (Store.v / C08): calls bind declared properties to their homes;
     the reconfiguration API leaves the store well-bound for the new configuration *)
  Hypothesis calls_bind_home : forall s, Forall (call_bind (home s)) (call_binds s).
  Hypothesis rebind_wb : forall s c st, WB (home s) st -> WB (home (apply_cfg s c)) (rebind s c st).

  Notation hrun := (hrun S V R C apply_cfg rebind call_binds eval).
  Notation href := (href S V R C apply_cfg rebind eval).
  Notation cfg_only := (cfg_only S V C apply_cfg rebind).

  Theorem live_equals_reference ops : forall s st, WB (home s) st ->
    fst (hrun s st ops) = href s st ops /\ snd (hrun s st ops) = cfg_only s st ops.
  Proof.
    induction ops as [|[c|v] ops IH]; intros s st Hwb; simpl.
    - auto.
    - apply IH. now apply rebind_wb.
    - rewrite (run_id (home s) (call_binds s) st Hwb (calls_bind_home s)).
      destruct (IH s st Hwb) as [H1 H2]. destruct (hrun s st ops) as [outs fin]. simpl in *.
      now rewrite H1, H2.
  Qed.

  Lemma href_app a b : forall s st,
    href s st (a ++ b) = href s st a ++ href (fst (cfg_only s st a)) (snd (cfg_only s st a)) b.
  Proof.
    induction a as [|[c|v] a IH]; intros s st; simpl; auto. now rewrite IH.
  Qed.

  (* the outcome of a call made after ANY history depends on the configuration operations
     only: it is what a fresh element, configured by those operations alone, answers *)
  Corollary last_call_sees_current_configuration ops v s st : WB (home s) st ->
    fst (hrun s st (ops ++ [HCall V C v])) =
    href s st ops ++ [eval (fst (cfg_only s st ops)) (snd (cfg_only s st ops)) v].
  Proof.
    intros Hwb. destruct (live_equals_reference (ops ++ [HCall V C v]) s st Hwb) as [H1 _].
    rewrite H1, href_app. reflexivity.
  Qed.

  (* calls can be inserted or removed anywhere without changing the final configuration *)
  Corollary calls_leave_no_trace ops s st : WB (home s) st ->
    snd (hrun s st ops) = cfg_only s st ops.
  Proof. intros Hwb. apply (live_equals_reference ops s st Hwb). Qed.
End Hist.
