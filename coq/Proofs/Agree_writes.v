(* Agree_writes.v — the write set the translator reads from /repo vs the audited one. *)
From Coq Require String. Import String.StringSyntax.
From Statham.Model Require Import Str Json Elem Tables.
Local Open Scope string_scope.
Local Open Scope list_scope.

(* --- write set: every store the code can perform is one of the audited ones --- *)
From Statham.Generated Require Gen_writes.
Definition write_audited (w : str * str * str) : bool :=
  existsb (fun a => match a, w with (m, f, t, _), (m', f', t') => str_eqb m m' && str_eqb f f' && str_eqb t t' end) audited_writes.
Lemma writes_audited : forallb write_audited Gen_writes.writes = true.
Proof. vm_compute. reflexivity. Qed.
(* the bind stores are still there (the model of what a call writes is not vacuous) *)
Lemma bind_writes_present :
  forallb (fun a => match a with (m, f, t, WBindC) => existsb (fun w => match w with (m', f', t') => str_eqb m m' && str_eqb f f' && str_eqb t t' end) Gen_writes.writes | _ => true end) audited_writes = true.
Proof. vm_compute. reflexivity. Qed.
