(* AnnotProof.v — C19: the value an element builds from an accepted input belongs to the
   element's generated annotation. *)
From Coq Require Import Lia.
From Statham.Model Require Import Str Json Elem PyNum Validate Sub Annot.
From Statham.Proofs Require Import StrFacts ElemInd ValidateFacts.

(* ---- induction on types and soundness of ty_eqb ---- *)
Section TyInd.
  Variable P : ty -> Prop.
  Hypothesis H1 : P TAny.
  Hypothesis H2 : P TNone.
  Hypothesis H3 : P TStr.
  Hypothesis H4 : P TInt.
  Hypothesis H5 : P TFloat.
  Hypothesis H6 : P TBool.
  Hypothesis Hn : forall s, P (TName s).
  Hypothesis Hl0 : P (TList None).
  Hypothesis Hl : forall t, P t -> P (TList (Some t)).
  Hypothesis Hu : forall l, Forall P l -> P (TUnion l).
  Hypothesis Hm : forall t, P t -> P (TMaybe t).
  Fixpoint ty_ind' (t : ty) : P t :=
    match t with
    | TAny => H1 | TNone => H2 | TStr => H3 | TInt => H4 | TFloat => H5 | TBool => H6
    | TName s => Hn s
    | TList None => Hl0
    | TList (Some t') => Hl t' (ty_ind' t')
    | TUnion l => Hu l ((fix go (l : list ty) : Forall P l :=
                           match l with [] => Forall_nil _ | x :: r => Forall_cons x (ty_ind' x) (go r) end) l)
    | TMaybe t' => Hm t' (ty_ind' t')
    end.
End TyInd.

Lemma ty_eqb_eq : forall a b, ty_eqb a b = true -> a = b.
Proof.
  induction a using ty_ind'; intros b Hb.
  1-6: (destruct b; simpl in Hb; congruence).
  - destruct b; simpl in Hb; try discriminate. apply str_eqb_eq in Hb. congruence.
  - destruct b as [| | | | | | |[t0|]| |]; simpl in Hb; try discriminate. reflexivity.
  - destruct b as [| | | | | | |[t0|]| |]; simpl in Hb; try discriminate. f_equal. f_equal. now apply IHa.
  - destruct b as [| | | | | | | |l0|]; simpl in Hb; try discriminate. f_equal.
    revert l0 Hb. induction H as [|x r Hx Hr IH]; intros [|y s] Hb; simpl in *; try discriminate; [reflexivity|].
    apply andb_prop in Hb as [E1 E2]. f_equal; [now apply Hx|now apply IH].
  - destruct b; simpl in Hb; try discriminate. f_equal. now apply IHa.
Qed.

Lemma ty_eqb_refl : forall a, ty_eqb a a = true.
Proof.
  induction a using ty_ind'; simpl; auto.
  - apply str_eqb_refl.
  - induction H as [|x r Hx Hr IH]; simpl; [reflexivity|]. now rewrite Hx, IH.
Qed.

Lemma mem_ty_In t l : mem_ty t l = true <-> In t l.
Proof.
  unfold mem_ty. rewrite existsb_exists. split.
  - intros (x & Hx & He). apply ty_eqb_eq in He. now subst.
  - intros H. exists t. split; auto using ty_eqb_refl.
Qed.

(* remove_duplicates keeps a representative of every element *)
Lemma dedupe_covers l : forall seen t, In t l -> In t seen \/ In t (dedupe_ty seen l).
Proof.
  induction l as [|x r IH]; intros seen t Hin; [destruct Hin|]. simpl.
  destruct (mem_ty x seen) eqn:E.
  - destruct Hin as [<-|Hin]; [left; now apply mem_ty_In|]. now apply IH.
  - destruct Hin as [<-|Hin]; [right; now left|].
    destruct (IH (seen ++ [x]) t Hin) as [H|H]; [|right; now right].
    apply in_app_or in H as [H|[<-|[]]]; [now left|right; now left].
Qed.
Lemma dedupe_covers0 l t : In t l -> In t (dedupe_ty [] l).
Proof. intros H. destruct (dedupe_covers l [] t H) as [[]|H']; exact H'. Qed.

(* ---- typing helpers ---- *)
Definition typed_in (r : rv) (anns : list ty) : Prop := exists t, In t anns /\ has_type r t = true.

Lemma has_type_union r ts : has_type r (TUnion ts) = existsb (has_type r) ts.
Proof. simpl. induction ts as [|t rest IH]; simpl; [reflexivity|]. now rewrite IH. Qed.

Lemma typed_in_collapse r anns : typed_in r anns ->
  has_type r (match dedupe_ty [] anns with
              | [t] => t
              | ds => if existsb is_any ds then TAny else TUnion ds
              end) = true.
Proof.
  intros (t & Hin & Ht). apply dedupe_covers0 in Hin.
  destruct (dedupe_ty [] anns) as [|t0 [|t1 ds]] eqn:E; [destruct Hin| |].
  - destruct Hin as [<-|[]]. exact Ht.
  - cbv zeta. destruct (existsb is_any (t0 :: t1 :: ds)); [reflexivity|].
    rewrite has_type_union. apply existsb_exists. eauto.
Qed.

Lemma comp_annotation_typed r anns : typed_in r anns -> has_type r (comp_annotation anns) = true.
Proof. apply typed_in_collapse. Qed.

(* ---- what the loops return ---- *)
Lemma collect_pass {K} (l : list (K * outcome)) rs : collect l = (VPass, rs) ->
  Forall2 (fun o r => fst o = fst r /\ snd o = Ok (snd r)) l rs.
Proof.
  revert rs. induction l as [|[k o] l IH]; intros rs H; simpl in *; [inversion H; constructor|].
  destruct (collect l) as [s rs'] eqn:E. destruct o.
  - inversion H; subst. constructor; [split; reflexivity|now apply IH].
  - destruct s; discriminate.
  - discriminate.
Qed.

Lemma attempt_ok m os r : attempt m os = Ok r -> In (Ok r) os.
Proof.
  unfold attempt. destruct (first_crash os); [discriminate|].
  destruct (ok_results os) as [|r0 rest] eqn:E; [discriminate|].
  assert (Hin : In (Ok r0) os).
  { clear - E. revert r0 rest E. induction os as [|o os IH]; intros r0 rest E; simpl in *; [discriminate|].
    destruct o; [injection E as -> _; now left| |]; right; eauto. }
  destruct m; [injection 1 as <-; exact Hin| |].
  - destruct rest; [injection 1 as <-; exact Hin|discriminate].
  - destruct (Nat.eqb _ _); [injection 1 as <-; exact Hin|discriminate].
Qed.

(* allOf: every member accepted and the result is the FIRST member's *)
Lemma attempt_all_first o os r : attempt MAll (o :: os) = Ok r -> o = Ok r.
Proof.
  unfold attempt. destruct (first_crash (o :: os)); [discriminate|].
  destruct o as [r0| |x]; simpl.
  - destruct (Nat.eqb _ _); [injection 1 as <-; reflexivity|discriminate].
  - destruct (ok_results os) as [|r1 rest] eqn:E; [discriminate|].
    match goal with |- context [Nat.eqb ?a ?b] => destruct (Nat.eqb a b) eqn:En end; [|discriminate].
    exfalso. apply Nat.eqb_eq in En.
    assert (Hle : length (ok_results os) <= length os).
    { clear. induction os as [|o os IH]; simpl; [lia|]. destruct o; simpl; lia. }
    rewrite E in Hle. simpl in *. lia.
  - destruct (ok_results os) as [|r1 rest] eqn:E; [discriminate|].
    match goal with |- context [Nat.eqb ?a ?b] => destruct (Nat.eqb a b) eqn:En end; [|discriminate].
    exfalso. apply Nat.eqb_eq in En.
    assert (Hle : length (ok_results os) <= length os).
    { clear. induction os as [|o os IH]; simpl; [lia|]. destruct o; simpl; lia. }
    rewrite E in Hle. simpl in *. lia.
Qed.

(* ---- unfolding of annotation on the two container kinds ---- *)
Lemma annotation_comp m es d :
  annotation (EComp m es d) =
  match m with MAll => allof_annotation (map annotation es) | _ => comp_annotation (map annotation es) end.
Proof.
  cbn [annotation].
  assert (E : (fix go (l : list elem) : list ty := match l with [] => [] | x :: r => annotation x :: go r end) es = map annotation es)
    by (induction es as [|x r IH]; simpl; [reflexivity|now rewrite IH]).
  now rewrite E.
Qed.

Definition items_ann (o : option (items_t elem)) : option (items_t ty) :=
  match o with
  | Some (ItOne x) => Some (ItOne (annotation x))
  | Some (ItMany l) => Some (ItMany (map annotation l))
  | None => None
  end.
Definition addl_ann (a : addl elem) : addl ty :=
  match a with AddBool b => AddBool b | AddElem x => AddElem (annotation x) end.
Lemma annotation_array k : annotation (EK CArray k) = array_annotation (items_ann (k_items k)) (addl_ann (k_additionalItems k)).
Proof.
  cbn [annotation]. unfold items_ann, addl_ann. destruct (k_items k) as [[x|l]|]; reflexivity.
Qed.

(* List[...] built from a list of candidate item annotations *)
Lemma list_of_typed rs anns : Forall (fun r => typed_in r anns) rs ->
  has_type (RList rs) (match (if existsb is_any anns then [TAny] else dedupe_ty [] anns) with
                       | [] => TList None
                       | [t] => TList (Some t)
                       | _ :: _ :: _ => TList (Some (TUnion (if existsb is_any anns then [TAny] else dedupe_ty [] anns)))
                       end) = true.
Proof.
  intros H. destruct (existsb is_any anns) eqn:Ea.
  - simpl. apply forallb_forall. intros x _. reflexivity.
  - destruct (dedupe_ty [] anns) as [|t0 [|t1 ds]] eqn:E.
    + reflexivity.
    + simpl. apply forallb_forall. intros x Hx. rewrite Forall_forall in H.
      destruct (H x Hx) as (t & Hin & Ht). apply dedupe_covers0 in Hin. rewrite E in Hin.
      destruct Hin as [<-|[]]. exact Ht.
    + cbn [has_type]. apply forallb_forall. intros x Hx. rewrite Forall_forall in H.
      destruct (H x Hx) as (t & Hin & Ht). apply dedupe_covers0 in Hin. rewrite E in Hin.
      change (has_type x (TUnion (t0 :: t1 :: ds)) = true). rewrite has_type_union. apply existsb_exists. eauto.
Qed.

Section Sound.
  Variable O : oracles.

  (* premise (finding K9): every AllOf is annotated Any or like its first member *)
  Definition local_pre (e : elem) : Prop :=
    match e with
    | EComp MAll (x :: rest) _ =>
      allof_annotation (map annotation (x :: rest)) = TAny \/ allof_annotation (map annotation (x :: rest)) = annotation x
    | _ => True
    end.
  Inductive pre : elem -> Prop := pre_intro e : local_pre e -> Forall pre (children e) -> pre e.
  Lemma pre_inv e : pre e -> local_pre e /\ Forall pre (children e).
  Proof. inversion 1; auto. Qed.

  Definition sound_at (e : elem) : Prop := forall v r, build O e (Some v) = Ok r -> has_type r (annotation e) = true.

  (* results of tuple items are typed by the annotation of the schema that built them *)
  Lemma tuple_results its : forall (l : list json) rest rs ALL,
    (forall x, In x its -> sound_at x) -> incl (map annotation its) ALL ->
    (forall x r, rest x = Ok r -> typed_in r ALL) ->
    Forall2 (fun o r => fst o = fst r /\ snd o = Ok (snd r)) (tuple_outs (build O) rest its l) rs ->
    Forall (fun r => typed_in r ALL) (map snd rs).
  Proof.
    induction its as [|ie ir IH]; intros l rest rs ALL Hs Hi Hr H2; simpl in H2.
    - clear Hs Hi. revert rs H2. induction l as [|x l IHl]; intros rs H2; simpl in H2; inversion H2; subst; simpl; constructor.
      + destruct H1 as [_ H1]. simpl in H1. eapply Hr; eauto.
      + now apply IHl.
    - destruct l as [|x xr]; inversion H2; subst; simpl; constructor.
      + destruct H1 as [_ H1]. simpl in H1. exists (annotation ie). split; [apply Hi; simpl; auto|].
        apply (Hs ie (or_introl eq_refl) x _ H1).
      + eapply IH; eauto.
        * intros z0 Hz0. apply Hs. now right.
        * intros t0 Ht0. apply Hi. simpl. now right.
  Qed.

  Theorem build_sound : forall e, pre e -> sound_at e.
  Proof.
    induction e using elem_ind'. intros Hp v r Hb.
    apply pre_inv in Hp as [Hl Hc].
    assert (HS : forall x, In x (children e) -> sound_at x).
    { intros x Hx. rewrite Forall_forall in H, Hc. apply (H x Hx (Hc x Hx)). }
    destruct e as [c k| |x d|m es d|n bs k].
    - cbn [build with_default] in Hb.
      destruct (negb (type_ok c v)) eqn:Et; [discriminate|]. apply negb_false_iff in Et.
      destruct (vand (scalar_validators O k v) (deep_validators O (build O) k v)); try discriminate.
      destruct c.
      + reflexivity.
      + destruct v; simpl in Et; try discriminate. injection Hb as <-. reflexivity.
      + destruct v; simpl in Et; try discriminate. injection Hb as <-. reflexivity.
      + destruct v; simpl in Et; try discriminate.
        * destruct (py_float_of_int z); [injection Hb as <-; reflexivity|discriminate].
        * injection Hb as <-. reflexivity.
      + destruct v; simpl in Et; try discriminate. injection Hb as <-. reflexivity.
      + destruct v; simpl in Et; try discriminate. injection Hb as <-. reflexivity.
      + (* arrays *)
        destruct v as [| | | | |l|]; simpl in Et; try discriminate.
        destruct (build_items (build O) k l) as [s rs] eqn:Eb. destruct s; try discriminate. injection Hb as <-.
        rewrite annotation_array. unfold build_items in Eb.
        destruct (collect _) as [s0 rs0] eqn:Ec in Eb.
        injection Eb as -> <-. apply collect_pass in Ec.
        assert (HSi : forall x, In x (sub_items (k_items k)) -> sound_at x)
          by (intros x Hx; apply HS; simpl; unfold ksub; apply in_or_app; now left).
        assert (HSa : forall x, In x (sub_addl (k_additionalItems k)) -> sound_at x)
          by (intros x Hx; apply HS; simpl; unfold ksub; apply in_or_app; right; apply in_or_app; now left).
        unfold array_annotation, items_ann.
        destruct (k_items k) as [[ie|its]|] eqn:Ei.
        * (* one schema for every item *)
          simpl. apply forallb_forall. intros y Hy. apply in_map_iff in Hy as ([u y'] & <- & Hy).
          clear - Ec Hy HSi. revert rs0 Ec Hy. induction l as [|x l IH]; intros rs0 Ec Hy; simpl in Ec; inversion Ec; subst; [destruct Hy|].
          destruct Hy as [<-|Hy]; [|eapply IH; eauto].
          destruct H1 as [_ H1]. simpl in H1. apply (HSi ie (or_introl eq_refl) x _ H1).
        * (* tuple *)
          unfold addl_ann. destruct (k_additionalItems k) as [[|]|ae] eqn:Ea.
          -- simpl. apply forallb_forall. intros y _. reflexivity.
          -- rewrite app_nil_r. apply (list_of_typed (map snd rs0) (map annotation its)).
             apply (tuple_results its l (fun x => on_addl (fun e' => build O e' (Some x)) (AddBool false) (Ok (build_any x)) Rej)
                      rs0 (map annotation its) (fun x Hx => HSi x Hx) (incl_refl _)); [|exact Ec].
             intros x r0 Hr0. simpl in Hr0. discriminate.
          -- apply (list_of_typed (map snd rs0) (map annotation its ++ [annotation ae])).
             apply (tuple_results its l (fun x => on_addl (fun e' => build O e' (Some x)) (AddElem ae) (Ok (build_any x)) Rej)
                      rs0 (map annotation its ++ [annotation ae]) (fun x Hx => HSi x Hx)
                      (fun t Ht => in_or_app _ _ t (or_introl Ht))); [|exact Ec].
             intros x r0 Hr0. simpl in Hr0. exists (annotation ae). split; [apply in_or_app; right; simpl; auto|].
             apply (HSa ae (or_introl eq_refl) x _ Hr0).
        * (* no items keyword *)
          simpl. apply forallb_forall. intros y _. reflexivity.
    - simpl in Hb. discriminate.
    - reflexivity.
    - rewrite annotation_comp. cbn [build with_default] in Hb.
      assert (Hmem : forall r0, In (Ok r0) (map_elems (fun e' => build O e' (Some v)) es) -> typed_in r0 (map annotation es)).
      { intros r0 Hin. clear - Hin HS. induction es as [|e0 es IH]; simpl in *; [destruct Hin|].
        destruct Hin as [Heq|Hin].
        - exists (annotation e0). split; [now left|]. apply (HS e0 (or_introl eq_refl) v r0 Heq).
        - destruct IH as (t & Ht & Hty); auto. exists t. split; [now right|exact Hty]. }
      destruct m.
      + apply comp_annotation_typed. apply Hmem. eapply attempt_ok; eauto.
      + apply comp_annotation_typed. apply Hmem. eapply attempt_ok; eauto.
      + destruct es as [|e0 es]; [simpl in Hb; discriminate|].
        simpl in Hb. apply attempt_all_first in Hb.
        cbn [local_pre] in Hl. destruct Hl as [E|E]; rewrite E; [reflexivity|].
        apply (HS e0 (or_introl eq_refl) v r Hb).
    - cbn [build with_default] in Hb. destruct v as [| | | | | |kvs]; try discriminate.
      match type of Hb with match ?s with _ => _ end = _ => destruct s; try discriminate end.
      destruct (build_members O (build O) k kvs) as [s rs]. destruct s; try discriminate. injection Hb as <-.
      simpl. apply str_eqb_refl.
  Qed.
End Sound.

(* ---- properties of model classes ---- *)
From Statham.Proofs Require Import DefaultsProof.

Lemma has_type_maybe r t : has_type r t = true -> has_type r (TMaybe t) = true.
Proof. intros H. cbn [has_type]. destruct r; auto. Qed.

Lemma rv_of_json_present j : rv_of_json j <> RNotPassed.
Proof. destruct j; discriminate. Qed.

(* a call WITH a value never returns the not-passed marker *)
Theorem built_is_present O : forall e v r, build O e (Some v) = Ok r -> r <> RNotPassed.
Proof.
  induction e using elem_ind'. intros v r Hb.
  destruct e as [c k| |x d|m es d|n bs k].
  - cbn [build with_default] in Hb.
    destruct (negb (type_ok c v)); [discriminate|].
    destruct (vand _ _); try discriminate.
    destruct c; destruct v; try discriminate;
      repeat match type of Hb with
             | match py_float_of_int ?z with _ => _ end = _ => destruct (py_float_of_int z)
             | (let '(_, _) := ?x in _) = _ => destruct x as [[| |?] ?]
             | match ?x with (_, _) => _ end = _ => destruct x as [[| |?] ?]
             end; try discriminate;
      inversion Hb; subst; clear Hb; try apply rv_of_json_present; discriminate.
  - simpl in Hb. discriminate.
  - cbn [build with_default] in Hb. destruct (build O x (Some v)); try discriminate. injection Hb as <-. apply rv_of_json_present.
  - cbn [build with_default] in Hb. apply attempt_ok in Hb.
    simpl in H. clear - H Hb. induction es as [|e0 es IH]; simpl in *; [destruct Hb|].
    inversion H; subst. destruct Hb as [Hb|Hb]; [eapply H2; eauto|eauto].
  - cbn [build with_default] in Hb. destruct v; try discriminate.
    destruct (vand _ _); try discriminate.
    destruct (build_members _ _ _ _) as [[| |?] ?]; try discriminate. injection Hb as <-. discriminate.
Qed.

(* the attribute of a model holds a value of the property's annotation:
   supplied -> built from the member; omitted -> the no-value law, where an omitted property
   without default is not required (else the object is rejected) and a default is valid *)
Theorem property_sound O (p : prop elem) mv r :
  pre (p_elem p) -> build O (p_elem p) mv = Ok r ->
  (mv = None -> match elem_default (p_elem p) with
                | None => p_required p = false
                | Some d => exists r', build O (p_elem p) (Some d) = Ok r'
                end) ->
  has_type r (prop_annotation p) = true.
Proof.
  intros Hp Hb Hnone. unfold prop_annotation.
  destruct mv as [v|].
  - pose proof (build_sound O _ Hp v r Hb) as Hs. destruct (_ || _); [exact Hs|now apply has_type_maybe].
  - specialize (Hnone eq_refl). rewrite default_law in Hb.
    destruct (elem_default (p_elem p)) as [d|].
    + rewrite orb_true_r. destruct Hnone as (r' & Hr'). rewrite Hr' in Hb. injection Hb as <-.
      apply (build_sound O _ Hp d r' Hr').
    + injection Hb as <-. rewrite Hnone. reflexivity.
Qed.

(* an attribute annotated as always present (no Maybe) is present *)
Theorem bare_is_present O (p : prop elem) mv r :
  build O (p_elem p) mv = Ok r ->
  (mv = None -> exists d r', elem_default (p_elem p) = Some d /\ build O (p_elem p) (Some d) = Ok r') ->
  r <> RNotPassed.
Proof.
  intros Hb Hnone. destruct mv as [v|]; [eapply built_is_present; eauto|].
  destruct (Hnone eq_refl) as (d & r' & Hd & Hr'). rewrite default_law, Hd, Hr' in Hb. injection Hb as <-.
  eapply built_is_present; eauto.
Qed.
