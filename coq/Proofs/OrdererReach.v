(* OrdererReach.v — get_children(n) yields exactly the nodes reachable from n in one or more
   child steps, for every identity graph (sharing, cycles) on which the walk returns. *)
From Coq Require Import Lia.
From Statham.Model Require Import Str Orderer.
From Statham.Proofs Require Import OrdererWalk.

Section Reach.
  Variable paths : list str.
  Variable G : graph.

  Inductive reach (n : nat) : nat -> Prop :=
  | reach_kid c : In c (kids paths G n) -> reach n c
  | reach_step m c : reach n m -> In c (kids paths G m) -> reach n c.

  Lemma reach_under n c x : In c (kids paths G n) -> reach c x -> reach n x.
  Proof.
    intros Hc H; induction H as [x Hx|m x _ IH Hx].
    - eapply reach_step; [apply reach_kid; exact Hc|exact Hx].
    - eapply reach_step; [exact IH|exact Hx].
  Qed.

  Lemma reach_trans n m x : reach n m -> reach m x -> reach n x.
  Proof.
    intros H1 H2; induction H2 as [x Hx|k x _ IH Hx].
    - eapply reach_step; eauto.
    - eapply reach_step; eauto.
  Qed.

  (* ---- soundness: everything yielded is n itself (only when n was seen) or reachable ---- *)
  Lemma dfs_sound : forall fuel n seen ys sn,
    dfs paths G fuel n seen = Some (ys, sn) ->
    forall x, In x ys -> (memn n seen = true /\ x = n) \/ reach n x.
  Proof.
    induction fuel as [|f IH]; intros n seen ys sn; [discriminate|].
    cbn [dfs]. destruct (memn n seen) eqn:Em.
    { intros H; injection H as <- <-. intros x [<-|[]]; auto. }
    match goal with |- ?F _ _ _ = _ -> _ =>
      assert (forall cs ys0 sn0 ysf snf, F cs ys0 sn0 = Some (ysf, snf) ->
                (forall c, In c cs -> In c (kids paths G n)) ->
                (forall x, In x ys0 -> reach n x) -> forall x, In x ysf -> reach n x) as Hloop end.
    { induction cs as [|c r IHc]; intros ys0 sn0 ysf snf H Hcs Hys0.
      - injection H as <- <-. exact Hys0.
      - destruct (dfs paths G f c sn0) as [[ys' sn1]|] eqn:E; [|discriminate].
        refine (IHc _ _ _ _ H _ _).
        + intros c' Hc'; apply Hcs; right; exact Hc'.
        + intros x Hx; apply in_app_or in Hx as [Hx|[<-|Hx]]; auto.
          * apply reach_kid, Hcs; left; reflexivity.
          * destruct (IH _ _ _ _ E x Hx) as [[_ ->]|Hr].
            -- apply reach_kid, Hcs; left; reflexivity.
            -- eapply reach_under; [apply Hcs; left; reflexivity|exact Hr]. }
    intros H x Hx; right. eapply Hloop; eauto. intros ? [].
  Qed.

  (* ---- completeness ---- *)
  Definition inv (seen : list nat) (ys sn : list nat) : Prop :=
    incl seen sn /\
    forall m, In m sn -> ~ In m seen -> incl (kids paths G m) sn /\ incl (kids paths G m) ys.

  Lemma dfs_complete : forall fuel n seen ys sn,
    dfs paths G fuel n seen = Some (ys, sn) -> In n sn /\ inv seen ys sn.
  Proof.
    induction fuel as [|f IH]; intros n seen ys sn; [discriminate|].
    cbn [dfs]. destruct (memn n seen) eqn:Em.
    { intros H; injection H as <- <-. apply memn_In in Em. split; [exact Em|].
      split; [apply incl_refl|]. intros m Hm Hn; tauto. }
    (* loop invariant: sn0 grows; nodes new since n::seen are closed in the final state;
       kids already processed are in the final sn and ys *)
    match goal with |- ?F _ _ _ = _ -> _ =>
      assert (forall cs ys0 sn0 ysf snf, F cs ys0 sn0 = Some (ysf, snf) ->
                incl sn0 snf /\ incl ys0 ysf /\ incl cs snf /\ incl cs ysf /\
                forall m, In m snf -> ~ In m sn0 -> incl (kids paths G m) snf /\ incl (kids paths G m) ysf)
        as Hloop end.
    { induction cs as [|c r IHc]; intros ys0 sn0 ysf snf H.
      - injection H as <- <-. split; [apply incl_refl|]. split; [apply incl_refl|].
        split; [intros x []|]. split; [intros x []|]. intros m Hm Hn0; tauto.
      - destruct (dfs paths G f c sn0) as [[ys' sn1]|] eqn:E; [|discriminate].
        destruct (IH _ _ _ _ E) as (Hc1 & Hi1 & Hnew1).
        apply IHc in H as (Hs & Hy & Hcs & Hcy & Hnew).
        assert (incl ys' ysf) as Hy' by (intros x Hx; apply Hy, in_or_app; right; right; exact Hx).
        split; [intros x Hx; apply Hs, Hi1, Hx|].
        split; [intros x Hx; apply Hy, in_or_app; left; exact Hx|].
        split; [intros x [<-|Hx]; [apply Hs, Hc1|apply Hcs, Hx]|].
        split; [intros x [<-|Hx]; [apply Hy, in_or_app; right; left; reflexivity|apply Hcy, Hx]|].
        intros m Hm Hn0.
        destruct (in_dec Nat.eq_dec m sn1) as [Hin|Hnin].
        * destruct (Hnew1 m Hin Hn0) as [Ha Hb].
          split; intros x Hx; [apply Hs, Ha, Hx|apply Hy', Hb, Hx].
        * apply (Hnew m Hm Hnin). }
    intros H. apply Hloop in H as (Hs & _ & Hcs & Hcy & Hnew).
    split; [apply Hs; left; reflexivity|]. split.
    - intros x Hx; apply Hs; right; exact Hx.
    - intros m Hm Hns. destruct (Nat.eq_dec m n) as [->|Hne]; [split; assumption|].
      apply Hnew; auto. intros [E|Hx]; [congruence|tauto].
  Qed.

  Theorem get_children_reach n ys : get_children paths G n = Some ys ->
    forall x, In x ys <-> reach n x.
  Proof.
    unfold get_children. destruct (dfs paths G (S (length G)) n []) as [[ys' sn]|] eqn:E; [|discriminate].
    intros H; injection H as <-. intros x; split.
    - intros Hx. destruct (dfs_sound _ _ _ _ _ E x Hx) as [[Hm _]|Hr]; [discriminate Hm|exact Hr].
    - intros Hr. destruct (dfs_complete _ _ _ _ _ E) as (Hn & _ & Hnew).
      assert (In x sn /\ In x ys') as [_ Hx]; [|exact Hx].
      induction Hr as [c Hc|m c _ [IHs _] Hc].
      + destruct (Hnew n Hn (fun F => F)) as [Ha Hb]; auto.
      + destruct (Hnew m IHs (fun F => F)) as [Ha Hb]; auto.
  Qed.
End Reach.
