(* OrdererDirect.v — what an order returned by orderer() means for the DIRECT references of a
   class (what a Python module needs: a class body mentions its direct children only), with no
   closure premise: every class that a class of the map reaches in one get_children step is in
   that class's dependency list, hence declared before it. *)
From Coq Require Import Lia Permutation.
From Statham.Model Require Import Str Orderer.
From Statham.Proofs Require Import StrFacts OrdererLoop OrdererSound.

Section Direct.
  Variable paths : list str.
  Variable G : graph.

  (* every direct child is yielded by get_children (the walk starts with an empty `seen`) *)
  Lemma get_children_kids n ys : get_children paths G n = Some ys -> incl (kids paths G n) ys.
  Proof.
    unfold get_children. cbn [dfs]. change (memn n []) with false. cbv iota.
    match goal with |- match ?F _ _ _ with _ => _ end = _ -> _ =>
      assert (forall cs ys0 sn0 ysf snf, F cs ys0 sn0 = Some (ysf, snf) ->
                incl ys0 ysf /\ incl cs ysf) as Hloop end.
    { induction cs as [|c r IH]; intros ys0 sn0 ysf snf H.
      - injection H as <- <-. split; [apply incl_refl|intros x []].
      - destruct (dfs paths G (length G) c sn0) as [[ys' sn1]|]; [|discriminate].
        apply IH in H as [H1 H2]. split.
        + intros x Hx; apply H1, in_or_app; left; exact Hx.
        + intros x [<-|Hx]; [apply H1, in_or_app; right; left; reflexivity|apply H2, Hx]. }
    match goal with |- match ?T with _ => _ end = _ -> _ => destruct T as [[ysf snf]|] eqn:E end; [|discriminate].
    intros H; injection H as <-. apply Hloop in E as [_ E]. exact E.
  Qed.

  Definition deps_of (c : nat) (ys : list nat) : list str :=
    map (class_name G) (filter (is_class G) ys).

  Lemma dep_pairs_inv ocs ps k ds : dep_pairs paths G ocs = Some ps -> In (k, ds) ps ->
    exists c ys, In c ocs /\ k = class_name G c /\ get_children paths G c = Some ys /\ ds = deps_of c ys.
  Proof.
    revert ps; induction ocs as [|c r IH]; simpl; intros ps H Hin.
    { injection H as <-. destruct Hin. }
    destruct (get_children paths G c) as [ys|] eqn:Eg; [|discriminate].
    destruct (dep_pairs paths G r) as [ps'|]; [|discriminate].
    injection H as <-. destruct Hin as [Hin|Hin].
    - injection Hin as <- <-. exists c, ys; auto.
    - destruct (IH ps' eq_refl Hin) as (c' & ys' & H1 & H2 & H3 & H4). exists c', ys'; auto.
  Qed.

  Lemma dep_pairs_keys ocs ps : dep_pairs paths G ocs = Some ps -> keys ps = map (class_name G) ocs.
  Proof.
    revert ps; induction ocs as [|c r IH]; simpl; intros ps H.
    { injection H as <-. reflexivity. }
    destruct (get_children paths G c) as [ys|]; [|discriminate].
    destruct (dep_pairs paths G r) as [ps'|]; [|discriminate].
    injection H as <-. simpl; f_equal; auto.
  Qed.
End Direct.

Lemma In_dict_set' {A} (x : str * A) kk v l : In x (dict_set kk v l) -> x = (kk, v) \/ In x l.
Proof.
  induction l as [|[k' v'] r IH]; simpl; [intuition|].
  destruct (str_eqb_spec kk k') as [->|Hn]; simpl; intros [H|H]; auto.
  destruct (IH H); auto.
Qed.
Lemma In_dict_merge'' {A} (x : str * A) b : forall a, In x (dict_merge a b) -> In x a \/ In x b.
Proof.
  unfold dict_merge; induction b as [|[k v] r IH]; simpl; intros a H; auto.
  apply IH in H as [H|H]; auto. apply In_dict_set' in H as [->|H]; auto.
Qed.

(* every order orderer() returns puts each directly referenced class before its referrer *)
Theorem orderer_direct paths G roots l :
  orderer paths G roots = OOk l ->
  exists ocs ps, get_object_classes paths G roots = Some ocs /\ dep_pairs paths G ocs = Some ps /\
    Permutation l (keys (dict_of_pairs ps)) /\
    forall k ds, In (k, ds) (dict_of_pairs ps) ->
      exists c, In c ocs /\ class_name G c = k /\
        forall x, In x (kids paths G c) -> is_class G x = true -> before (class_name G x) k l.
Proof.
  intros H. destruct (orderer_sound _ _ _ _ H) as (ocs & ps & Eo & Ep & Hp & Hb).
  exists ocs, ps. repeat (split; [assumption|]).
  intros k ds Hin. pose proof Hin as Hin0.
  apply In_dict_merge'' in Hin as [[]|Hin].
  destruct (dep_pairs_inv _ _ _ _ _ _ Ep Hin) as (c & ys & Hc & -> & Eg & ->).
  exists c; repeat split; auto. intros x Hx Hcl.
  apply (Hb _ _ _ Hin0). unfold deps_of. apply in_map, filter_In; split; auto.
  eapply get_children_kids; eauto.
Qed.
