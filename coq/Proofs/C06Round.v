(* C06Round.v — the syntactic round trip on the class-free normal form (see C06RoundBase.v). *)
From Coq Require String. Import String.StringSyntax.
From Coq Require Import List Bool Lia.
From Statham.Model Require Import Str Json Elem Sub PyNum Validate Equality Names Tables Parser SerJson Plain SerFrag NfFrag.
From Statham.Proofs Require Import StrFacts ElemInd ParserFacts MetaProof C01Scalar C03Lookup C06RoundBase.
From Statham.Proofs Require C01Plain C03Meaning.
Import ListNotations.
Local Open Scope string_scope.
Local Open Scope list_scope.
Arguments s_ : simpl never.

Section RT.
  Variable cfg : pcfg.
  Hypothesis Hcfg : cfg_okb cfg = true.
  Notation P := (parse_element cfg).

  Definition Pid (x : elem) : Prop := forall st, P (ser x) st = POk (x, st).
  Definition good (x : elem) : Prop := noobj x /\ Pid x.

  Lemma list_id l : Forall good l -> forall st, parse_list P (s_elems sub l) st = POk (l, st).
  Proof.
    induction 1 as [|x r [Hn Hp] _ IH]; intros st; cbn [s_elems parse_list]; [reflexivity|].
    rewrite (sub_ser x Hn). rewrite (bind_ok _ _ _ _ _ (Hp st)). rewrite (bind_ok _ _ _ _ _ (IH st)). reflexivity.
  Qed.

  Lemma pats_assoc_id l : Forall good (map snd l) -> forall st, parse_assoc P (s_pats sub l) st = POk (l, st).
  Proof.
    induction l as [|[n e] r IH]; intros H st; cbn [s_pats parse_assoc]; [reflexivity|].
    cbn [map snd] in H. inversion H as [|? ? [Hn Hp] Hr]; subst.
    rewrite (sub_ser e Hn). destruct (ser_schema e Hn) as (-> & _).
    rewrite (bind_ok _ _ _ _ _ (Hp st)). rewrite (bind_ok _ _ _ _ _ (IH Hr st)). reflexivity.
  Qed.

  Lemma props_assoc_id l : Forall good (map (fun np : str * prop elem => p_elem (snd np)) l) ->
    Forall (fun np : str * prop elem => p_source (snd np) <> []) l ->
    forall st, parse_assoc P (s_props true sub l) st =
               POk (map (fun np : str * prop elem => (p_source (snd np), p_elem (snd np))) l, st).
  Proof.
    induction l as [|[n p] r IH]; intros H Hs st; cbn [s_props parse_assoc map]; [reflexivity|].
    cbn [map snd] in H. inversion H as [|? ? [Hn Hp] Hr]; subst. inversion Hs as [|? ? Hs1 Hs2]; subst.
    cbn [snd] in *. destruct (p_source p) as [|ch s0] eqn:Es; [congruence|].
    rewrite (sub_ser _ Hn). destruct (ser_schema _ Hn) as (-> & _).
    rewrite (bind_ok _ _ _ _ _ (Hp st)). rewrite (bind_ok _ _ _ _ _ (IH Hr Hs2 st)). reflexivity.
  Qed.

  (* dependencies: names first, then schemas *)
  Definition dnames (l : list (str * dep_t elem)) : list (str * dep_t elem) :=
    flat_map (fun kd => match snd kd with DepNames ns => [(fst kd, @DepNames elem ns)] | _ => [] end) l.
  Definition delems (l : list (str * dep_t elem)) : list (str * elem) :=
    flat_map (fun kd => match snd kd with DepElem e => [(fst kd, e)] | _ => [] end) l.

  Lemma deps_assoc_id l : Forall good (sub_deps (Some l)) ->
    forall st, parse_assoc P (s_deps sub l) st = POk (delems l, st).
  Proof.
    induction l as [|[n [ns|e]] r IH]; intros H st; cbn [s_deps parse_assoc delems flat_map snd fst app]; [reflexivity| |].
    - cbn [is_schema]. apply IH. exact H.
    - cbn [sub_deps flat_map snd dep_elems app] in H. inversion H as [|? ? [Hn Hp] Hr]; subst.
      rewrite (sub_ser e Hn). destruct (ser_schema e Hn) as (-> & _).
      rewrite (bind_ok _ _ _ _ _ (Hp st)). rewrite (bind_ok _ _ _ _ _ (IH Hr st)). reflexivity.
  Qed.

  Lemma jstr_list_map l : jstr_list (JArr (map JStr l)) = l.
  Proof. unfold jstr_list. induction l; simpl; congruence. Qed.

  Lemma deps_names_id l : Forall good (sub_deps (Some l)) ->
    flat_map (fun kv : str * json => match snd kv with
                                     | JArr _ => [(fst kv, @DepNames elem (jstr_list (snd kv)))]
                                     | _ => [] end) (s_deps sub l) = dnames l.
  Proof.
    induction l as [|[n [ns|e]] r IH]; intros H; cbn [s_deps dnames flat_map snd fst app]; [reflexivity| |].
    - rewrite jstr_list_map. f_equal. apply IH. exact H.
    - cbn [sub_deps flat_map snd dep_elems app] in H. inversion H as [|? ? [Hn Hp] Hr]; subst.
      rewrite (sub_ser e Hn). destruct (ser_schema e Hn) as (_ & Hna & _).
      destruct (ser e) eqn:Ee; try (apply IH; exact Hr). exfalso. eapply Hna. reflexivity.
  Qed.

  Lemma deps_split l : forall b, deps_sortedb b l = true ->
    (b = true -> dnames l = []) /\
    dnames l ++ map (fun ke : str * elem => (fst ke, DepElem (snd ke))) (delems l) = l.
  Proof.
    induction l as [|[n [ns|e]] r IH]; intros b H; cbn [deps_sortedb dnames delems flat_map snd fst app map] in *.
    - split; reflexivity.
    - apply andb_true_iff in H as [Hb H]. destruct b; [discriminate|]. destruct (IH false H) as [_ E].
      split; [discriminate|]. f_equal. exact E.
    - destruct (IH true H) as [E1 E2]. specialize (E1 eq_refl). fold (dnames r) in *. fold (delems r) in *.
      rewrite E1 in *. cbn [app] in *. split; [reflexivity|]. f_equal. exact E2.
  Qed.

  Lemma deps_rebuild l : NoDup (keys l) -> deps_sortedb false l = true ->
    dict_merge (dict_of_pairs (dnames l)) (map (fun ke : str * elem => (fst ke, DepElem (snd ke))) (delems l)) = l.
  Proof.
    intros Hnd Hs. destruct (deps_split l false Hs) as [_ E].
    assert (Hk : NoDup (keys (dnames l) ++ keys (map (fun ke : str * elem => (fst ke, @DepElem elem (snd ke))) (delems l)))).
    { rewrite <- keys_app, E. exact Hnd. }
    unfold dict_of_pairs. rewrite dict_of_nodup.
    - rewrite dict_merge_nodup; [exact E|exact Hk].
    - eapply NoDup_app_l. exact Hk.
  Qed.

  Lemma parse_items_nonarr j : (forall l, j <> JArr l) ->
    parse_items P j = (do e <- P j;; ret (Some (ItOne e))).
  Proof. intros H. destruct j; try reflexivity. exfalso. eapply H. reflexivity. Qed.
  Lemma parse_addl_nonbool j : (forall b, j <> JBool b) ->
    parse_addl P j = (do e <- P j;; ret (AddElem e)).
  Proof. intros H. destruct j; try reflexivity. exfalso. eapply H. reflexivity. Qed.

  Ltac lits :=
    repeat match goal with
           | |- context [str_eqb (s_ ?a) (s_ ?b)] =>
             let r := eval vm_compute in (str_eqb (s_ a) (s_ b)) in change (str_eqb (s_ a) (s_ b)) with r
           end.

  Lemma map_id_on {A} (f : A -> A) l : Forall (fun x => f x = x) l -> map f l = l.
  Proof. induction 1; simpl; congruence. Qed.

  Lemma Htail_gen c : forall key, In key (keys (json_type c)) -> key = s_ "type" \/ key = s_ "title".
  Proof. intros key H. left. apply keys_json_type in H. destruct H as [<-|[]]. reflexivity. Qed.

  Lemma no_self c k : has_key (s_ "self") (ser_kwds true true sub k ++ json_type c) = false.
  Proof. unfold has_key. rewrite (lk_absent sub k _ (Htail_gen c) "self"); [reflexivity|cbn; tauto]. Qed.

  Lemma finish_id_gen c k st : filter_kw c k = k -> (c = CArray -> k_items k <> None) ->
    finish_plain cfg (ser_kwds true true sub k ++ json_type c) k st = POk (EK c k, st).
  Proof.
    intros Hf Ha. pose proof (no_self c k) as Hs.
    unfold finish_plain. rewrite (lk_type sub k (json_type c)).
    destruct c; cbn [json_type lookup] in *; lits; cbv iota.
    1: (rewrite Hs; reflexivity).
    all: unfold typed_single; lits; cbv iota; rewrite Hs; unfold type_mapping; cbn [lookup]; lits; cbv iota.
    - now rewrite Hf.
    - now rewrite Hf.
    - now rewrite Hf.
    - now rewrite Hf.
    - now rewrite Hf.
    - unfold arr_record. rewrite Hf. destruct (k_items k); [reflexivity|]. exfalso. now apply Ha.
  Qed.

  Section EKcase.
    Variables (c : ecls) (k : kwds elem).
    Hypothesis Hloc : local_nf cfg (EK c k).
    Hypothesis Hch : Forall good (ksub k).
    Let kvs := ser_kwds true true sub k ++ json_type c.
    Let Htail := Htail_gen c.

    Lemma subs_split :
      Forall good (sub_items (k_items k)) /\ Forall good (sub_addl (k_additionalItems k)) /\
      Forall good (sub_opt (k_contains k)) /\ Forall good (sub_props (k_properties k)) /\
      Forall good (sub_pats (k_patternProperties k)) /\ Forall good (sub_addl (k_additionalProperties k)) /\
      Forall good (sub_opt (k_propertyNames k)) /\ Forall good (sub_deps (k_dependencies k)).
    Proof.
      pose proof Hch as H. unfold ksub in H.
      repeat match type of H with Forall _ (_ ++ _) => let Q := fresh "Q" in apply Forall_app in H as [Q H] end.
      repeat split; assumption.
    Qed.

    Definition E_ := match k_required k with Some l => l | None => [] end.

    Lemma merged_id : merged_required true k = k_required k.
    Proof.
      destruct Hloc as (_ & _ & _ & _ & _ & Hne & Hp & _).
      unfold merged_required. fold E_ in Hp |- *.
      destruct (k_properties k) as [l|]; cbn [props_nf] in Hp.
      - destruct Hp as (Hl & _ & Hall). destruct l as [|p0 r]; [congruence|].
        assert (Ef : filter (fun n => negb (mem_str n E_)) (required_of_props (p0 :: r)) = []).
        { unfold required_of_props. remember (p0 :: r) as l. clear Heql Hl. induction Hall as [|[n p] l' (Hs & _ & Hr) _ IH]; [reflexivity|].
          cbn [filter snd fst] in *. destruct (p_required p) eqn:Er; [|exact IH].
          cbn [map filter snd fst]. destruct (p_source p) as [|ch s0] eqn:Es; [congruence|].
          rewrite <- Hr. cbn [negb]. exact IH. }
        rewrite Ef, app_nil_r. unfold E_ in *. destruct (k_required k) as [[|x xs]|]; try reflexivity. congruence.
      - unfold E_. destruct (k_required k) as [[|x xs]|]; try reflexivity. congruence.
    Qed.

    Lemma req_list : match lookup (s_ "required") kvs with Some j => jstr_list j | None => [] end = E_.
    Proof.
      unfold kvs. rewrite (lk_required sub k _ Htail), merged_id. unfold E_.
      destruct (k_required k); cbn [option_map]; [apply jstr_list_map|reflexivity].
    Qed.

    Lemma stage_props st :
      with_key (parse_props P (attr cfg) E_) (s_ "properties") kvs (ret None) st = POk (k_properties k, st).
    Proof.
      rewrite with_key_lookup. unfold kvs. rewrite (lk_properties sub k _ Htail).
      destruct Hloc as (_ & _ & _ & _ & _ & _ & Hp & _). fold E_ in Hp.
      destruct subs_split as (_ & _ & _ & Hg & _).
      destruct (k_properties k) as [l|]; cbn [props_nf] in Hp; [|reflexivity].
      destruct Hp as (Hl & Hnd & Hall). destruct l as [|p0 r]; [congruence|].
      cbn [props_json]. remember (p0 :: r) as l. clear Heql Hl. cbn [parse_props sub_props] in *.
      assert (Hsrc : Forall (fun np : str * prop elem => p_source (snd np) <> []) l).
      { eapply Forall_impl; [|exact Hall]. intros a (Ha & _). exact Ha. }
      rewrite (bind_ok _ _ _ _ _ (props_assoc_id l Hg Hsrc st)). unfold ret. f_equal. f_equal. f_equal.
      rewrite map_map. cbn [fst snd].
      rewrite (map_id_on _ l).
      - unfold dict_of_pairs. now apply dict_of_nodup.
      - eapply Forall_impl; [|exact Hall]. intros [n p] (_ & Hn & Hr). cbn [fst snd] in *.
        rewrite <- Hn, <- Hr. destruct p; reflexivity.
    Qed.

    Lemma stage_items st :
      with_key (parse_items P) (s_ "items") kvs (ret None) st = POk (k_items k, st).
    Proof.
      rewrite with_key_lookup. unfold kvs. rewrite (lk_items sub k _ Htail).
      destruct subs_split as (Hg & _).
      destruct (k_items k) as [[e|l]|]; cbn [items_json sub_items] in *; [| |reflexivity].
      - inversion Hg as [|? ? [Hn Hp] _]; subst. rewrite (sub_ser e Hn).
        destruct (ser_schema e Hn) as (_ & Hna & _). rewrite (parse_items_nonarr _ Hna).
        rewrite (bind_ok _ _ _ _ _ (Hp st)). reflexivity.
      - cbn [parse_items]. rewrite (bind_ok _ _ _ _ _ (list_id l Hg st)). reflexivity.
    Qed.

    Lemma stage_pats st :
      with_key (parse_pats P) (s_ "patternProperties") kvs (ret None) st = POk (k_patternProperties k, st).
    Proof.
      rewrite with_key_lookup. unfold kvs. rewrite (lk_pats sub k _ Htail).
      destruct Hloc as (_ & _ & _ & _ & _ & _ & _ & Hk & _).
      destruct subs_split as (_ & _ & _ & _ & Hg & _).
      destruct (k_patternProperties k) as [l|]; cbn [option_map sub_pats okeys] in *; [|reflexivity].
      cbn [parse_pats]. rewrite (bind_ok _ _ _ _ _ (pats_assoc_id l Hg st)). unfold ret. f_equal. f_equal. f_equal.
      unfold dict_of_pairs. now apply dict_of_nodup.
    Qed.

    Lemma stage_some (key : String.string) (o : option elem) st :
      lookup (s_ key) kvs = option_map sub o -> Forall good (sub_opt o) ->
      with_key (parse_some P) (s_ key) kvs (ret None) st = POk (o, st).
    Proof.
      intros El Hg. rewrite with_key_lookup, El. destruct o as [e|]; cbn [option_map sub_opt] in *; [|reflexivity].
      inversion Hg as [|? ? [Hn Hp] _]; subst. rewrite (sub_ser e Hn). unfold parse_some.
      rewrite (bind_ok _ _ _ _ _ (Hp st)). reflexivity.
    Qed.

    Lemma stage_addl (key : String.string) (a : addl elem) st :
      lookup (s_ key) kvs = addl_json sub a -> addl_plain a -> Forall good (sub_addl a) ->
      with_key (parse_addl P) (s_ key) kvs (ret (AddBool true)) st = POk (a, st).
    Proof.
      intros El Hpl Hg. rewrite with_key_lookup, El. destruct a as [[|]|e]; cbn [addl_json sub_addl] in *; try reflexivity.
      inversion Hg as [|? ? [Hn Hp] _]; subst. rewrite (sub_ser e Hn).
      destruct (ser_schema e Hn) as (_ & _ & Hb).
      rewrite parse_addl_nonbool.
      - rewrite (bind_ok _ _ _ _ _ (Hp st)). reflexivity.
      - intros b Eb. specialize (Hb b Eb). subst e. exact Hpl.
    Qed.

    Lemma stage_deps st :
      with_key (parse_deps P) (s_ "dependencies") kvs (ret None) st = POk (k_dependencies k, st).
    Proof.
      rewrite with_key_lookup. unfold kvs. rewrite (lk_deps sub k _ Htail).
      destruct Hloc as (_ & _ & _ & _ & _ & _ & _ & _ & Hk & Hs & _).
      destruct subs_split as (_ & _ & _ & _ & _ & _ & _ & Hg).
      destruct (k_dependencies k) as [l|]; cbn [option_map okeys] in *; [|reflexivity].
      cbn [parse_deps]. rewrite (bind_ok _ _ _ _ _ (deps_assoc_id l Hg st)). unfold ret. f_equal. f_equal. f_equal.
      rewrite (deps_names_id l Hg). now apply deps_rebuild.
    Qed.

    Lemma K_eq :
      kw_record kvs (k_properties k) (k_items k) (k_patternProperties k) (k_propertyNames k)
                (k_contains k) (k_dependencies k) (k_additionalProperties k) (k_additionalItems k) = k.
    Proof.
      destruct Hloc as (Hd & Hc & He & _).
      apply kwds_ext; unfold kw_record;
      cbn [k_default k_const k_enum k_items k_additionalItems k_minItems k_maxItems k_uniqueItems
           k_contains k_minimum k_maximum k_exclusiveMinimum k_exclusiveMaximum k_multipleOf k_format
           k_pattern k_minLength k_maxLength k_required k_properties k_patternProperties
           k_additionalProperties k_minProperties k_maxProperties k_propertyNames k_dependencies
           k_description]; try reflexivity; unfold kvs.
      - rewrite (lk_default sub k _ Htail). red in Hd. destruct (k_default k); [|reflexivity]. now rewrite clean_strip.
      - rewrite (lk_const sub k _ Htail). red in Hc. destruct (k_const k); [|reflexivity]. now rewrite clean_strip.
      - rewrite (lk_enum sub k _ Htail). destruct (k_enum k) as [l|]; cbn [option_map]; [|reflexivity]. now rewrite clean_strip.
      - apply (lk_minItems sub k _ Htail).
      - apply (lk_maxItems sub k _ Htail).
      - rewrite (lk_unique sub k _ Htail). destruct (k_uniqueItems k); reflexivity.
      - apply (lk_minimum sub k _ Htail).
      - apply (lk_maximum sub k _ Htail).
      - apply (lk_exmin sub k _ Htail).
      - apply (lk_exmax sub k _ Htail).
      - apply (lk_multipleOf sub k _ Htail).
      - rewrite (lk_format sub k _ Htail). destruct (k_format k); reflexivity.
      - rewrite (lk_pattern sub k _ Htail). destruct (k_pattern k); reflexivity.
      - apply (lk_minLength sub k _ Htail).
      - apply (lk_maxLength sub k _ Htail).
      - rewrite (lk_required sub k _ Htail), merged_id. destruct (k_required k); cbn [option_map]; [|reflexivity].
        now rewrite jstr_list_map.
      - apply (lk_minProps sub k _ Htail).
      - apply (lk_maxProps sub k _ Htail).
      - rewrite (lk_description sub k _ Htail). destruct (k_description k); reflexivity.
    Qed.

    Lemma keys_kvs : incl (keys kvs) (kw_keywords ++ [s_ "type"]).
    Proof.
      unfold kvs. rewrite keys_app. intros x Hx. apply in_app_iff in Hx as [Hx|Hx]; apply in_or_app.
      - left. now apply keys_ser_kwds in Hx.
      - right. now apply keys_json_type in Hx.
    Qed.

    Lemma unsup_kvs : existsb (fun kv : str * json => mem_str (fst kv) (c_unsupported cfg)) kvs = false.
    Proof.
      apply existsb_keys_false. intros key Hk. apply keys_kvs in Hk.
      unfold cfg_okb in Hcfg. apply andb_true_iff in Hcfg as [H _]. apply andb_true_iff in H as [H _].
      rewrite forallb_forall in H. specialize (H key). rewrite negb_true_iff in H. apply H.
      unfold ser_keywords. apply in_app_iff in Hk as [Hk|[<-|[]]]; apply in_or_app; [now left|right].
      apply in_map. cbn; tauto.
    Qed.

    Lemma nocomp_kvs : existsb (fun kv : str * json => mem_str (fst kv) composition_keywords) kvs = false.
    Proof.
      apply existsb_keys_false. intros key Hk. apply keys_kvs in Hk.
      assert (G : forallb (fun x => negb (mem_str x composition_keywords)) (kw_keywords ++ [s_ "type"]) = true) by (vm_compute; reflexivity).
      rewrite forallb_forall in G. specialize (G key Hk). now rewrite negb_true_iff in G.
    Qed.

    Lemma ek_id st : P (JObj kvs) st = POk (EK c k, st).
    Proof.
      destruct Hloc as (_ & _ & _ & _ & _ & _ & _ & _ & _ & _ & Hai & Hap).
      destruct subs_split as (_ & Gai & Gc & _ & _ & Gap & Gpn & _).
      cbn [parse_element]. rewrite unsup_kvs. rewrite req_list.
      rewrite (bind_ok _ _ _ _ _ (stage_props st)).
      rewrite (bind_ok _ _ _ _ _ (stage_items st)).
      rewrite (bind_ok _ _ _ _ _ (stage_pats st)).
      rewrite (bind_ok _ _ _ _ _ (stage_some "propertyNames" _ st (lk_pnames sub k _ Htail) Gpn)).
      rewrite (bind_ok _ _ _ _ _ (stage_some "contains" _ st (lk_contains sub k _ Htail) Gc)).
      rewrite (bind_ok _ _ _ _ _ (stage_deps st)).
      rewrite (bind_ok _ _ _ _ _ (stage_addl "additionalProperties" _ st (lk_addp sub k _ Htail) Hap Gap)).
      rewrite (bind_ok _ _ _ _ _ (stage_addl "additionalItems" _ st (lk_addi sub k _ Htail) Hai Gai)).
      rewrite K_eq, nocomp_kvs. cbn [negb].
      destruct Hloc as (_ & _ & _ & Hf & Ha & _). now apply finish_id_gen.
    Qed.
  End EKcase.

  (* ---- composition documents: {"default": d, <key>: payload} ---- *)
  Definition dl (d : option json) : list (str * json) := match d with Some j => [(s_ "default", j)] | None => [] end.

  Lemma bind_ret {A B} (a : A) (f : A -> M B) st : bind (ret a) f st = f a st.
  Proof. reflexivity. Qed.

  Lemma parse_keys_const (subf : str -> M (list elem)) (res : str -> list elem) ks :
    (forall key st, In key ks -> subf key st = POk (res key, st)) ->
    forall st, parse_keys subf ks st = POk (map (fun key => (key, res key)) ks, st).
  Proof.
    induction ks as [|k0 r IH]; intros H st; cbn [parse_keys map]; [reflexivity|].
    rewrite (bind_ok _ _ _ _ _ (H k0 st (or_introl eq_refl))).
    rewrite (bind_ok _ _ _ _ _ (IH (fun key st' Hin => H key st' (or_intror Hin)) st)). reflexivity.
  Qed.

  Lemma lookup_map_keys (res : str -> list elem) key ks :
    lookup key (map (fun k => (k, res k)) ks) = if mem_str key ks then Some (res key) else None.
  Proof.
    unfold mem_str. induction ks as [|k0 r IH]; cbn [map lookup existsb]; [reflexivity|].
    destruct (str_eqb_spec key k0) as [->|Hne]; cbn [orb]; [reflexivity|exact IH].
  Qed.

  Lemma comp_order_in key : In key (map s_ ["allOf"; "anyOf"; "oneOf"]) -> mem_str key (c_comp_order cfg) = true.
  Proof.
    intros H. unfold cfg_okb in Hcfg. apply andb_true_iff in Hcfg as [H1 _]. apply andb_true_iff in H1 as [_ H1].
    rewrite forallb_forall in H1. now apply H1.
  Qed.
  Lemma comp_order_only key : In key (c_comp_order cfg) -> In key (map s_ ["allOf"; "anyOf"; "oneOf"]).
  Proof.
    intros H. unfold cfg_okb in Hcfg. apply andb_true_iff in Hcfg as [_ H1].
    rewrite forallb_forall in H1. apply mem_str_In. now apply H1.
  Qed.

  Lemma unsup_small (kvs : list (str * json)) : incl (keys kvs) ser_keywords ->
    existsb (fun kv : str * json => mem_str (fst kv) (c_unsupported cfg)) kvs = false.
  Proof.
    intros Hi. apply existsb_keys_false. intros key Hk. apply Hi in Hk.
    unfold cfg_okb in Hcfg. apply andb_true_iff in Hcfg as [H _]. apply andb_true_iff in H as [H _].
    rewrite forallb_forall in H. specialize (H key Hk). now rewrite negb_true_iff in H.
  Qed.

  Ltac mems :=
    repeat match goal with
           | |- context [mem_str (s_ ?a) (?h :: ?t)] =>
             let r := eval vm_compute in (mem_str (s_ a) (h :: t)) in change (mem_str (s_ a) (h :: t)) with r
           | |- context [mem_str (s_ ?a) composition_keywords] =>
             let r := eval vm_compute in (mem_str (s_ a) composition_keywords) in change (mem_str (s_ a) composition_keywords) with r
           end.

  Lemma not_id x d : lclean d -> good x -> forall st, P (ser (ENot x d)) st = POk (ENot x d, st).
  Proof.
    intros Hd [Hn Hp] st.
    change (ser (ENot x d)) with (JObj (dl d ++ [(s_ "not", sub x)])).
    rewrite (sub_ser x Hn).
    cbn [parse_element]. rewrite unsup_small.
    2:{ destruct d; cbn [dl app keys map fst]; intros y Hy; cbn [In] in Hy; unfold ser_keywords, kw_keywords;
        repeat destruct Hy as [<-|Hy]; try contradiction; apply in_or_app; [left|right|right]; apply in_map; cbn; tauto. }
    assert (Hkeys : forall key st', In key (c_comp_order cfg) ->
              with_key (parse_comp_list P) key (dl d ++ [(s_ "not", ser x)]) (ret []) st' = POk ((fun _ => []) key, st')).
    { intros key st' Hk. apply comp_order_only in Hk. rewrite with_key_lookup.
      destruct d; cbn [dl app map In] in *; destruct Hk as [<-|[<-|[<-|[]]]]; cbn [lookup]; lits; cbv iota; reflexivity. }
    assert (Hnot : parse_not P (ser x) st = POk ([ENot x None], st)).
    { unfold parse_not. rewrite (bind_ok _ _ _ _ _ (Hp st)). reflexivity. }
    destruct d as [j|]; cbn [dl app] in *.
    - rewrite !with_key_lookup. cbn [lookup]. lits. cbv iota.
      repeat (rewrite bind_ret; cbv beta).
      cbn [existsb fst filter]. mems. cbn [orb negb]. cbv iota.
      unfold finish_plain at 1. cbn [lookup has_key]. rewrite bind_ret. cbv beta.
      rewrite (bind_ok _ _ _ _ _ (parse_keys_const _ _ _ Hkeys st)).
      rewrite (bind_ok _ _ _ _ _ Hnot). cbv beta.
      rewrite !lookup_map_keys.
      repeat match goal with |- context [mem_str ?a (c_comp_order cfg)] => destruct (mem_str a (c_comp_order cfg)) end;
        cbv iota; cbn [compose app filter];
        match goal with |- context [EK CElement ?K] => replace K with (@k0 elem) by reflexivity end;
        fold EElement; change (elem_eq EElement EElement) with true;
        replace (elem_eq EElement (ENot x None)) with false by reflexivity;
        cbn [negb filter compose is_obj]; cbv iota; red in Hd; rewrite (clean_strip j Hd); reflexivity.
    - rewrite !with_key_lookup. cbn [lookup]. lits. cbv iota.
      repeat (rewrite bind_ret; cbv beta).
      cbn [existsb fst filter]. mems. cbn [orb negb]. cbv iota.
      unfold finish_plain at 1. cbn [lookup has_key]. rewrite bind_ret. cbv beta.
      rewrite (bind_ok _ _ _ _ _ (parse_keys_const _ _ _ Hkeys st)).
      rewrite (bind_ok _ _ _ _ _ Hnot). cbv beta.
      rewrite !lookup_map_keys.
      repeat match goal with |- context [mem_str ?a (c_comp_order cfg)] => destruct (mem_str a (c_comp_order cfg)) end;
        cbv iota; cbn [compose app filter];
        match goal with |- context [EK CElement ?K] => replace K with (@k0 elem) by reflexivity end;
        fold EElement; change (elem_eq EElement EElement) with true;
        replace (elem_eq EElement (ENot x None)) with false by reflexivity;
        cbn [negb filter compose is_obj]; cbv iota; reflexivity.
  Qed.

  Lemma compose_big m es : 2 <= length es -> compose m es = EComp m es None.
  Proof. destruct es as [|a [|b r]]; simpl; intros H; try lia; reflexivity. Qed.

  Lemma filter_keep {A} (f : A -> bool) l : Forall (fun x => f x = true) l -> filter f l = l.
  Proof. induction 1 as [|x r Hx _ IH]; simpl; [reflexivity|]. now rewrite Hx, IH. Qed.

  Lemma comp_id m es d : lclean d -> 2 <= length es ->
    (m = MAll -> Forall (fun e' => elem_eq EElement e' = false) es) -> Forall good es ->
    forall st, P (ser (EComp m es d)) st = POk (EComp m es d, st).
  Proof.
    intros Hd Hlen Hall Hg st.
    change (ser (EComp m es d)) with (JObj (dl d ++ [(mode_key m, JArr (s_elems sub es))])).
    cbn [parse_element]. rewrite unsup_small.
    2:{ destruct d, m; unfold mode_key; cbn [dl app keys map fst]; intros y Hy; cbn [In] in Hy; unfold ser_keywords, kw_keywords;
        repeat destruct Hy as [<-|Hy]; try contradiction; apply in_or_app; [left|right|left|right|left|right|right|right|right];
        apply in_map; cbn; tauto. }
    set (res := fun key : str => if str_eqb key (mode_key m) then es else []).
    assert (Hkeys : forall key st', In key (c_comp_order cfg) ->
              with_key (parse_comp_list P) key (dl d ++ [(mode_key m, JArr (s_elems sub es))]) (ret []) st' = POk (res key, st')).
    { intros key st' Hk. apply comp_order_only in Hk. rewrite with_key_lookup. unfold res.
      destruct d, m; unfold mode_key in *; cbn [dl app map In] in *; destruct Hk as [<-|[<-|[<-|[]]]]; cbn [lookup]; lits; cbv iota;
        try reflexivity; cbn [parse_comp_list]; apply list_id; exact Hg. }
    pose proof (compose_big MAny es Hlen) as Cany. pose proof (compose_big MOne es Hlen) as Cone.
    pose proof (compose_big MAll es Hlen) as Call.
    pose proof (comp_order_in (s_ "allOf") ltac:(cbn; tauto)) as M1.
    pose proof (comp_order_in (s_ "anyOf") ltac:(cbn; tauto)) as M2.
    pose proof (comp_order_in (s_ "oneOf") ltac:(cbn; tauto)) as M3.
    assert (Hfl : m = MAll -> filter (fun e : elem => negb (elem_eq EElement e)) es = es).
    { intros Hm. apply filter_keep. eapply Forall_impl; [|exact (Hall Hm)]. intros a Ha. now rewrite Ha. }
    destruct d as [j|], m; unfold mode_key in *; cbn [dl app] in *.
    all: rewrite !with_key_lookup; cbn [lookup]; lits; cbv iota;
      repeat (rewrite bind_ret; cbv beta);
      cbn [existsb fst filter]; mems; cbn [orb negb]; cbv iota;
      unfold finish_plain at 1; cbn [lookup has_key]; rewrite bind_ret; cbv beta;
      rewrite (bind_ok _ _ _ _ _ (parse_keys_const _ _ _ Hkeys st));
      rewrite ?bind_ret; cbv beta;
      rewrite !lookup_map_keys, M1, M2, M3; unfold res; lits; cbv iota;
      match goal with |- context [EK CElement ?K] => replace K with (@k0 elem) by reflexivity end;
      fold EElement; cbn [compose app]; rewrite ?Cany, ?Cone.
    all: change (elem_eq EElement EElement) with true; cbn [negb]; cbv iota;
      rewrite ?filter_app; cbn [filter];
      change (elem_eq EElement EElement) with true;
      try replace (elem_eq EElement (EComp MAny es None)) with false by reflexivity;
      try replace (elem_eq EElement (EComp MOne es None)) with false by reflexivity;
      cbn [negb app compose is_obj]; cbv iota;
      try (rewrite (Hfl eq_refl), app_nil_r, Call; cbn [is_obj]; cbv iota);
      try (red in Hd; rewrite (clean_strip j Hd)); reflexivity.
  Qed.
End RT.

(* ---- the theorem ---- *)
Theorem ser_parse_id cfg : cfg_okb cfg = true -> forall e, nf cfg e ->
  forall st, parse_element cfg (ser e) st = POk (e, st).
Proof.
  intros Hcfg. apply (elem_ind' (fun e => nf cfg e -> Pid cfg e)).
  intros e IH Hnf. inversion Hnf as [? Hloc Hch]; subst.
  assert (Hg : Forall (good cfg) (children e)).
  { apply Forall_forall. intros x Hx. rewrite Forall_forall in IH, Hch. split.
    - exact (nf_noobj cfg x (Hch x Hx)).
    - exact (IH x Hx (Hch x Hx)). }
  destruct e as [c k| |x d|m es d|n b k]; cbn [children] in *.
  - intros st. rewrite ser_EK. exact (ek_id cfg Hcfg c k Hloc Hg st).
  - intros st. reflexivity.
  - inversion Hg as [|? ? Hx _]; subst. exact (not_id cfg Hcfg x d Hloc Hx).
  - destruct Hloc as (Hd & Hlen & Hall). exact (comp_id cfg Hcfg m es d Hd Hlen Hall Hg).
  - contradiction.
Qed.

(* serialize . parse . serialize = serialize on the normal form, whatever the parse state *)
Corollary round_trip_document cfg e st e' st' : cfg_okb cfg = true -> nf cfg e ->
  parse_element cfg (ser e) st = POk (e', st') -> e' = e /\ st' = st /\ ser e' = ser e.
Proof.
  intros Hcfg Hnf H. rewrite (ser_parse_id cfg Hcfg e Hnf st) in H. inversion H; subst. auto.
Qed.

(* ---- the executable checker is sound ---- *)
Lemma filter_kw_id c k : sig_okb c k = true -> (ecls_is c CElement || is_none (k_required k)) = true ->
  filter_kw c k = k.
Proof.
  intros Hs Hr. pose proof (C03Meaning.sig_okb_sound c k Hs) as Hsb. unfold C03Meaning.same_but in Hsb.
  decompose [and] Hsb. clear Hsb.
  apply kwds_ext; try assumption.
  - unfold filter_kw. cbn [k_default]. destruct c; vm_compute; reflexivity.
  - unfold filter_kw. cbn [k_required].
    destruct c; cbn [ecls_is orb] in Hr;
      try (destruct (k_required k); [discriminate Hr|]; match goal with |- (if ?b then _ else _) = _ => destruct b; reflexivity end).
    vm_compute. reflexivity.
  - unfold filter_kw. cbn [k_description]. destruct c; vm_compute; reflexivity.
Qed.

Lemma cleano_sound o : cleano o = true -> lclean o.
Proof. destruct o; simpl; auto. Qed.

Lemma local_nfb_sound cfg e : local_nfb cfg e = true -> local_nf cfg e.
Proof.
  destruct e as [c k| |x d|m es d|n b k]; cbn [local_nfb local_nf]; try (intros; exact I); try discriminate.
  - intros H.
    repeat match type of H with _ && _ = true => let H2 := fresh "Hl" in apply andb_true_iff in H as [H H2] end.
    split; [now apply cleano_sound|]. split; [now apply cleano_sound|].
    split; [destruct (k_enum k); auto|].
    split; [now apply filter_kw_id|].
    split; [intros ->; cbn in Hl6; destruct (k_items k); [discriminate|discriminate]|].
    split; [destruct (k_required k) as [[|]|]; congruence|].
    split.
    { unfold props_nfb in Hl4. unfold props_nf. destruct (k_properties k) as [l|]; auto.
      apply andb_true_iff in Hl4 as [H1 H3]. apply andb_true_iff in H1 as [H1 H2].
      split; [destruct l; [discriminate|discriminate]|]. split; [now apply C01Plain.nodupb_sound|].
      apply Forall_forall. intros np Hin. rewrite forallb_forall in H3. specialize (H3 _ Hin).
      apply andb_true_iff in H3 as [H4 H6]. apply andb_true_iff in H4 as [H4 H5].
      split; [destruct (p_source (snd np)); [discriminate|discriminate]|].
      split; [now apply str_eqb_eq|now apply Bool.eqb_prop]. }
    split; [unfold okeysb in Hl3; unfold okeys; destruct (k_patternProperties k); auto; now apply C01Plain.nodupb_sound|].
    split; [unfold okeysb in Hl2; unfold okeys; destruct (k_dependencies k); auto; now apply C01Plain.nodupb_sound|].
    split; [destruct (k_dependencies k); auto|].
    split; [destruct (k_additionalItems k) as [|[]]; simpl in *; auto; discriminate|
            destruct (k_additionalProperties k) as [|[]]; simpl in *; auto; discriminate].
  - intros H. now apply cleano_sound.
  - intros H. apply andb_true_iff in H as [H H3]. apply andb_true_iff in H as [H1 H2].
    split; [now apply cleano_sound|]. split; [now apply Nat.leb_le|].
    intros ->. apply Forall_forall. intros x Hx. rewrite forallb_forall in H3. specialize (H3 x Hx).
    now apply negb_true_iff.
Qed.

Theorem nfb_sound cfg : forall fuel e, nfb cfg fuel e = true -> nf cfg e.
Proof.
  induction fuel as [|n IH]; intros e H; [discriminate|]. cbn [nfb] in H.
  apply andb_true_iff in H as [H1 H2]. constructor; [now apply local_nfb_sound|].
  apply Forall_forall. intros x Hx. apply IH. rewrite forallb_forall in H2. auto.
Qed.
