(* C01Default.v — whether the element parsed from a schema without composition keywords has a
   default: exactly when the schema has a "default" key (used for the required-with-default
   waiver of object classes). *)
From Coq Require String. Import String.StringSyntax.
From Statham.Model Require Import Str Json Elem PyNum Validate Equality Names Tables Parser Spec6.
From Statham.Proofs Require Import StrFacts ParserFacts ParserDefaultProof C01Plain.
Local Open Scope string_scope.
Arguments s_ : simpl never.

Section D.
  Variable cfg : pcfg.

  Lemma dedupe_nodefault cls st e st' : elem_default cls = None -> (exists n b k, cls = EObj n b k) ->
    dedupe cls st = POk (e, st') -> elem_default e = None.
  Proof.
    intros Hd (n & b & k & ->) H. unfold dedupe in H. cbn [obj_name] in H.
    match type of H with match find ?f ?l with _ => _ end = _ => destruct (find f l) as [x0|] eqn:E end.
    - injection H as <- <-. apply find_some in E as [_ Heq].
      destruct x0 as [| | | |n0 b0 k0]; simpl in Heq; try discriminate.
      unfold kwds_eq in Heq. repeat (apply andb_prop in Heq as [Heq ?]).
      simpl in Hd. rewrite Hd in Heq. simpl. destruct (k_default k0); [discriminate|reflexivity].
    - match type of H with POk (match ?c with O => _ | S _ => _ end, _) = _ => destruct c end; injection H as <- <-;
        exact Hd.
  Qed.

  Lemma typed_single_nodefault t S0 K st e st' : k_default K = None ->
    typed_single cfg t S0 K st = POk (e, st') -> elem_default e = None.
  Proof.
    intros HK H. unfold typed_single in H.
    destruct (str_eqb t (s_ "object")).
    - unfold parse_object in H.
      destruct (obj_title S0) as [[| | | |ts| |]|];
        try (exfalso; revert H; unfold fail; try destruct (py_truthy _); discriminate).
      destruct ts as [|c0 ts']; [exfalso; revert H; unfold fail; discriminate|].
      eapply dedupe_nodefault; [| |exact H]; [|eauto].
      unfold obj_record. cbn [elem_default k_default]. rewrite HK. destruct (has_key _ _); reflexivity.
    - destruct (has_key (s_ "self") S0); [exfalso; revert H; unfold fail; discriminate|].
      destruct (str_eqb t (s_ "array")).
      + apply ret_inv in H as [<- _]. cbn [elem_default]. unfold arr_record.
        destruct (k_items (filter_kw CArray K)); cbn [k_default]; now rewrite filter_kw_default.
      + destruct (lookup t type_mapping) as [c|]; [|exfalso; revert H; unfold fail; discriminate].
        apply ret_inv in H as [<- _]. cbn [elem_default]. now rewrite filter_kw_default.
  Qed.

  Lemma finish_plain_nodefault S0 K st e st' : k_default K = None ->
    finish_plain cfg S0 K st = POk (e, st') -> elem_default e = None.
  Proof.
    intros HK H. unfold finish_plain in H.
    destruct (lookup (s_ "type") S0) as [[| | | |t|ts|]|]; try (exfalso; revert H; unfold fail; discriminate).
    - eapply typed_single_nodefault; eauto.
    - destruct ts as [|[| | | |t| |] [|t2 ts']]; try (eapply typed_single_nodefault; eauto; fail);
        (binv H; destruct a; [exfalso; revert H; unfold fail; discriminate|];
         apply ret_inv in H as [<- _]; exact HK).
    - destruct (has_key (s_ "self") S0); [exfalso; revert H; unfold fail; discriminate|].
      apply ret_inv in H as [<- _]. exact HK.
  Qed.

  Theorem parse_default_status S0 st e st' : nocomp S0 ->
    parse_element cfg S0 st = POk (e, st') ->
    (elem_default e = None <-> schema_has_default S0 = false).
  Proof.
    intros Hn H. destruct S0 as [|b| | | | |kvs]; try (exfalso; cbn [parse_element] in H; eapply fail_inv; exact H).
    - destruct b; cbn [parse_element] in H; apply ret_inv in H as [<- _]; split; reflexivity.
    - cbn [nocomp] in Hn. cbn [parse_element] in H.
      destruct (existsb (fun kv => mem_str (fst kv) (c_unsupported cfg)) kvs); [exfalso; eapply fail_inv; eauto|].
      do 8 (binv H; clear Hb). rewrite Hn in H. cbn [negb] in H.
      cbn [schema_has_default]. unfold has_key.
      destruct (lookup (s_ "default") kvs) as [d|] eqn:Ed.
      + assert (HS : has_key (s_ "default") kvs = true) by (unfold has_key; now rewrite Ed).
        assert (Hc : carried (strip_autotitle d) e).
        { eapply finish_plain_carried; [| |exact H]; [unfold kw_record; cbn [k_default]; rewrite Ed; reflexivity|exact HS]. }
        destruct Hc as (d' & Hd' & _). rewrite Hd'. split; discriminate.
      + split; [reflexivity|]. intros _.
        refine (finish_plain_nodefault _ _ _ _ _ _ H).
        unfold kw_record; cbn [k_default]. now rewrite Ed.
  Qed.
End D.
