(* StoreProof.v — re-binding a well-bound property to its own key and owner is the identity;
   hence any sequence (any interleaving) of the binds that validation calls perform leaves
   the shared store unchanged, and every prefix does. *)
From Statham.Model Require Import Str Store.

Lemma bind_wb key owner c : wb_cell key owner c -> bind c (Some key) (Some owner) = c.
Proof.
  destruct c as [n s p]. unfold wb_cell, bind; simpl. intros [Hp Hk]. subst p.
  destruct key as [|k0 kr]; simpl; [reflexivity|].
  destruct Hk as [-> Hs]. rewrite Hs. reflexivity.
Qed.

Lemma set_nth_same s : forall i c, nth_error s i = Some c -> set_nth s i c = s.
Proof.
  induction s as [|x r IH]; intros [|j] c H; simpl in *; try discriminate.
  - now injection H as ->.
  - f_equal. auto.
Qed.

Lemma step_id h s o : WB h s -> call_bind h o -> step s o = s.
Proof.
  destruct o as [i name parent]. simpl. intros Hwb [-> ->].
  destruct (nth_error s i) as [c|] eqn:E; [|reflexivity].
  rewrite (bind_wb _ _ c (Hwb i c E)). now apply set_nth_same.
Qed.

Theorem run_id h ops : forall s, WB h s -> Forall (call_bind h) ops -> run s ops = s.
Proof.
  induction ops as [|o ops IH]; intros s Hwb Hf; [reflexivity|].
  inversion Hf; subst. unfold run in *. simpl. rewrite (step_id h s o); auto.
Qed.

(* every intermediate store equals the initial one: a thread reading the shared store at any
   point of any interleaving sees exactly what it would see running alone *)
Theorem run_prefix_id h ops : forall s, WB h s -> Forall (call_bind h) ops ->
  forall k, run s (firstn k ops) = s.
Proof.
  intros s Hwb Hf k. apply (run_id h); auto.
  rewrite Forall_forall in *. intros o Ho. apply Hf.
  rewrite <- (firstn_skipn k ops). apply in_or_app. now left.
Qed.

(* sequential composition, used for "repeat n times" and for merging threads *)
Lemma run_app s a b : run s (a ++ b) = run (run s a) b.
Proof. unfold run. apply fold_left_app. Qed.

(* any merge of two threads' binds is again a list of call binds *)
Inductive merge {A} : list A -> list A -> list A -> Prop :=
| merge_nil : merge [] [] []
| merge_l x a b c : merge a b c -> merge (x :: a) b (x :: c)
| merge_r x a b c : merge a b c -> merge a (x :: b) (x :: c).

Lemma merge_forall {A} (P : A -> Prop) a b c : merge a b c -> Forall P a -> Forall P b -> Forall P c.
Proof.
  induction 1; intros Ha Hb; auto.
  - inversion Ha; subst. constructor; auto.
  - inversion Hb; subst. constructor; auto.
Qed.

Theorem interleaving_id h s t1 t2 sched : WB h s -> Forall (call_bind h) t1 -> Forall (call_bind h) t2 ->
  merge t1 t2 sched -> run s sched = s /\ (forall k, run s (firstn k sched) = s).
Proof.
  intros Hwb H1 H2 Hm. pose proof (merge_forall _ _ _ _ Hm H1 H2) as Hs.
  split; [apply (run_id h)|apply (run_prefix_id h)]; auto.
Qed.
