(* C06Meaning.v — the normal form keeps the meaning: for a schema of the class-free fragment,
   the element the parser returns lies in the fragment of C03's meaning theorem, so the document
   serialized from it is accepted by exactly the values the source schema accepts (whenever the
   element's own call does not crash).  Proof: the parser's image satisfies `dsl` (C03Meaning),
   then C01_validity_plain and C03_meaning meet at the element. *)
From Coq Require String. Import String.StringSyntax.
From Coq Require Import Lia.
From Statham.Model Require Import Str Json Elem Equality Names PyNum Validate Tables Parser Spec6 Plain SerJson Sub SerFrag.
From Statham.Proofs Require Import StrFacts JsonEqProof MetaProof DefaultsProof ParserFacts ElemInd
     C03Lookup C01Vm C01Scalar C01Items C01Object C01Deep C01Plain C01Element C01Parse C03Meaning.
Local Open Scope string_scope.
Arguments s_ : simpl never.

(* property names are not empty (an empty JSON name is not kept by _Property: finding C12-K4) *)
Inductive named : json -> Prop :=
| named_bool b : named (JBool b)
| named_obj kvs :
    (match lookup (s_ "properties") kvs with
     | Some (JObj p) => Forall (fun kv : str * json => fst kv <> []) p
     | _ => True end) ->
    Forall named (subschemas kvs) -> named (JObj kvs).

(* ---- dictionaries built by the parser have unique keys ---- *)
Lemma keys_dict_set_incl {A} k (v : A) l : forall x, In x (keys (dict_set k v l)) -> x = k \/ In x (keys l).
Proof.
  induction l as [|[k' v'] r IH]; simpl; intros x H; [intuition|].
  destruct (str_eqb_spec k k') as [->|Hn]; simpl in *; [intuition|].
  destruct H as [<-|H]; [intuition|]. destruct (IH _ H); intuition.
Qed.
Lemma nodup_dict_set {A} k (v : A) l : NoDup (keys l) -> NoDup (keys (dict_set k v l)).
Proof.
  induction l as [|[k' v'] r IH]; simpl; intros H; [constructor; [intros []|constructor]|].
  inversion H as [|? ? Hn Hr]; subst.
  destruct (str_eqb_spec k k') as [->|Hne]; simpl; [constructor; auto|].
  constructor; [|auto]. intros Hin. destruct (keys_dict_set_incl _ _ _ _ Hin); [congruence|tauto].
Qed.
Lemma nodup_dict_merge {A} (b a : list (str * A)) : NoDup (keys a) -> NoDup (keys (dict_merge a b)).
Proof.
  unfold dict_merge. revert a. induction b as [|[k v] r IH]; simpl; intros a H; [exact H|].
  apply IH. now apply nodup_dict_set.
Qed.

Lemma Forall_and {A} (P Q : A -> Prop) l : Forall P l -> Forall Q l -> Forall (fun x => P x /\ Q x) l.
Proof. induction 1; intros H2; inversion H2; subst; constructor; auto. Qed.

(* ---- dsl is insensitive to what the parser does around an element ---- *)
Lemma dsl_element : dsl EElement.
Proof.
  constructor; [|constructor]. unfold EElement. cbn [local_dsl k0 k_const k_enum k_required k_properties k_patternProperties k_dependencies].
  repeat split; try exact I; try (intros; congruence); try reflexivity.
Qed.

Lemma dsl_with_default e d : dsl e -> dsl (with_elem_default e d).
Proof.
  intros H. inversion H as [? Hl Hc]; subst. destruct e; simpl in *; try exact H; constructor; auto.
Qed.

Lemma dsl_compose m es : Forall dsl es -> dsl (compose m es).
Proof.
  intros H. unfold compose. destruct es as [|e [|e2 r]]; [apply dsl_element|now inversion H|].
  constructor; [simpl; discriminate|exact H].
Qed.

Lemma same_but_filter_idem c k : same_but (filter_kw c (filter_kw c k)) (filter_kw c k).
Proof.
  unfold same_but, filter_kw.
  cbn [k_default k_const k_enum k_items k_additionalItems k_minItems k_maxItems k_uniqueItems
       k_contains k_minimum k_maximum k_exclusiveMinimum k_exclusiveMaximum k_multipleOf k_format
       k_pattern k_minLength k_maxLength k_required k_properties k_patternProperties
       k_additionalProperties k_minProperties k_maxProperties k_propertyNames k_dependencies
       k_description].
  destruct c;
    repeat match goal with
           | |- context [mem_str (s_ ?p) (signature_of ?c0)] =>
             let b := eval vm_compute in (mem_str (s_ p) (signature_of c0)) in
             change (mem_str (s_ p) (signature_of c0)) with b
           end; cbv iota; repeat split; reflexivity.
Qed.

Lemma same_but_filter_element k : same_but (filter_kw CElement k) k.
Proof.
  unfold same_but, filter_kw.
  cbn [k_default k_const k_enum k_items k_additionalItems k_minItems k_maxItems k_uniqueItems
       k_contains k_minimum k_maximum k_exclusiveMinimum k_exclusiveMaximum k_multipleOf k_format
       k_pattern k_minLength k_maxLength k_required k_properties k_patternProperties
       k_additionalProperties k_minProperties k_maxProperties k_propertyNames k_dependencies
       k_description].
  repeat match goal with
         | |- context [mem_str (s_ ?p) (signature_of ?c0)] =>
           let b := eval vm_compute in (mem_str (s_ p) (signature_of c0)) in
           change (mem_str (s_ p) (signature_of c0)) with b
         end; cbv iota; repeat split; reflexivity.
Qed.

Lemma ksub_filter_incl c k : incl (ksub (filter_kw c k)) (ksub k).
Proof.
  unfold ksub, filter_kw.
  cbn [k_items k_additionalItems k_contains k_properties k_patternProperties k_additionalProperties
       k_propertyNames k_dependencies].
  destruct c;
    repeat match goal with
           | |- context [mem_str (s_ ?p) (signature_of ?c0)] =>
             let b := eval vm_compute in (mem_str (s_ p) (signature_of c0)) in
             change (mem_str (s_ p) (signature_of c0)) with b
           end; cbv iota; cbn [sub_items sub_addl sub_opt sub_props sub_pats sub_deps app];
    intros x Hx; rewrite ?in_app_iff in *; simpl in *; tauto.
Qed.

Section PD.
  Variable cfg : pcfg.
  Notation P := (parse_element cfg).
  Definition IHd (S0 : json) : Prop := forall st e st', P S0 st = POk (e, st') -> dsl e.

  Lemma list_dsl l : Forall IHd l -> forall st es st', parse_list P l st = POk (es, st') -> Forall dsl es.
  Proof.
    induction 1 as [|x r Hx Hr IH]; intros st es st' H; cbn [parse_list] in H.
    - apply ret_inv in H as [<- _]. constructor.
    - apply bind_inv in H as (e & s1 & He & H). apply bind_inv in H as (es' & s2 & Hes & H).
      apply ret_inv in H as [<- _]. constructor; eauto.
  Qed.

  Lemma assoc_dsl kvs : Forall (fun kv => is_schema (snd kv) = true -> IHd (snd kv)) kvs ->
    forall st es st', parse_assoc P kvs st = POk (es, st') ->
    Forall dsl (map snd es) /\ keys es = keys (filter (fun kv => is_schema (snd kv)) kvs).
  Proof.
    induction 1 as [|[k v] r Hx Hr IH]; intros st es st' H; cbn [parse_assoc] in H.
    - apply ret_inv in H as [<- _]. split; [constructor|reflexivity].
    - cbn [filter snd] in *. destruct (is_schema v) eqn:Es.
      + apply bind_inv in H as (e & s1 & He & H). apply bind_inv in H as (es' & s2 & Hes & H).
        apply ret_inv in H as [<- _]. destruct (IH _ _ _ Hes) as [H1 H2].
        split; [constructor; [eapply Hx; eauto|exact H1]|]. cbn [keys map fst]. f_equal. exact H2.
      + eauto.
  Qed.

  Lemma items_dsl kvs st it st' :
    Forall IHd (match lookup (s_ "items") kvs with Some (JArr l) => l | Some s => [s] | None => [] end) ->
    with_key (parse_items P) (s_ "items") kvs (ret None) st = POk (it, st') -> Forall dsl (sub_items it).
  Proof.
    intros HI H. rewrite with_key_lookup in H.
    destruct (lookup (s_ "items") kvs) as [Si|]; [|apply ret_inv in H as [<- _]; constructor].
    unfold parse_items in H.
    destruct Si as [| | | | |l|];
      try (apply bind_inv in H as (e & s1 & He & H); apply ret_inv in H as [<- _]; inversion HI as [|? ? Hx _]; subst;
           cbn [sub_items]; constructor; [eapply Hx; eauto|constructor]).
    apply bind_inv in H as (es & s1 & Hes & H). apply ret_inv in H as [<- _]. cbn [sub_items]. eapply list_dsl; eauto.
  Qed.

  Lemma addl_dsl key kvs st a st' : Forall IHd (opt_list (lookup key kvs)) ->
    with_key (parse_addl P) key kvs (ret (AddBool true)) st = POk (a, st') -> Forall dsl (sub_addl a).
  Proof.
    intros HI H. rewrite with_key_lookup in H.
    destruct (lookup key kvs) as [Sa|]; [|apply ret_inv in H as [<- _]; constructor].
    unfold parse_addl in H. cbn [opt_list] in HI. inversion HI as [|? ? Hx _]; subst.
    destruct Sa as [|b| | | | |];
      try (apply bind_inv in H as (e & s1 & He & H); apply ret_inv in H as [<- _]; cbn [sub_addl];
           constructor; [eapply Hx; eauto|constructor]).
    apply ret_inv in H as [<- _]. constructor.
  Qed.

  Lemma some_dsl key kvs st oe st' : Forall IHd (opt_list (lookup key kvs)) ->
    with_key (parse_some P) key kvs (ret None) st = POk (oe, st') -> Forall dsl (sub_opt oe).
  Proof.
    intros HI H. rewrite with_key_lookup in H.
    destruct (lookup key kvs) as [Sa|]; [|apply ret_inv in H as [<- _]; constructor].
    unfold parse_some in H. cbn [opt_list] in HI. inversion HI as [|? ? Hx _]; subst.
    apply bind_inv in H as (e & s1 & He & H). apply ret_inv in H as [<- _]. cbn [sub_opt].
    constructor; [eapply Hx; eauto|constructor].
  Qed.

  Lemma pats_dsl kvs st pats st' :
    dict_ok true (lookup (s_ "patternProperties") kvs) ->
    Forall IHd (obj_vals (lookup (s_ "patternProperties") kvs)) ->
    with_key (parse_pats P) (s_ "patternProperties") kvs (ret None) st = POk (pats, st') ->
    Forall dsl (sub_pats pats) /\ okeys pats.
  Proof.
    intros Hok HI H. rewrite with_key_lookup in H.
    destruct (lookup (s_ "patternProperties") kvs) as [Sp|]; [|apply ret_inv in H as [<- _]; split; [constructor|exact I]].
    unfold parse_pats in H. destruct Sp as [| | | | | |pp]; try (exfalso; eapply fail_inv; exact H).
    apply bind_inv in H as (es & s1 & Hes & H). apply ret_inv in H as [<- _].
    cbn [dict_ok obj_vals] in *. destruct Hok as [Hnd Hall].
    destruct (assoc_dsl pp (Forall_obj_vals _ _ HI) _ _ _ Hes) as [H1 H2].
    rewrite (filter_all _ _ (Hall eq_refl)) in H2.
    assert (E : dict_of_pairs es = es) by (unfold dict_of_pairs; apply dict_of_nodup; now rewrite H2).
    rewrite E. cbn [sub_pats okeys]. split; [exact H1|now rewrite H2].
  Qed.

  Lemma deps_dsl kvs st deps st' :
    Forall IHd (filter is_schema (obj_vals (lookup (s_ "dependencies") kvs))) ->
    with_key (parse_deps P) (s_ "dependencies") kvs (ret None) st = POk (deps, st') ->
    Forall dsl (sub_deps deps) /\ okeys deps.
  Proof.
    intros HI H. rewrite with_key_lookup in H.
    destruct (lookup (s_ "dependencies") kvs) as [Sp|]; [|apply ret_inv in H as [<- _]; split; [constructor|exact I]].
    unfold parse_deps in H. destruct Sp as [| | | | | |dd]; try (exfalso; eapply fail_inv; exact H).
    apply bind_inv in H as (es & s1 & Hes & H). apply ret_inv in H as [<- _]. cbn [obj_vals] in HI.
    destruct (assoc_dsl dd (Forall_filter_vals _ _ HI) _ _ _ Hes) as [H1 _].
    cbn [okeys sub_deps]. split.
    - apply Forall_forall. intros x Hx. apply in_flat_map in Hx as ([key d] & Hin & Hd). cbn [snd] in Hd.
      apply In_dict_merge' in Hin as [Hin|Hin].
      + unfold dict_of_pairs in Hin. apply In_dict_merge' in Hin as [[]|Hin].
        apply in_flat_map in Hin as ([k' j] & _ & Hj). cbn [fst snd] in Hj. destruct j; try contradiction.
        destruct Hj as [E|[]]. inversion E; subst. contradiction.
      + apply in_map_iff in Hin as ([k' e] & E & Hin). inversion E; subst. cbn [dep_elems] in Hd.
        destruct Hd as [E2|[]]. subst x. rewrite Forall_forall in H1. apply H1. apply in_map_iff. exists (key, e). auto.
    - apply nodup_dict_merge. unfold dict_of_pairs. apply nodup_dict_merge. constructor.
  Qed.

  Lemma props_dsl kvs st props st' :
    dict_ok true (lookup (s_ "properties") kvs) ->
    (match lookup (s_ "properties") kvs with Some (JObj p) => NoDup (map (attr cfg) (keys p)) | _ => True end) ->
    (match lookup (s_ "properties") kvs with Some (JObj p) => Forall (fun kv : str * json => fst kv <> []) p | _ => True end) ->
    Forall IHd (obj_vals (lookup (s_ "properties") kvs)) ->
    with_key (parse_props P (attr cfg) (req_names kvs)) (s_ "properties") kvs (ret None) st = POk (props, st') ->
    Forall dsl (sub_props props) /\ props_ok (req_names kvs) props.
  Proof.
    intros Hok Hattr Hnm HI H. rewrite with_key_lookup in H.
    destruct (lookup (s_ "properties") kvs) as [Sp|]; [|apply ret_inv in H as [<- _]; split; [constructor|exact I]].
    unfold parse_props in H. destruct Sp as [| | | | | |pkvs]; try (exfalso; eapply fail_inv; exact H).
    apply bind_inv in H as (es & s1 & Hes & H). apply ret_inv in H as [<- _].
    cbn [dict_ok obj_vals] in *. destruct Hok as [Hnd Hall].
    destruct (assoc_dsl pkvs (Forall_obj_vals _ _ HI) _ _ _ Hes) as [H1 H2].
    rewrite (filter_all _ _ (Hall eq_refl)) in H2.
    set (ps := map (fun ke : str * elem => (attr cfg (fst ke), mkProp (snd ke) (mem_str (fst ke) (req_names kvs)) (fst ke))) es).
    assert (Ekeys : keys ps = map (attr cfg) (keys pkvs)).
    { rewrite <- H2. unfold ps, keys. rewrite !map_map. reflexivity. }
    assert (Esrc : map (fun np : str * prop elem => p_source (snd np)) ps = keys pkvs).
    { rewrite <- H2. unfold ps, keys. rewrite !map_map. reflexivity. }
    assert (Edict : dict_of_pairs ps = ps) by (unfold dict_of_pairs; apply dict_of_nodup; now rewrite Ekeys).
    rewrite Edict. cbn [sub_props props_ok]. split.
    - unfold ps. rewrite map_map. cbn [snd p_elem]. exact H1.
    - split; [now rewrite Esrc|]. apply Forall_forall. intros [n p] Hin. cbn [snd].
      unfold ps in Hin. apply in_map_iff in Hin as ([key e] & E & Hin). inversion E; subst. cbn [p_source p_required p_elem fst snd].
      split.
      + assert (Hk : In key (keys pkvs)) by (rewrite <- H2; apply in_map_iff; exists (key, e); auto).
        unfold keys in Hk. apply in_map_iff in Hk as ([k2 S2] & Ek & Hk). cbn [fst] in Ek. subst k2.
        rewrite Forall_forall in Hnm. exact (Hnm _ Hk).
      + intros Hr. right. now apply mem_str_In.
  Qed.

  (* ---- what the sub-parsers hand to the node ---- *)
  Definition Kgood (K : kwds elem) : Prop :=
    lclean (k_const K) /\ (match k_enum K with Some l => clean (JArr l) = true | None => True end) /\
    Forall dsl (ksub K) /\
    props_ok (match k_required K with Some l => l | None => [] end) (k_properties K) /\
    okeys (k_patternProperties K) /\ okeys (k_dependencies K).

  Lemma Kgood_set_default K d : Kgood K -> Kgood (set_default K d).
  Proof. intros H. exact H. Qed.

  Lemma dsl_untyped K : Kgood K -> dsl (EK CElement K).
  Proof.
    intros (H1 & H2 & H3 & H4 & H5 & H6). constructor; [|exact H3]. cbn [local_dsl].
    split; [exact H1|]. split; [exact H2|]. split; [apply same_but_filter_element|].
    repeat split; auto; intros; congruence.
  Qed.

  Lemma filter_fields c K : c <> CElement ->
    k_required (filter_kw c K) = None /\ k_properties (filter_kw c K) = None /\
    (k_const (filter_kw c K) = k_const K) /\ (k_enum (filter_kw c K) = k_enum K) /\
    (k_patternProperties (filter_kw c K) = None) /\ (k_dependencies (filter_kw c K) = None).
  Proof.
    intros Hc. unfold filter_kw.
    cbn [k_const k_enum k_required k_properties k_patternProperties k_dependencies].
    destruct c; try congruence;
      repeat match goal with
             | |- context [mem_str (s_ ?p) (signature_of ?c0)] =>
               let b := eval vm_compute in (mem_str (s_ p) (signature_of c0)) in
               change (mem_str (s_ p) (signature_of c0)) with b
             end; cbv iota; repeat split; reflexivity.
  Qed.

  Lemma dsl_typed c K : Kgood K -> c <> CElement -> c <> CArray -> dsl (EK c (filter_kw c K)).
  Proof.
    intros (H1 & H2 & H3 & H4 & H5 & H6) Hc1 Hc2.
    destruct (filter_fields c K Hc1) as (E1 & E2 & E3 & E4 & E5 & E6).
    constructor.
    - cbn [local_dsl]. rewrite E1, E2, E3, E4, E5, E6. cbn [props_ok okeys].
      split; [exact H1|]. split; [exact H2|]. split; [apply same_but_filter_idem|].
      repeat split; auto; intros; congruence.
    - cbn [children]. rewrite Forall_forall in *. intros x Hx. apply H3. now apply (ksub_filter_incl c K).
  Qed.

  Lemma dsl_array K : Kgood K -> dsl (EK CArray (arr_record K)).
  Proof.
    intros (H1 & H2 & H3 & H4 & H5 & H6).
    destruct (filter_fields CArray K ltac:(discriminate)) as (E1 & E2 & E3 & E4 & E5 & E6).
    assert (Hch : Forall dsl (ksub (filter_kw CArray K))).
    { rewrite Forall_forall in *. intros x Hx. apply H3. now apply (ksub_filter_incl CArray K). }
    unfold arr_record. destruct (k_items (filter_kw CArray K)) as [it|] eqn:Ei.
    - constructor; [|exact Hch]. cbn [local_dsl]. rewrite E1, E2, E3, E4, E5, E6, Ei. cbn [props_ok okeys].
      split; [exact H1|]. split; [exact H2|]. split; [apply same_but_filter_idem|].
      repeat split; auto; intros; congruence.
    - constructor.
      + cbn [local_dsl k_const k_enum k_items k_required k_properties k_patternProperties k_dependencies].
        rewrite E3, E4. cbn [props_ok okeys].
        repeat split; auto; try (intros; congruence).
      + cbn [children]. unfold ksub in *.
        cbn [k_items k_additionalItems k_contains k_properties k_patternProperties k_additionalProperties
             k_propertyNames k_dependencies sub_items sub_props sub_pats sub_opt sub_deps sub_addl app].
        rewrite Ei in Hch. cbn [sub_items app] in Hch.
        constructor; [apply dsl_element|].
        repeat match type of Hch with Forall _ (_ ++ _) => let I1 := fresh "I" in apply Forall_app in Hch as [I1 Hch] end.
        repeat (apply Forall_app; split); auto; constructor.
  Qed.

  Lemma typed_single_dsl t S0 K st e st' : Kgood K -> str_eqb t (s_ "object") = false ->
    typed_single cfg t S0 K st = POk (e, st') -> dsl e.
  Proof.
    intros HK Ho H. unfold typed_single in H. rewrite Ho in H.
    destruct (has_key (s_ "self") S0); [exfalso; eapply fail_inv; exact H|].
    destruct (str_eqb t (s_ "array")) eqn:Ea.
    - apply ret_inv in H as [<- _]. now apply dsl_array.
    - destruct (lookup t type_mapping) as [c|] eqn:El; [|exfalso; eapply fail_inv; exact H].
      apply ret_inv in H as [<- _].
      destruct (type_mapping_ok t c El Ea) as (Hc1 & Hc2 & _). now apply dsl_typed.
  Qed.

  Lemma finish_plain_dsl kvs S0 K st e st' : Kgood K -> type_not_object kvs ->
    lookup (s_ "type") S0 = lookup (s_ "type") kvs ->
    finish_plain cfg S0 K st = POk (e, st') -> dsl e.
  Proof.
    intros HK Hno Et H. unfold finish_plain in H. rewrite Et in H. red in Hno.
    destruct (lookup (s_ "type") kvs) as [Sty|].
    2:{ destruct (has_key (s_ "self") S0); [exfalso; eapply fail_inv; exact H|].
        apply ret_inv in H as [<- _]. now apply dsl_untyped. }
    destruct Sty as [| | | |t|ts|]; try (exfalso; eapply fail_inv; exact H).
    - eapply typed_single_dsl; eauto. now apply str_eqb_neq.
    - assert (Hgo : forall S' K', Kgood K' -> forall ts0, Forall (fun t => t <> JStr (s_ "object")) ts0 -> forall s0 es s1,
                (fix go (l : list json) : M (list elem) :=
                   match l with
                   | [] => ret []
                   | JStr t :: r => do e <- typed_single cfg t S' K';; do es <- go r;; ret (e :: es)
                   | _ :: _ => fail PCrash
                   end) ts0 s0 = POk (es, s1) -> Forall dsl es).
      { intros S' K' HK'. induction 1 as [|tj tr Ht _ IH]; intros s0 es s1 H0.
        - apply ret_inv in H0 as [<- _]. constructor.
        - destruct tj; try (exfalso; eapply fail_inv; exact H0).
          apply bind_inv in H0 as (e0 & t1 & He0 & H0). apply bind_inv in H0 as (es0 & t2 & Hes0 & H0).
          apply ret_inv in H0 as [<- _]. constructor; [|eapply IH; eauto].
          eapply typed_single_dsl; eauto. apply str_eqb_neq. intros ->. now apply Ht. }
      assert (Hgen : forall s0 e0 s1,
                (do es <- (fix go (l : list json) : M (list elem) :=
                    match l with
                    | [] => ret []
                    | JStr t :: r => do e <- typed_single cfg t (remove_key (s_ "default") S0) (set_default K None);; do es <- go r;; ret (e :: es)
                    | _ :: _ => fail PCrash
                    end) ts;;
                 match es with
                 | [] => fail PCrash
                 | _ => ret (EComp MAny es (k_default K))
                 end) s0 = POk (e0, s1) -> dsl e0).
      { intros s0 e0 s1 H0. apply bind_inv in H0 as (es & t1 & Hes & H0).
        pose proof (Hgo _ _ (Kgood_set_default K None HK) ts Hno _ _ _ Hes) as Hd.
        destruct es as [|e1 er]; [exfalso; eapply fail_inv; exact H0|]. apply ret_inv in H0 as [<- _].
        constructor; [simpl; discriminate|exact Hd]. }
      destruct ts as [|[| | | |t| |] [|t2 tr]]; try (eapply Hgen; exact H).
      eapply typed_single_dsl; eauto. apply str_eqb_neq. intros ->. inversion Hno; subst. congruence.
  Qed.

  Lemma filter_dsl (l : list elem) f : Forall dsl l -> Forall dsl (filter f l).
  Proof. induction 1; simpl; [constructor|]. destruct (f x); [constructor|]; auto. Qed.

  Hypothesis Hcfg : forall key, In key (map s_ ["allOf"; "anyOf"; "oneOf"]) -> In key (c_comp_order cfg).

  Lemma comp_list_dsl key kvs st es st' : Forall IHd (arr_list (lookup key kvs)) ->
    with_key (parse_comp_list P) key kvs (ret []) st = POk (es, st') -> Forall dsl es.
  Proof.
    intros HI H. rewrite with_key_lookup in H.
    destruct (lookup key kvs) as [Sl|]; [|apply ret_inv in H as [<- _]; constructor].
    unfold parse_comp_list in H. destruct Sl; try (exfalso; eapply fail_inv; exact H).
    cbn [arr_list] in HI. eapply list_dsl; eauto.
  Qed.

  Theorem parse_dsl : forall S0, plain cfg false S0 -> named S0 -> IHd S0.
  Proof.
    apply (plain_ind' cfg false (fun S0 => named S0 -> IHd S0)).
    - intros b _ st e st' H. destruct b; cbn [parse_element] in H; apply ret_inv in H as [<- _].
      + apply dsl_element.
      + constructor; [exact I|constructor].
    - intros kvs Hnode Hsub IH Hnm st e st' H. inversion Hnm as [|? Hnames Hns]; subst.
      assert (IH' : Forall IHd (subschemas kvs)).
      { pose proof (Forall_and _ _ _ IH Hns) as Hb. eapply Forall_impl; [|exact Hb]. intros a [Ha Hn]. auto. }
      clear IH Hns. rename IH' into IH.
      pose proof (type_cond_false cfg kvs Hnode) as Hno.
      destruct Hnode as (Hnd & _ & Hconst & Henum & Hpok & Hattr & Hppok & Hdok & Hany & Hone).
      unfold subschemas in IH.
      repeat match type of IH with Forall _ (_ ++ _) => let Q1 := fresh "Q" in apply Forall_app in IH as [Q1 IH] end.
      cbn [parse_element] in H.
      destruct (existsb (fun kv => mem_str (fst kv) (c_unsupported cfg)) kvs); [exfalso; eapply fail_inv; exact H|].
      apply bind_inv in H as (props & s1 & Hp1 & H). apply bind_inv in H as (items & s2 & Hp2 & H).
      apply bind_inv in H as (pats & s3 & Hp3 & H). apply bind_inv in H as (pnames & s4 & Hp4 & H).
      apply bind_inv in H as (contains & s5 & Hp5 & H). apply bind_inv in H as (deps & s6 & Hp6 & H).
      apply bind_inv in H as (addp & s7 & Hp7 & H). apply bind_inv in H as (addi & s8 & Hp8 & H).
      change (match lookup (s_ "required") kvs with Some j => jstr_list j | None => [] end) with (req_names kvs) in Hp1.
      destruct (props_dsl kvs _ _ _ Hpok Hattr Hnames Q5 Hp1) as [D1 Pok].
      pose proof (items_dsl kvs _ _ _ Q Hp2) as D2.
      destruct (pats_dsl kvs _ _ _ Hppok Q6 Hp3) as [D3 Kp].
      pose proof (some_dsl _ kvs _ _ _ Q2 Hp4) as D4.
      pose proof (some_dsl _ kvs _ _ _ Q1 Hp5) as D5.
      destruct (deps_dsl kvs _ _ _ Q7 Hp6) as [D6 Kd].
      pose proof (addl_dsl _ kvs _ _ _ Q3 Hp7) as D7.
      pose proof (addl_dsl _ kvs _ _ _ Q0 Hp8) as D8.
      set (K := kw_record kvs props items pats pnames contains deps addp addi) in *.
      assert (HK : Kgood K).
      { unfold Kgood, K, kw_record.
        cbn [k_const k_enum k_required k_properties k_patternProperties k_dependencies].
        split; [|split; [|split; [|split; [|split]]]].
        - red in Hconst. unfold lclean. destruct (lookup (s_ "const") kvs) as [j|]; [|exact I].
          now rewrite (clean_strip j Hconst).
        - red in Henum. destruct (lookup (s_ "enum") kvs) as [j|]; [|exact I].
          rewrite (clean_strip j Henum). destruct j; try exact I. exact Henum.
        - unfold ksub. cbn [k_items k_additionalItems k_contains k_properties k_patternProperties k_additionalProperties k_propertyNames k_dependencies].
          repeat (apply Forall_app; split); assumption.
        - unfold req_names in Pok. destruct (lookup (s_ "required") kvs); exact Pok.
        - exact Kp.
        - exact Kd. }
      destruct (existsb (fun kv => mem_str (fst kv) composition_keywords) kvs) eqn:Ecomp; cbn [negb] in H.
      + apply bind_inv in H as (base & s9 & Hbase & H). apply bind_inv in H as (parsed & s10 & Hparsed & H).
        apply bind_inv in H as (nots & s11 & Hnots & H).
        assert (Db : dsl base).
        { refine (finish_plain_dsl kvs _ (set_default K None) _ _ _ (Kgood_set_default K None HK) Hno _ Hbase).
          apply lookup_filter_keep. vm_compute. intuition discriminate. }
        assert (Dk : forall key, In key (map s_ ["allOf"; "anyOf"; "oneOf"]) ->
                  Forall IHd (arr_list (lookup key kvs)) ->
                  Forall dsl (match lookup key parsed with Some l => l | None => [] end)).
        { intros key Hin HI. destruct (parse_keys_lookup _ _ _ _ _ Hparsed key (Hcfg key Hin)) as (es & t1 & t2 & -> & Hsb).
          eapply comp_list_dsl; eauto. }
        assert (Dn : Forall dsl nots).
        { rewrite with_key_lookup in Hnots. destruct (lookup (s_ "not") kvs) as [Sn|].
          - unfold parse_not in Hnots. apply bind_inv in Hnots as (en & t1 & Hen & Hnots).
            apply ret_inv in Hnots as [<- _]. cbn [opt_list] in Q4. inversion Q4 as [|? ? Hi _]; subst.
            constructor; [|constructor]. constructor; [exact I|]. cbn [children]. constructor; [eapply Hi; eauto|constructor].
          - apply ret_inv in Hnots as [<- _]. constructor. }
        set (all_of := base :: (match lookup (s_ "allOf") parsed with Some l => l | None => [] end) ++
                       [compose MOne (match lookup (s_ "oneOf") parsed with Some l => l | None => [] end);
                        compose MAny (match lookup (s_ "anyOf") parsed with Some l => l | None => [] end)] ++ nots) in *.
        assert (Dall : Forall dsl all_of).
        { unfold all_of. constructor; [exact Db|]. apply Forall_app. split; [apply Dk; [now left|exact Q8]|].
          constructor; [apply dsl_compose, Dk; [right; right; now left|exact IH]|].
          constructor; [apply dsl_compose, Dk; [right; now left|exact Q9]|exact Dn]. }
        set (element := compose MAll (filter (fun e0 => negb (elem_eq EElement e0)) all_of)) in *.
        assert (De : dsl element) by (apply dsl_compose, filter_dsl, Dall).
        destruct (is_obj element).
        * apply ret_inv in H as [<- _]. constructor; [simpl; discriminate|]. cbn [children]. constructor; [exact De|constructor].
        * apply ret_inv in H as [<- _].
          destruct (match lookup (s_ "default") kvs with Some j => Some (strip_autotitle j) | None => None end);
            [now apply dsl_with_default|exact De].
      + exact (finish_plain_dsl kvs kvs K _ _ _ HK Hno eq_refl H).
  Qed.
End PD.

(* ---- the statement used by Properties/C06.v ---- *)
Theorem normal_form_keeps_meaning cfg O S0 st e st' :
  comp_complete cfg -> plain cfg false S0 -> named S0 ->
  parse_element cfg S0 st = POk (e, st') ->
  dsl e /\
  forall v, jwf v -> ncrash (build O e (Some v)) ->
    v6 O WNever (ser_top true true [] e) v = v6 O WNever S0 v.
Proof.
  intros Hc Hp Hn H.
  pose proof (parse_dsl cfg Hc S0 Hp Hn st e st' H) as Hd. split; [exact Hd|].
  intros v Hv Hnc.
  pose proof (validity_plain cfg O WNever S0 st e st' ltac:(discriminate) Hc Hp H v Hv) as H1.
  pose proof (ser_meaning O WNever ltac:(discriminate) e Hd v Hv) as H2.
  unfold om in H1, H2. unfold ser in H2. unfold ncrash in Hnc.
  destruct (build O e (Some v)); try contradiction; now rewrite H1, H2.
Qed.
