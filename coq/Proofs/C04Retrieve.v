(* C04Retrieve.v — an accepted value comes back complete: by induction over the element tree,
   every member of the input at every depth is held by the returned model (arrays item by item in
   order, object members under a key of the result), integers under a number schema as the float
   float() gives.  Premise (finding C04-K13 otherwise): no object of the value uses, as a member
   name, the Python name of a renamed property of the schema it meets. *)
From Coq Require String. Import String.StringSyntax.
From Coq Require Import Lia.
From Statham.Model Require Import Str Json Elem PyNum Validate Plain Sub Retr.
From Statham.Proofs Require Import StrFacts JsonInd JsonEqProof MetaProof DefaultsProof ValidateFacts ElemInd
     C01Object C01Deep C01Plain C06Meaning.
Local Open Scope string_scope.
Arguments s_ : simpl never.

Inductive holds : rv -> json -> Prop :=
| h_null : holds RNull JNull
| h_bool b : holds (RBool b) (JBool b)
| h_int z : holds (RInt z) (JInt z)
| h_flt f : holds (RFlt f) (JFlt f)
| h_str s : holds (RStr s) (JStr s)
| h_intflt z f : py_float_of_int z = PVal f -> holds (RFlt f) (JInt z)
| h_list rs l : Forall2 holds rs l -> holds (RList rs) (JArr l)
| h_dict kvs' m :
    (forall key x, In (key, x) m -> exists name r', lookup name kvs' = Some r' /\ holds r' x) ->
    holds (RDict kvs') (JObj m)
| h_anon kvs' m :
    (forall key x, In (key, x) m -> exists name r', lookup name kvs' = Some r' /\ holds r' x) ->
    holds (RAnon kvs') (JObj m)
| h_inst n kvs' m :
    (forall key x, In (key, x) m -> exists name r', lookup name kvs' = Some r' /\ holds r' x) ->
    holds (RInst n kvs') (JObj m).

Lemma lookup_map_snd {A B} (f : A -> B) (l : list (str * A)) k :
  lookup k (map (fun kv => (fst kv, f (snd kv))) l) = option_map f (lookup k l).
Proof. induction l as [|[k' v] r IH]; simpl; [reflexivity|]. destruct (str_eqb k k'); auto. Qed.

Lemma holds_raw : forall v, jwf v -> holds (rv_of_json v) v.
Proof.
  induction v using json_ind'; intros Hw; cbn [rv_of_json]; try constructor.
  - apply jwf_arr in Hw. induction H as [|x r Hx _ IH]; simpl; [constructor|].
    inversion Hw; subst. constructor; auto.
  - apply jwf_obj in Hw as [Hnd Hvals]. intros key x Hin.
    exists key, (rv_of_json x). split.
    + rewrite (lookup_map_snd rv_of_json kvs key). now rewrite (In_lookup _ _ _ Hnd Hin).
    + rewrite Forall_forall in H, Hvals. apply (H _ Hin). exact (Hvals _ Hin).
Qed.

Lemma holds_any : forall v, jwf v -> holds (build_any v) v.
Proof.
  induction v using json_ind'; intros Hw; cbn [build_any]; try constructor.
  - apply jwf_arr in Hw. induction H as [|x r Hx _ IH]; simpl; [constructor|].
    inversion Hw; subst. constructor; auto.
  - apply jwf_obj in Hw as [Hnd Hvals]. intros key x Hin.
    exists key, (build_any x). split.
    + unfold dict_of_pairs. rewrite dict_of_nodup.
      * rewrite (lookup_map_snd build_any kvs key). now rewrite (In_lookup _ _ _ Hnd Hin).
      * unfold keys. rewrite map_map. exact Hnd.
    + rewrite Forall_forall in H, Hvals. apply (H _ Hin). exact (Hvals _ Hin).
Qed.

(* ---- what collect returns ---- *)
Lemma collect_pass {K} (l : list (K * outcome)) rs : collect l = (VPass, rs) ->
  Forall2 (fun ko kr => fst ko = fst kr /\ snd ko = Ok (snd kr)) l rs.
Proof.
  revert rs. induction l as [|[k o] r IH]; intros rs H; simpl in H.
  - inversion H. constructor.
  - destruct (collect r) as [s rs0]. destruct o; cbn in H.
    + inversion H; subst. constructor; [split; reflexivity|]. now apply IH.
    + destruct s; cbn in H; discriminate.
    + discriminate.
Qed.

Lemma attempt_all_first o os r : attempt MAll (o :: os) = Ok r -> o = Ok r.
Proof.
  unfold attempt. destruct o as [r0| |x]; cbn [first_crash ok_results]; [| |discriminate].
  - destruct (first_crash os); [discriminate|].
    destruct (Nat.eqb _ _); [|discriminate]. intros H. now inversion H.
  - destruct (first_crash os); [discriminate|].
    destruct (ok_results os) as [|r1 rest] eqn:E; [discriminate|].
    destruct (Nat.eqb (length (r1 :: rest)) (length (Rej :: os))) eqn:En; [|discriminate].
    exfalso. apply PeanoNat.Nat.eqb_eq in En.
    assert (Hle : forall l, length (ok_results l) <= length l).
    { induction l as [|[| |] l IHl]; simpl; lia. }
    pose proof (Hle os). rewrite E in *. simpl in *. lia.
Qed.

Lemma attempt_some m os r : attempt m os = Ok r -> exists o, In o os /\ o = Ok r.
Proof.
  unfold attempt. destruct (first_crash os); [discriminate|].
  destruct (ok_results os) as [|r1 rest] eqn:E; [discriminate|].
  assert (Hin : In (Ok r1) os).
  { clear - E. induction os as [|[r0| |x] l IH]; simpl in E; try discriminate; try (right; auto; fail).
    inversion E; subst. now left. }
  intros H. assert (r = r1).
  { destruct m; [now inversion H|destruct rest; [now inversion H|discriminate]|
                 destruct (Nat.eqb _ _); [now inversion H|discriminate]]. }
  subst. eauto.
Qed.

(* ---- descendants ---- *)
Inductive desc : elem -> elem -> Prop :=
| desc_refl e : desc e e
| desc_step e c e' : In c (children e) -> desc c e' -> desc e e'.
Inductive subval : json -> json -> Prop :=
| sv_refl v : subval v v
| sv_arr l x y : In x l -> subval x y -> subval (JArr l) y
| sv_obj m k x y : In (k, x) m -> subval x y -> subval (JObj m) y.

(* the properties of e' are well-formed, and the object x does not use a renamed Python name *)
Definition local_safe (e' : elem) (x : json) : Prop :=
  match x with
  | JObj m =>
    NoDup (keys (props_of e')) /\ NoDup (map (fun np => p_source (snd np)) (props_of e')) /\
    (forall n p, In (n, p) (props_of e') -> p_source p <> []) /\
    (forall n p, In (n, p) (props_of e') -> n <> p_source p -> has_key n m = false)
  | _ => True
  end.

Definition safe (e : elem) (v : json) : Prop :=
  forall e' x, desc e e' -> subval v x -> local_safe e' x.

Lemma safe_down e c v x : safe e v -> In c (children e) -> subval v x -> safe c x.
Proof.
  intros H Hc Hx e' y Hd Hy. apply H; [eapply desc_step; eauto|].
  clear - Hx Hy. induction Hx; [exact Hy|eapply sv_arr; eauto|eapply sv_obj; eauto].
Qed.

Section R.
  Variable O : oracles.
  Notation B := (build O).

  Definition Pe (e : elem) : Prop :=
    forall v r, jwf v -> safe e v -> B e (Some v) = Ok r -> holds r v.

  Lemma collect_holds (outs : list (unit * outcome)) (l : list json) rs0 :
    Forall2 (fun out x => forall r, snd out = Ok r -> holds r x) outs l ->
    collect outs = (VPass, rs0) -> Forall2 holds (map snd rs0) l.
  Proof.
    intros H Hc. apply collect_pass in Hc. revert rs0 Hc.
    induction H as [|out x outs l Hx _ IH]; intros rs0 Hc; inversion Hc as [|? kr ? rs1 [_ Hk] Hr]; subst; simpl; constructor.
    - now apply Hx.
    - now apply IH.
  Qed.

  Lemma Forall2_map_l {A C D} (R : C -> D -> Prop) (f : A -> C) (g : A -> D) l :
    (forall x, In x l -> R (f x) (g x)) -> Forall2 R (map f l) (map g l).
  Proof. induction l; simpl; intros H; constructor; auto. Qed.

  Lemma items_holds c k l rs : Forall Pe (ksub k) -> jwf (JArr l) -> safe (EK c k) (JArr l) ->
    build_items B k l = (VPass, rs) -> Forall2 holds rs l.
  Proof.
    intros IH Hw Hs H. apply jwf_arr in Hw. rewrite Forall_forall in Hw, IH.
    assert (Hsafe : forall e' x, In e' (ksub k) -> In x l -> safe e' x).
    { intros e' x He Hx. eapply safe_down; [exact Hs|exact He|]. eapply sv_arr; [exact Hx|constructor]. }
    assert (Hk : forall e', In e' (sub_items (k_items k)) \/ In e' (sub_addl (k_additionalItems k)) -> In e' (ksub k)).
    { intros e' He. unfold ksub. rewrite !in_app_iff. tauto. }
    unfold build_items in H.
    destruct (collect _) as [s rs0] eqn:Ec. inversion H; subst. clear H.
    eapply collect_holds; [|exact Ec]. clear Ec.
    destruct (k_items k) as [[ie|its]|] eqn:Ei; cbn [sub_items] in Hk.
    - rewrite <- (map_id l) at 2. apply Forall2_map_l. intros x Hx r Hr. cbn [snd] in Hr.
      assert (Hin : In ie (ksub k)) by (apply Hk; left; now left).
      apply (IH ie Hin x r (Hw x Hx) (Hsafe ie x Hin Hx) Hr).
    - assert (Hrest : forall x, In x l -> forall r,
                on_addl (fun e' => B e' (Some x)) (k_additionalItems k) (Ok (build_any x)) Rej = Ok r -> holds r x).
      { intros x Hx r Hr. destruct (k_additionalItems k) as [[|]|e'] eqn:Ea; cbn [on_addl sub_addl] in *.
        - inversion Hr. apply holds_any. auto.
        - discriminate.
        - assert (Hin : In e' (ksub k)) by (apply Hk; right; now left).
          apply (IH e' Hin x r (Hw x Hx) (Hsafe e' x Hin Hx) Hr). }
      assert (Hits : forall e', In e' its -> In e' (ksub k)) by (intros e' He; apply Hk; now left).
      clear Hk Ei Hs. revert l Hw Hsafe Hrest. induction its as [|ie ir IHi]; intros l Hw Hsafe Hrest; cbn [tuple_outs].
      + rewrite <- (map_id l) at 2. apply Forall2_map_l. intros x Hx r Hr. cbn [snd] in Hr. eapply Hrest; eauto.
      + destruct l as [|x xr]; [constructor|]. constructor.
        * intros r Hr. cbn [snd] in Hr.
          assert (Hin : In ie (ksub k)) by (apply Hits; now left).
          apply (IH ie Hin x r (Hw x (or_introl eq_refl)) (Hsafe ie x Hin (or_introl eq_refl)) Hr).
        * apply IHi; [intros; apply Hits; now right| | |]; intros; [apply Hw|apply Hsafe|eapply Hrest]; simpl; eauto.
    - rewrite <- (map_id l) at 2. apply Forall2_map_l. intros x Hx r Hr. cbn [snd] in Hr.
      inversion Hr. apply holds_any. auto.
  Qed.

  (* ---- object members ---- *)
  Definition name_of (k : kwds elem) (key : str) : str :=
    match find_by_source_o (fun e => e) key (k_properties k) with Some (n, _, _) => n | None => key end.

  Lemma fbs_o_map {A} (f : elem -> A) key (o : option (list (str * prop elem))) :
    find_by_source_o f key o = option_map (lift3 f) (find_by_source_o (fun e => e) key o).
  Proof. destruct o as [ps|]; [|reflexivity]. exact (find_by_source_map f key ps None). Qed.

  Lemma mm_o_map {A} (f : elem -> A) pred (o : option (list (str * elem))) :
    map_matching_o f pred o = map f (match o with Some l => matching pred l | None => [] end).
  Proof. destruct o as [l|]; [apply map_matching_map|reflexivity]. Qed.

  Lemma member_fst k key mv : fst (member O B k key mv) = name_of k key.
  Proof.
    unfold member, name_of. rewrite fbs_o_map, mm_o_map.
    destruct (find_by_source_o (fun e => e) key (k_properties k)) as [[[n rq] ed]|]; cbn [option_map lift3 fst snd];
      destruct (match k_patternProperties k with Some l => matching (fun p => re_search O p key) l | None => [] end) as [|e1 [|e2 er]];
      reflexivity.
  Qed.

  Lemma find_src_gen key ps : forall acc t, find_by_source (fun e : elem => e) key ps acc = Some t ->
    acc = Some t \/ exists n p, In (n, p) ps /\ p_source p = key /\ t = (n, p_required p, p_elem p).
  Proof.
    induction ps as [|[n p] r IH]; intros acc t H; simpl in H; [now left|].
    destruct (str_eqb_spec (p_source p) key) as [E|_].
    - destruct (IH _ _ H) as [E2|(n2 & p2 & Hin & Hs & Ht)].
      + inversion E2; subst. right. exists n, p. split; [now left|auto].
      + right. exists n2, p2. split; [now right|auto].
    - destruct (IH _ _ H) as [E2|(n2 & p2 & Hin & Hs & Ht)]; [now left|].
      right. exists n2, p2. split; [now right|auto].
  Qed.

  Lemma find_src_some key ps n p : In (n, p) ps -> p_source p = key ->
    forall acc, exists t, find_by_source (fun e : elem => e) key ps acc = Some t.
  Proof.
    induction ps as [|[n0 p0] r IH]; intros Hin Hs acc; [contradiction|]. simpl.
    destruct Hin as [E|Hin].
    - inversion E; subst. rewrite str_eqb_refl.
      destruct (find_by_source (fun e => e) (p_source p) r (Some (n, p_required p, p_elem p))) eqn:Ef; [eauto|].
      exfalso. clear - Ef. revert Ef. generalize (n, p_required p, p_elem p) as t.
      induction r as [|[n1 p1] r IHr]; intros t; simpl; [discriminate|].
      destruct (str_eqb _ _); apply IHr.
    - destruct (str_eqb (p_source p0) key); apply IH; auto.
  Qed.

  Lemma matching_In pred es e : In e (matching pred es) -> exists n, In (n, e) es.
  Proof.
    induction es as [|[n e0] r IH]; simpl; [intros []|]. destruct (pred n); simpl.
    - intros [<-|H]; [eauto|]. destruct (IH H); eauto.
    - intros H. destruct (IH H); eauto.
  Qed.

  Lemma in_ksub_props k n p ps : k_properties k = Some ps -> In (n, p) ps -> In (p_elem p) (ksub k).
  Proof.
    intros E H. unfold ksub. rewrite !in_app_iff. right; right; right; left. rewrite E. cbn [sub_props].
    apply in_map_iff. exists (n, p). auto.
  Qed.
  Lemma in_ksub_pats k n e es : k_patternProperties k = Some es -> In (n, e) es -> In e (ksub k).
  Proof.
    intros E H. unfold ksub. rewrite !in_app_iff. right; right; right; right; left. rewrite E. cbn [sub_pats].
    apply in_map_iff. exists (n, e). auto.
  Qed.
  Lemma in_ksub_addp k e : k_additionalProperties k = AddElem e -> In e (ksub k).
  Proof.
    intros E. unfold ksub. rewrite !in_app_iff. right; right; right; right; right; left. rewrite E. now left.
  Qed.

  Lemma member_holds k key x r' : Forall Pe (ksub k) -> jwf x -> (forall e', In e' (ksub k) -> safe e' x) ->
    snd (member O B k key (Some x)) = Ok r' -> holds r' x.
  Proof.
    intros IH Hx Hs H. rewrite Forall_forall in IH. unfold member in H. rewrite fbs_o_map, mm_o_map in H.
    assert (Hd : forall n rq ed, find_by_source_o (fun e => e) key (k_properties k) = Some (n, rq, ed) -> In ed (ksub k)).
    { intros n rq ed E. destruct (k_properties k) as [ps|] eqn:Ep; [|discriminate]. cbn [find_by_source_o] in E.
      destruct (find_src_gen key ps None _ E) as [E2|(n2 & p2 & Hin & _ & Ht)]; [discriminate|].
      inversion Ht; subst. eapply in_ksub_props; eauto. }
    assert (Hp : forall e, In e (match k_patternProperties k with Some l => matching (fun p => re_search O p key) l | None => [] end) -> In e (ksub k)).
    { intros e He. destruct (k_patternProperties k) as [es|] eqn:Ep; [|contradiction].
      destruct (matching_In _ _ _ He) as (n & Hn). eapply in_ksub_pats; eauto. }
    assert (Go : forall e, In e (ksub k) -> B e (Some x) = Ok r' -> holds r' x).
    { intros e He Hb. exact (IH e He x r' Hx (Hs e He) Hb). }
    destruct (find_by_source_o (fun e => e) key (k_properties k)) as [[[n rq] ed]|] eqn:Ed; cbn [option_map lift3 fst snd] in H;
      destruct (match k_patternProperties k with Some l => matching (fun p => re_search O p key) l | None => [] end) as [|e1 [|e2 er]] eqn:Em;
      cbn [map snd] in H.
    - apply (Go ed); [eapply Hd; eauto|exact H].
    - apply attempt_all_first in H. apply (Go ed); [eapply Hd; eauto|exact H].
    - apply attempt_all_first in H. apply (Go ed); [eapply Hd; eauto|exact H].
    - destruct (k_additionalProperties k) as [[|]|e'] eqn:Ea; cbn [on_addl] in H.
      + inversion H. now apply holds_any.
      + discriminate.
      + apply (Go e'); [now apply in_ksub_addp|exact H].
    - apply (Go e1); [apply Hp; now left|exact H].
    - apply attempt_all_first in H. apply (Go e1); [apply Hp; now left|exact H].
  Qed.

  Lemma NoDup_map_inj {A C} (f : A -> C) l : NoDup l ->
    (forall a b, In a l -> In b l -> f a = f b -> a = b) -> NoDup (map f l).
  Proof.
    induction 1 as [|x l Hn Hl IH]; intros Hinj; simpl; constructor.
    - intros Hin. apply in_map_iff in Hin as (y & E & Hy). apply Hn.
      rewrite (Hinj x y (or_introl eq_refl) (or_intror Hy) (eq_sym E)). exact Hy.
    - apply IH. intros a b Ha Hb. apply Hinj; now right.
  Qed.

  Lemma names_nodup e k m : props_of e = match k_properties k with Some l => l | None => [] end ->
    local_safe e (JObj m) -> NoDup (keys m) ->
    NoDup (map (fun kv => name_of k (fst kv)) (merged_members k m)).
  Proof.
    intros Ep (Hk & Hsrc & Hne & Hren) Hm. rewrite Ep in *.
    set (ps := match k_properties k with Some l => l | None => [] end) in *.
    assert (Efo : forall key, find_by_source_o (fun e => e) key (k_properties k) = find_by_source (fun e => e) key ps None).
    { intros key. unfold ps. destruct (k_properties k); reflexivity. }
    assert (Hmk : NoDup (keys (merged_members k m))).
    { unfold merged_members. apply nodup_dict_merge. unfold dict_of_pairs. apply nodup_dict_merge. constructor. }
    rewrite <- (map_map fst (name_of k)). apply NoDup_map_inj; [exact Hmk|].
    intros k1 k2 H1 H2 En. unfold name_of in En. rewrite !Efo in En.
    (* where a merged key comes from *)
    assert (Horigin : forall key, In key (keys (merged_members k m)) ->
              (exists n p, In (n, p) ps /\ p_source p = key) \/ In key (keys m)).
    { intros key Hin. unfold keys in Hin. apply in_map_iff in Hin as ([k0 ov] & E & Hin). cbn [fst] in E. subst k0.
      unfold merged_members in Hin. apply In_dict_merge' in Hin as [Hin|Hin].
      - left. unfold dict_of_pairs in Hin. apply In_dict_merge' in Hin as [[]|Hin].
        unfold placeholders in Hin. apply in_map_iff in Hin as ([n p] & E & Hin). inversion E; subst. clear E.
        fold ps in Hin. exists n, p. split; [exact Hin|]. cbn [snd fst].
        destruct (p_source p) eqn:Es; [exfalso; eapply Hne; eauto|reflexivity].
      - right. apply in_map_iff in Hin as ([k0 x] & E & Hin). inversion E; subst. unfold keys. apply in_map_iff. exists (key, x). auto. }
    destruct (find_by_source (fun e => e) k1 ps None) as [[[n1 r1] e1]|] eqn:E1;
      destruct (find_by_source (fun e => e) k2 ps None) as [[[n2 r2] e2]|] eqn:E2.
    - destruct (find_src_gen _ _ _ _ E1) as [?|(a & p1 & Hi1 & Hs1 & Ht1)]; [discriminate|].
      destruct (find_src_gen _ _ _ _ E2) as [?|(b & p2 & Hi2 & Hs2 & Ht2)]; [discriminate|].
      assert (Eab : a = b) by (inversion Ht1; inversion Ht2; congruence). subst b.
      pose proof (In_lookup _ _ _ Hk Hi1) as L1. pose proof (In_lookup _ _ _ Hk Hi2) as L2. congruence.
    - destruct (find_src_gen _ _ _ _ E1) as [?|(a & p1 & Hi1 & Hs1 & Ht1)]; [discriminate|].
      assert (Hak : a = k2) by (inversion Ht1; congruence).
      destruct (Horigin _ H2) as [(n & p & Hin & Hs2)|Hin].
      + destruct (find_src_some _ _ _ _ Hin Hs2 None) as (t & Et). congruence.
      + destruct (str_eq_dec a (p_source p1)) as [E|Hne2]; [congruence|].
        pose proof (Hren a p1 Hi1 Hne2) as Hf. unfold has_key in Hf.
        unfold keys in Hin. apply in_map_iff in Hin as ([k0 x] & E & Hin). cbn [fst] in E. subst k0.
        rewrite Hak in Hf. rewrite (In_lookup _ _ _ Hm Hin) in Hf. discriminate.
    - destruct (find_src_gen _ _ _ _ E2) as [?|(a & p2 & Hi2 & Hs2 & Ht2)]; [discriminate|].
      assert (Hak : a = k1) by (inversion Ht2; congruence).
      destruct (Horigin _ H1) as [(n & p & Hin & Hs1)|Hin].
      + destruct (find_src_some _ _ _ _ Hin Hs1 None) as (t & Et). congruence.
      + destruct (str_eq_dec a (p_source p2)) as [E|Hne2]; [congruence|].
        pose proof (Hren a p2 Hi2 Hne2) as Hf. unfold has_key in Hf.
        unfold keys in Hin. apply in_map_iff in Hin as ([k0 x] & E & Hin). cbn [fst] in E. subst k0.
        rewrite Hak in Hf. rewrite (In_lookup _ _ _ Hm Hin) in Hf. discriminate.
    - exact En.
  Qed.

  Lemma members_holds e k m kvs' : props_of e = match k_properties k with Some l => l | None => [] end ->
    Forall Pe (ksub k) -> jwf (JObj m) -> local_safe e (JObj m) ->
    (forall e' x, In e' (ksub k) -> (exists key, In (key, x) m) -> safe e' x) ->
    build_members O B k m = (VPass, kvs') ->
    forall key x, In (key, x) m -> exists name r', lookup name kvs' = Some r' /\ holds r' x.
  Proof.
    intros Ep IH Hw Hl Hs H key x Hin. apply jwf_obj in Hw as [Hnd Hvals].
    rewrite build_members_unfold in H.
    destruct (collect _) as [s rs] eqn:Ec. inversion H; subst. clear H.
    apply collect_pass in Ec.
    assert (Hnames : map fst rs = map (fun kv => name_of k (fst kv)) (merged_members k m)).
    { clear - Ec. remember (map (fun kv => member O B k (fst kv) (snd kv)) (merged_members k m)) as outs eqn:Eo.
      revert Eo. generalize (merged_members k m) as mm. induction Ec as [|ko kr outs rs [Ef _] _ IHc]; intros mm Eo.
      - destruct mm; [reflexivity|discriminate].
      - destruct mm as [|kv mm]; [discriminate|]. simpl in Eo. inversion Eo; subst. simpl. f_equal.
        + rewrite <- Ef. apply member_fst.
        + now apply IHc. }
    assert (Hrs : NoDup (keys rs)).
    { unfold keys. rewrite Hnames. eapply names_nodup; eauto. }
    assert (Hmem : In (key, Some x) (merged_members k m)).
    { apply lookup_In. apply supplied_wins; auto. now apply In_lookup. }
    assert (Hout : In (member O B k key (Some x)) (map (fun kv => member O B k (fst kv) (snd kv)) (merged_members k m))).
    { apply in_map_iff. exists (key, Some x). auto. }
    destruct (Forall2_In_l _ _ _ _ Ec Hout) as ([nm r'] & Hr & Ef & Es). cbn [fst snd] in *.
    exists nm, r'. split.
    - unfold dict_of_pairs. rewrite (dict_of_nodup rs Hrs). now apply In_lookup.
    - rewrite Forall_forall in Hvals.
      apply (member_holds k key x r' IH (Hvals _ Hin)); [|rewrite <- Es; reflexivity].
      intros e' He'. apply Hs; eauto.
  Qed.
End R.

Section T.
  Variable O : oracles.
  Notation B := (build O).

  Lemma map_elems_eq' {A} (f : elem -> A) es : map_elems f es = map f es.
  Proof. induction es; simpl; congruence. Qed.

  Theorem retrieve : forall e, Pe O e.
  Proof.
    apply (elem_ind' (Pe O)). intros e IH v r Hw Hs H.
    assert (Hls : forall m, v = JObj m -> local_safe e (JObj m)).
    { intros m ->. apply Hs; constructor. }
    assert (Hdown : forall c x, In c (children e) -> subval v x -> safe c x) by (intros; eapply safe_down; eauto).
    destruct e as [c k| |x d|m es d|n b k]; cbn [children] in *.
    - cbn [build with_default] in H.
      destruct (type_ok c v) eqn:Et; cbn [negb] in H; [|discriminate].
      destruct (vand _ _); try discriminate.
      destruct v as [|bb|z|f|s|l|mm].
      + destruct c; try discriminate Et; inversion H; constructor.
      + destruct c; try discriminate Et; inversion H; constructor.
      + destruct c; try discriminate Et; try (inversion H; constructor; fail).
        destruct (py_float_of_int z) eqn:Ef; [|discriminate]. inversion H. now constructor.
      + destruct c; try discriminate Et; inversion H; constructor.
      + destruct c; try discriminate Et; inversion H; constructor.
      + assert (Hb : match build_items B k l with
                     | (VPass, rs) => Ok (RList rs) | (VRej, _) => Rej | (VCrash x, _) => Crash x end = Ok r)
          by (destruct c; try discriminate Et; exact H).
        destruct (build_items B k l) as [[| |x] rs] eqn:Eb; try discriminate. inversion Hb; subst.
        constructor. eapply (items_holds O c k l rs IH Hw Hs Eb).
      + assert (Hb : match build_members O B k mm with
                     | (VPass, rs) => Ok (RAnon rs) | (VRej, _) => Rej | (VCrash x, _) => Crash x end = Ok r)
          by (destruct c; try discriminate Et; exact H).
        destruct (build_members O B k mm) as [[| |x] rs] eqn:Eb; try discriminate. inversion Hb; subst.
        constructor. eapply (members_holds O (EK c k) k mm rs eq_refl IH Hw (Hls mm eq_refl)); [|exact Eb].
        intros e' x He' (key & Hk). apply Hdown; [exact He'|]. eapply sv_obj; [exact Hk|constructor].
    - discriminate.
    - cbn [build with_default] in H. destruct (B x (Some v)); try discriminate. inversion H. now apply holds_raw.
    - cbn [build with_default] in H. rewrite map_elems_eq' in H.
      destruct (attempt_some _ _ _ H) as (o & Hin & Ho). apply in_map_iff in Hin as (ei & Eo & Hei). subst o.
      rewrite Forall_forall in IH. apply (IH ei Hei v r Hw); [|exact Ho]. apply Hdown; [exact Hei|constructor].
    - cbn [build with_default] in H. destruct v as [| | | | | |mm]; try discriminate.
      destruct (vand _ _); try discriminate.
      destruct (build_members O B k mm) as [[| |x] rs] eqn:Eb; try discriminate. inversion H; subst.
      constructor. eapply (members_holds O (EObj n b k) k mm rs eq_refl IH Hw (Hls mm eq_refl)); [|exact Eb].
      intros e' x He' (key & Hk). apply Hdown; [exact He'|]. eapply sv_obj; [exact Hk|constructor].
  Qed.
End T.

(* ---- the executable premise is sound ---- *)
Lemma subval_in v x : subval v x -> In x (subvals v).
Proof.
  induction 1 as [v|l x y Hin _ IH|m k x y Hin _ IH].
  - destruct v; simpl; now left.
  - cbn [subvals]. right. induction l as [|a l IHl]; [contradiction|]. rewrite in_app_iff.
    destruct Hin as [->|Hin]; [now left|right; auto].
  - cbn [subvals]. right. induction m as [|[k0 a] m IHm]; [contradiction|]. rewrite in_app_iff.
    destruct Hin as [E|Hin]; [inversion E; subst; now left|right; auto].
Qed.

Lemma local_safeb_sound e x : local_safeb e x = true -> local_safe e x.
Proof.
  unfold local_safeb, local_safe. destruct x; auto. intros H.
  apply andb_true_iff in H as [H H4]. apply andb_true_iff in H as [H H3]. apply andb_true_iff in H as [H1 H2].
  rewrite forallb_forall in H3, H4. repeat split.
  - now apply nodupb_sound.
  - now apply nodupb_sound.
  - intros n p Hin. specialize (H3 _ Hin). cbn [snd] in H3. destruct (p_source p); [discriminate|discriminate].
  - intros n p Hin Hne. specialize (H4 _ Hin). cbn [fst snd] in H4. apply orb_true_iff in H4 as [H4|H4].
    + apply str_eqb_eq in H4. congruence.
    + now apply negb_true_iff in H4.
Qed.

Theorem safeb_sound : forall fuel e v, safeb fuel e v = true -> safe e v.
Proof.
  induction fuel as [|n IH]; intros e v H; [discriminate|]. cbn [safeb] in H.
  apply andb_true_iff in H as [H1 H2]. rewrite forallb_forall in H1, H2.
  intros e' x Hd Hx. inversion Hd as [|? c ? Hc Hd']; subst.
  - apply local_safeb_sound. apply H1. now apply subval_in.
  - exact (IH c v (H2 c Hc) e' x Hd' Hx).
Qed.

Theorem retrieve_checked O fuel e v r : jwf v -> safeb fuel e v = true ->
  build O e (Some v) = Ok r -> holds r v.
Proof. intros Hw Hs H. exact (retrieve O e v r Hw (safeb_sound fuel e v Hs) H). Qed.

(* ---- C05: an omitted declared property is exposed, under its Python name, with what the call
   of its element with no value returns (its default on the terms of the no-value law) ---- *)
Section Expose.
  Variable O : oracles.
  Notation B := (build O).

  Theorem omitted_exposed e k m kvs' name p :
    props_of e = match k_properties k with Some l => l | None => [] end ->
    local_safe e (JObj m) -> NoDup (keys m) ->
    build_members O B k m = (VPass, kvs') ->
    In (name, p) (props_of e) -> lookup (p_source p) m = None ->
    map_matching_o (fun e' => B e' None) (fun pat => re_search O pat (p_source p)) (k_patternProperties k) = [] ->
    exists r, B (p_elem p) None = Ok r /\ lookup name kvs' = Some r.
  Proof.
    intros Ep Hl Hm H Hin Hlk Hpat. pose proof Hl as (Hk & Hsrc & Hne & Hren).
    destruct (k_properties k) as [ps|] eqn:Eps; [|rewrite Ep in Hin; contradiction].
    rewrite Ep in Hin, Hk, Hsrc, Hne, Hren.
    rewrite build_members_unfold in H.
    destruct (collect _) as [s rs] eqn:Ec. inversion H; subst. clear H.
    apply collect_pass in Ec.
    assert (Hnames : map fst rs = map (fun kv => name_of k (fst kv)) (merged_members k m)).
    { clear - Ec. remember (map (fun kv => member O B k (fst kv) (snd kv)) (merged_members k m)) as outs eqn:Eo.
      revert Eo. generalize (merged_members k m) as mm. induction Ec as [|ko kr outs rs [Ef _] _ IHc]; intros mm Eo.
      - destruct mm; [reflexivity|discriminate].
      - destruct mm as [|kv mm]; [discriminate|]. simpl in Eo. inversion Eo; subst. simpl. f_equal.
        + rewrite <- Ef. apply member_fst.
        + now apply IHc. }
    assert (Hrs : NoDup (keys rs)).
    { unfold keys. rewrite Hnames. apply (names_nodup e k m); auto. now rewrite Eps. }
    assert (Hmem : In (p_source p, @None json) (merged_members k m)).
    { apply lookup_In. eapply omitted_is_visited; eauto. }
    assert (Emem : member O B k (p_source p) None = (name, B (p_elem p) None)).
    { eapply member_declared; eauto. }
    assert (Hout : In (member O B k (p_source p) None) (map (fun kv => member O B k (fst kv) (snd kv)) (merged_members k m))).
    { apply in_map_iff. exists (p_source p, None). auto. }
    destruct (Forall2_In_l _ _ _ _ Ec Hout) as ([nm r] & Hr & Ef & Es). rewrite Emem in Ef, Es. cbn [fst snd] in *. subst nm.
    exists r. split; [exact Es|]. unfold dict_of_pairs. rewrite (dict_of_nodup rs Hrs). now apply In_lookup.
  Qed.
End Expose.
