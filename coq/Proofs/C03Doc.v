(* C03Doc.v — the document serialize_json emits for a tree with object classes: resolving its
   references gives the in-place document (C03Resolve), which accepts exactly what the tree
   accepts (C03Classes).  The executable premises of Model/ClsFrag.v are sound. *)
From Coq Require String. Import String.StringSyntax.
From Coq Require Import List Bool Lia ZArith.
From Statham.Model Require Import Str Json Elem Sub Validate Equality Tables Parser Plain Spec6 SerJson SerFrag Resolve RunSer ClsFrag.
From Statham.Proofs Require Import StrFacts JsonEqProof ElemInd C01Vm C01Items C01Plain C03Meaning C03Resolve C03Classes.
From Statham.Proofs Require C06Meaning.
Import ListNotations.
Local Open Scope string_scope.
Local Open Scope list_scope.
Arguments s_ : simpl never.

(* ---- strict structural equality decides equality ---- *)
Lemma sf_eqb_eq a b : sf_eqb a b = true -> a = b.
Proof.
  destruct a, b; simpl; try discriminate; intros H.
  - apply Bool.eqb_prop in H. now subst.
  - apply Bool.eqb_prop in H. now subst.
  - reflexivity.
  - apply andb_true_iff in H as [H H3]. apply andb_true_iff in H as [H1 H2].
    apply Bool.eqb_prop in H1. apply Pos.eqb_eq in H2. apply Z.eqb_eq in H3. now subst.
Qed.

Lemma json_eqb_eq : forall a b, json_eqb a b = true -> a = b.
Proof.
  fix IH 1. intros a b. destruct a as [|x|x|x|x|l1|k1], b as [|y|y|y|y|l2|k2]; simpl; try discriminate; intros H.
  - reflexivity.
  - apply Bool.eqb_prop in H. now subst.
  - apply Z.eqb_eq in H. now subst.
  - apply sf_eqb_eq in H. now subst.
  - apply str_eqb_eq in H. now subst.
  - f_equal. revert l2 H. induction l1 as [|x r IHl]; intros [|y r2] H; try discriminate; [reflexivity|].
    apply andb_true_iff in H as [H1 H2]. f_equal; [now apply IH|now apply IHl].
  - f_equal. revert k2 H. induction k1 as [|[kx x] r IHl]; intros [|[ky y] r2] H; try discriminate; [reflexivity|].
    apply andb_true_iff in H as [H H3]. apply andb_true_iff in H as [H1 H2].
    apply str_eqb_eq in H1. subst. f_equal; [f_equal; now apply IH|now apply IHl].
Qed.

(* ---- the node enumeration reaches every node ---- *)
Lemma nodes_sound : forall fuel e l, nodes fuel e = Some l -> forall y, reach e y -> In y l.
Proof.
  induction fuel as [|n IH]; intros e l H y Hr; [discriminate|]. cbn [nodes] in H.
  match type of H with match ?g with _ => _ end = _ => destruct g as [l0|] eqn:Eg; [|discriminate] end.
  inversion H; subst. clear H.
  inversion Hr as [|? x ? Hin Hxy]; subst; [now left|]. right.
  revert l0 Eg Hin. induction (children e) as [|c r IHc]; intros l0 Eg Hin; [contradiction|].
  destruct (nodes n c) as [a|] eqn:Ea; [|discriminate].
  match type of Eg with match ?g with _ => _ end = _ => destruct g as [b0|] eqn:Eb; [|discriminate] end.
  inversion Eg; subst. apply in_or_app. destruct Hin as [->|Hin].
  - left. eapply IH; eauto.
  - right. eapply IHc; eauto.
Qed.

Lemma nodes_below : forall fuel e l, nodes fuel e = Some l ->
  exists r, l = e :: r /\ forall x y, In x (children e) -> reach x y -> In y r.
Proof.
  intros [|n] e l H; [discriminate|]. cbn [nodes] in H.
  match type of H with match ?g with _ => _ end = _ => destruct g as [l0|] eqn:Eg; [|discriminate] end.
  inversion H; subst. clear H. exists l0. split; [reflexivity|].
  revert l0 Eg. induction (children e) as [|c r IHc]; intros l0 Eg x y Hin Hr; [contradiction|].
  destruct (nodes n c) as [a|] eqn:Ea; [|discriminate].
  match type of Eg with match ?g with _ => _ end = _ => destruct g as [b0|] eqn:Eb; [|discriminate] end.
  inversion Eg; subst. apply in_or_app. destruct Hin as [->|Hin].
  - left. eapply nodes_sound; eauto.
  - right. eapply IHc; eauto.
Qed.

Lemma defs_okb_sound dfs fuel e : defs_okb dfs fuel e = true -> defs_ok_below dfs e.
Proof.
  unfold defs_okb. destruct (nodes fuel e) as [l|] eqn:En; [|discriminate].
  destruct (nodes_below fuel e l En) as (r & -> & Hr). intros H x Hx n b k Hreach.
  rewrite forallb_forall in H. specialize (H _ (Hr x _ Hx Hreach)). cbn beta iota in H.
  destruct (lookup n dfs) as [j|]; [|discriminate]. apply json_eqb_eq in H. now subst.
Qed.

(* ---- the fragment checker ---- *)
Lemma cls_okb_sound k : cls_okb k = true ->
  local_g (fun _ => True) CElement k /\
  (forall r, In r (E_ k) ->
     forall np, In np (match k_properties k with Some l => l | None => [] end) -> p_source (snd np) = r ->
     elem_default (p_elem (snd np)) = None).
Proof.
  unfold cls_okb. intros H.
  repeat match type of H with _ && _ = true => let H2 := fresh "Hl" in apply andb_true_iff in H as [H H2] end.
  split.
  - unfold local_g. split; [unfold lclean; destruct (k_const k); auto|].
    split; [destruct (k_enum k); auto|].
    split; [apply C06Meaning.same_but_filter_element|].
    split; [intros; discriminate|]. split; [intros Hc; congruence|].
    split.
    { unfold props_okQ. destruct (k_properties k) as [l|]; [|exact I].
      apply andb_true_iff in Hl2 as [H1 H2]. split; [now apply nodupb_sound|].
      apply Forall_forall. intros np Hin. rewrite forallb_forall in H2. specialize (H2 _ Hin).
      split; [|exact I]. destruct (p_source (snd np)); [discriminate|discriminate]. }
    split; [unfold okeysb in Hl1; unfold okeys; destruct (k_patternProperties k); auto; now apply nodupb_sound|].
    unfold okeysb in Hl0; unfold okeys; destruct (k_dependencies k); auto; now apply nodupb_sound.
  - intros r Hr np Hin Es. unfold E_ in Hr. rewrite forallb_forall in Hl. specialize (Hl r Hr).
    rewrite forallb_forall in Hl. specialize (Hl np Hin). rewrite Es, str_eqb_refl in Hl. cbn [negb orb] in Hl.
    apply negb_true_iff in Hl. now apply elem_has_default_none.
Qed.

Lemma local_cb_sound e : local_cb e = true -> local_c e.
Proof.
  destruct e as [c k| |x d|m es d|n b k]; cbn [local_cb local_c]; try (intros; exact I).
  - apply local_dslb_sound.
  - destruct es; [discriminate|discriminate].
  - apply cls_okb_sound.
Qed.

Theorem cdslb_sound : forall fuel e, cdslb fuel e = true -> cdsl e.
Proof.
  induction fuel as [|n IH]; intros e H; [discriminate|]. cbn [cdslb] in H.
  apply andb_true_iff in H as [H1 H2]. constructor; [now apply local_cb_sound|].
  apply Forall_forall. intros x Hx. apply IH. rewrite forallb_forall in H2. auto.
Qed.

(* ---- the statement used by Properties/C03.v ---- *)
Lemma ser_doc_shape e classes body : C03Resolve.ser e = JObj body ->
  ser_doc [] e classes = doc_of body (class_defs classes).
Proof.
  intros Eb. unfold ser_doc, doc_of, class_defs. unfold C03Resolve.ser in Eb. rewrite Eb.
  cbn [map]. rewrite app_nil_r. reflexivity.
Qed.

Theorem doc_meaning_classes O e classes fuel :
  cdslb fuel e = true -> e <> ENothing -> defs_okb (class_defs classes) fuel e = true ->
  exists n0, forall n, n0 <= n ->
    exists R, resolve_doc n (ser_doc [] e classes) = Some R /\
              forall v, jwf v -> om (build O e (Some v)) (v6 O WCode R v).
Proof.
  intros Hc Hne Hd.
  assert (Hb : exists body, C03Resolve.ser e = JObj body).
  { destruct e; try (eexists; reflexivity). congruence. }
  destruct Hb as (body & Eb).
  destruct (resolve_doc_ser e body (class_defs classes) Eb (defs_okb_sound _ _ _ Hd)) as (n0 & H).
  exists n0. intros n Hn. exists (ser_inl e). split.
  - rewrite (ser_doc_shape e classes body Eb). exact (H n Hn).
  - exact (ser_inl_meaning O e (cdslb_sound fuel e Hc)).
Qed.
