(* TitlesProof.v — what the automatic title of a schema position is. *)
From Coq Require String. Import String.StringSyntax.
From Coq Require Import List NArith Bool Lia.
From Statham.Model Require Import Str Tables Titles.
From Statham.Proofs Require Import StrFacts.
Import ListNotations.
Local Open Scope string_scope.
Local Open Scope list_scope.

Section P.
  Variable isdigit : str -> bool.
  Notation title_rev := (title_rev isdigit).
  Notation transparent := (transparent isdigit).
  Notation suffix_of := (suffix_of isdigit).

  Lemma title_rev_transparent stem t back : transparent t = true ->
    title_rev stem (t :: back) = title_rev stem back ++ suffix_of t.
  Proof.
    unfold Titles.transparent, Titles.suffix_of. cbn [Titles.title_rev]. intros H.
    destruct (str_eqb t (s_ "items")); [reflexivity|].
    destruct (isdigit t); [reflexivity|].
    cbn [orb] in H. rewrite H. now rewrite app_nil_r.
  Qed.

  Lemma title_rev_opaque stem t back : transparent t = false -> title_rev stem (t :: back) = t.
  Proof.
    unfold Titles.transparent. cbn [Titles.title_rev]. intros H.
    apply orb_false_iff in H as [H H3]. apply orb_false_iff in H as [H1 H2].
    now rewrite H1, H2, H3.
  Qed.

  (* the general shape: the nearest segment that is not looked through (or the file stem when there is
     none), followed by what the looked-through segments after it append, outermost first *)
  Fixpoint suffixes (l : list str) : str :=     (* l last-first *)
    match l with [] => [] | t :: r => suffixes r ++ suffix_of t end.

  Lemma title_rev_shape stem thru : forallb transparent thru = true ->
    (forall t back, transparent t = false -> title_rev stem (thru ++ t :: back) = t ++ suffixes thru) /\
    title_rev stem thru = stem ++ suffixes thru.
  Proof.
    induction thru as [|x r IH]; cbn [forallb suffixes app]; intros H.
    - split; [intros t back Ht; rewrite app_nil_r; now apply title_rev_opaque|now rewrite app_nil_r].
    - apply andb_true_iff in H as [Hx Hr]. destruct (IH Hr) as [IH1 IH2]. split.
      + intros t back Ht. rewrite (title_rev_transparent _ _ _ Hx), (IH1 t back Ht). now rewrite app_assoc.
      + rewrite (title_rev_transparent _ _ _ Hx), IH2. now rewrite app_assoc.
  Qed.

  (* the title never depends on anything above the nearest opaque segment *)
  Lemma title_rev_local stem stem' thru t back back' : forallb transparent thru = true -> transparent t = false ->
    title_rev stem (thru ++ t :: back) = title_rev stem' (thru ++ t :: back').
  Proof.
    intros H Ht. destruct (title_rev_shape stem thru H) as [A _]. destruct (title_rev_shape stem' thru H) as [B _].
    now rewrite (A t back Ht), (B t back' Ht).
  Qed.

  (* a non-empty stem and non-empty segments give a non-empty title *)
  Lemma title_rev_nonempty stem rsegs : stem <> [] -> Forall (fun t => t <> []) rsegs -> title_rev stem rsegs <> [].
  Proof.
    intros Hs. induction 1 as [|t back Ht _ IH]; cbn [Titles.title_rev]; [exact Hs|].
    destruct (str_eqb t (s_ "items")).
    { intros E. apply app_eq_nil in E as [_ E]. discriminate E. }
    destruct (isdigit t).
    { intros E. apply app_eq_nil in E as [_ E]. now apply Ht. }
    destruct (mem_str t composition_keywords); [exact IH|exact Ht].
  Qed.
End P.
