(* JsonCong.v — the literal equality is a congruence for what validators do with literals:
   comparing a value with two equal literals gives the same answer (numbers by exact value,
   arrays item-wise, dicts order-insensitively), and equal numeric parameters order every number
   the same way. *)
From Coq Require Import Lia ZArith Floats.SpecFloat.
From Statham.Model Require Import Str Json Equality PyNum.
From Statham.Proofs Require Import StrFacts JsonInd DictFacts JsonEqProof.

Local Open Scope Z_scope.

(* ---- dyadic comparison ---- *)
Lemma dy_cmp_at (a b : dyadic) e0 : e0 <= Z.min (de a) (de b) ->
  dy_cmp a b = Z.compare (dm a * 2 ^ (de a - e0)) (dm b * 2 ^ (de b - e0)).
Proof.
  intros H. unfold dy_cmp. set (e := Z.min (de a) (de b)) in *.
  assert (Ha : de a - e0 = (de a - e) + (e - e0)) by lia.
  assert (Hb : de b - e0 = (de b - e) + (e - e0)) by lia.
  rewrite Ha, Hb. rewrite !Z.pow_add_r by lia. rewrite !Z.mul_assoc.
  apply Zmult_compare_compat_r. apply Z.lt_gt. apply Z.pow_pos_nonneg; lia.
Qed.

Lemma dy_cmp_cong a b c : dy_cmp b c = Eq -> dy_cmp a b = dy_cmp a c.
Proof.
  intros H. set (e0 := Z.min (de a) (Z.min (de b) (de c))).
  rewrite (dy_cmp_at b c e0) in H by (unfold e0; lia). apply Z.compare_eq in H.
  rewrite (dy_cmp_at a b e0), (dy_cmp_at a c e0) by (unfold e0; lia). now rewrite H.
Qed.

Lemma dy_cmp_cong_l a b c : dy_cmp a b = Eq -> dy_cmp a c = dy_cmp b c.
Proof.
  intros H. set (e0 := Z.min (de a) (Z.min (de b) (de c))).
  rewrite (dy_cmp_at a b e0) in H by (unfold e0; lia). apply Z.compare_eq in H.
  rewrite (dy_cmp_at a c e0), (dy_cmp_at b c e0) by (unfold e0; lia). now rewrite H.
Qed.

Local Close Scope Z_scope.

Lemma num_eqb_some a b : num_eqb a b = true -> exists x y, dy_of_num a = Some x /\ dy_of_num b = Some y /\ dy_cmp x y = Eq.
Proof.
  unfold num_eqb, num_cmp. destruct (dy_of_num a) as [x|], (dy_of_num b) as [y|]; try discriminate.
  destruct (dy_cmp x y) eqn:E; try discriminate. eauto.
Qed.

Lemma num_cmp_cong s p1 p2 : num_eqb p1 p2 = true -> num_cmp s p1 = num_cmp s p2.
Proof.
  intros H. destruct (num_eqb_some _ _ H) as (x & y & E1 & E2 & Ec).
  unfold num_cmp. rewrite E1, E2. destruct (dy_of_num s); [|reflexivity]. f_equal. now apply dy_cmp_cong.
Qed.

Lemma num_cmp_cong_l p1 p2 s : num_eqb p1 p2 = true -> num_cmp p1 s = num_cmp p2 s.
Proof.
  intros H. destruct (num_eqb_some _ _ H) as (x & y & E1 & E2 & Ec).
  unfold num_cmp. rewrite E1, E2. destruct (dy_of_num s); [|reflexivity]. f_equal. now apply dy_cmp_cong_l.
Qed.

Lemma num_eqb_cong s p1 p2 : num_eqb p1 p2 = true -> num_eqb s p1 = num_eqb s p2.
Proof. intros H. unfold num_eqb. now rewrite (num_cmp_cong s p1 p2 H). Qed.

Lemma cmp_holds_cong op s p1 p2 : num_eqb p1 p2 = true -> cmp_holds op s p1 = cmp_holds op s p2.
Proof. intros H. unfold cmp_holds. now rewrite (num_cmp_cong s p1 p2 H). Qed.

(* ---- the literal equality (bool-strict reading, the one element equality uses) ---- *)
Lemma js_num_of j : js_num j = match j with JInt z => Some (NZ z) | JFlt f => Some (NF f) | _ => None end.
Proof. destruct j; reflexivity. Qed.

Lemma js_eq_nums a b : js_num a <> None -> js_num b <> None ->
  js_eq a b = match js_num a, js_num b with Some x, Some y => num_eqb x y | _, _ => false end.
Proof. destruct a, b; simpl; intros Ha Hb; try congruence; reflexivity. Qed.

(* comparing any value with two equal literals gives the same answer *)
Theorem js_eq_cong : forall v, jwf v -> forall c1 c2, jwf c1 -> jwf c2 ->
  js_eq c1 c2 = true -> js_eq v c1 = js_eq v c2.
Proof.
  unfold js_eq.
  induction v using json_ind'; intros Hv c1 c2 H1 H2 He.
  - destruct c1, c2; simpl in *; try discriminate; reflexivity.
  - destruct c1, c2; simpl in *; try discriminate; try reflexivity.
    apply Bool.eqb_prop in He. now subst.
  - (* int *)
    destruct c1, c2; simpl in *; try discriminate; try reflexivity;
      apply num_eqb_cong; exact He.
  - destruct c1, c2; simpl in *; try discriminate; try reflexivity;
      apply num_eqb_cong; exact He.
  - destruct c1, c2; simpl in *; try discriminate; try reflexivity.
    apply str_eqb_eq in He. now subst.
  - (* arrays *)
    destruct c1 as [| | | | |l1|], c2 as [| | | | |l2|]; try (simpl in He; discriminate); try reflexivity.
    rewrite !jeq_arr in *. apply jwf_arr in Hv, H1, H2.
    revert l1 l2 H1 H2 He. induction H as [|x r Hx Hr IHl]; intros l1 l2 H1 H2 He.
    + destruct l1, l2; simpl in *; try discriminate; reflexivity.
    + destruct l1 as [|y1 l1], l2 as [|y2 l2]; simpl in *; try discriminate; try reflexivity.
      apply andb_true_iff in He as [He1 He2].
      inversion Hv; inversion H1; inversion H2; subst.
      rewrite (Hx ltac:(assumption) y1 y2) by assumption. f_equal. apply IHl; assumption.
  - (* dicts *)
    destruct c1 as [| | | | | |k1], c2 as [| | | | | |k2]; try (simpl in He; discriminate); try reflexivity.
    rewrite !jeq_obj in *. apply andb_true_iff in He as [Hlen Hsub].
    apply jwf_obj in Hv as [Hnv Hvv]. apply jwf_obj in H1 as [Hn1 Hv1]. apply jwf_obj in H2 as [Hn2 Hv2].
    apply PeanoNat.Nat.eqb_eq in Hlen. rewrite Hlen. f_equal.
    (* key by key *)
    assert (Hkeys : forall key, match lookup key k1, lookup key k2 with
                                | Some w1, Some w2 => jeq false w1 w2 = true /\ jwf w1 /\ jwf w2
                                | None, None => True
                                | _, _ => False end).
    { intros key. pose proof (proj1 (dsub_spec (jeq false) k1 k2) Hsub) as Hs.
      pose proof (keys_incl_of_dsub (jeq false) k1 k2 Hsub) as Hincl.
      assert (Hback : incl (keys k2) (keys k1)).
      { apply NoDup_length_incl; auto. unfold keys. rewrite !map_length. lia. }
      destruct (lookup key k1) as [w1|] eqn:E1.
      - apply lookup_In in E1. destruct (Hs key w1 E1) as (w2 & E2 & Hq). rewrite E2. split; [exact Hq|].
        rewrite Forall_forall in Hv1, Hv2. split; [exact (Hv1 _ E1)|]. apply lookup_In in E2. exact (Hv2 _ E2).
      - destruct (lookup key k2) as [w2|] eqn:E2; [|exact I].
        apply lookup_None in E1. apply E1, Hback. apply lookup_In in E2. unfold keys. apply in_map_iff. exists (key, w2). auto. }
    clear Hsub Hlen. induction H as [|[key x] r Hx Hr IHr]; [reflexivity|]. cbn [dsub].
    inversion Hvv as [|? ? Hxw Hrw]; subst. inversion Hnv; subst.
    specialize (Hkeys key). destruct (lookup key k1) as [w1|], (lookup key k2) as [w2|]; try contradiction; [|reflexivity].
    destruct Hkeys as (Hq & Hw1 & Hw2). cbn [snd] in Hx.
    rewrite (Hx Hxw w1 w2 Hw1 Hw2 Hq). f_equal. apply IHr; auto.
Qed.
