(* C07Ser.v — the JSON serializer writes the element's default and description back, unchanged:
   for every element other than Nothing() (which has no keyword at all), any caller definitions. *)
From Coq Require String. Import String.StringSyntax.
From Statham.Model Require Import Str Json Elem Equality Validate SerJson.
From Statham.Proofs Require Import StrFacts C03Lookup.
Local Open Scope string_scope.
Arguments s_ : simpl never.

Lemma tail_type c : forall key, In key (keys (json_type c)) -> key = s_ "type" \/ key = s_ "title".
Proof. destruct c; simpl; intuition. Qed.

Lemma tail_obj n : forall key, In key (keys [(s_ "type", JStr (s_ "object")); (s_ "title", JStr n)]) ->
  key = s_ "type" \/ key = s_ "title".
Proof. simpl; intuition. Qed.

Definition elem_description (e : elem) : option str :=
  match e with EK _ k | EObj _ _ k => k_description k | _ => None end.

Theorem ser_keeps_default defs e : e <> ENothing ->
  match ser_top true true defs e with
  | JObj kvs => lookup (s_ "default") kvs = elem_default e
  | _ => False
  end.
Proof.
  intros Hn. destruct e as [c k| |x d|m es d|n b k]; cbn [ser_top elem_default]; try congruence.
  - apply lk_default. apply tail_type.
  - destruct d; cbn [app lookup];
      repeat match goal with |- context [str_eqb (s_ ?a) (s_ ?b)] =>
               let r := eval vm_compute in (str_eqb (s_ a) (s_ b)) in change (str_eqb (s_ a) (s_ b)) with r end; reflexivity.
  - destruct d, m; unfold mode_key; cbn [app lookup];
      repeat match goal with |- context [str_eqb (s_ ?a) (s_ ?b)] =>
               let r := eval vm_compute in (str_eqb (s_ a) (s_ b)) in change (str_eqb (s_ a) (s_ b)) with r end; reflexivity.
  - apply lk_default. apply tail_obj.
Qed.

Theorem ser_keeps_description defs e :
  match ser_top true true defs e with
  | JObj kvs => lookup (s_ "description") kvs = option_map JStr (elem_description e)
  | _ => e = ENothing
  end.
Proof.
  destruct e as [c k| |x d|m es d|n b k]; cbn [ser_top elem_description option_map]; try reflexivity.
  - apply lk_description. apply tail_type.
  - destruct d; cbn [app lookup];
      repeat match goal with |- context [str_eqb (s_ ?a) (s_ ?b)] =>
               let r := eval vm_compute in (str_eqb (s_ a) (s_ b)) in change (str_eqb (s_ a) (s_ b)) with r end; reflexivity.
  - destruct d, m; unfold mode_key; cbn [app lookup];
      repeat match goal with |- context [str_eqb (s_ ?a) (s_ ?b)] =>
               let r := eval vm_compute in (str_eqb (s_ a) (s_ b)) in change (str_eqb (s_ a) (s_ b)) with r end; reflexivity.
  - apply lk_description. apply tail_obj.
Qed.
