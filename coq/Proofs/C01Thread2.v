(* C01Thread2.v — the validity theorem with object classes AND revisited schema objects: the
   induction of C01Thread.v over walk2 (C01Plain2.v).  A schema object met again is the same JSON
   the parser has already turned into an element; by ParseReplay.replay the parser returns that very
   element and leaves the state alone, so the element still decides the schema.  This covers the
   shape every $ref-sharing document takes after resolution: one definition used in several places. *)
From Coq Require String. Import String.StringSyntax.
From Coq Require Import Lia Btauto.
From Statham.Model Require Import Str Json Elem Equality Names PyNum Validate Tables Parser Spec6 Plain Plain2.
From Statham.Proofs Require Import StrFacts JsonEqProof MetaProof DefaultsProof ParserFacts Agree_tables
     C01Vm C01Scalar C01Items C01Object C01Deep C01Plain C01Default C01Element C01Parse C01Thread C01Plain2 ParseReplay.
Local Open Scope string_scope.
Arguments s_ : simpl never.

Lemma refl_down a b : ext a b -> refl_state b -> refl_state a.
Proof.
  intros He Hr name x Hx. destruct (He name) as (tl & E). apply (Hr name). rewrite E. apply in_or_app. now left.
Qed.

Section Thr2.
  Variable cfg : pcfg.
  Variable O : oracles.
  Notation w := WCode.
  Notation F := (v6 O WCode).
  Notation B := (build O).
  Notation sim := (sim O WCode).
  Notation P := (parse_element cfg).

  Lemma RP x : R (P x).
  Proof. exact (parse_R cfg (jsize x) x (le_n _)). Qed.

  (* names bound in the state are recorded; every recorded schema object has been parsed, in a state
     the current one extends, into an element that decides it *)
  Definition Inv2 (st : pstate) (u : thread) : Prop :=
    (forall n, lookup n st <> None -> In n (fst u)) /\
    (forall S0, In S0 (snd u) -> exists e s0 s1, P S0 s0 = POk (e, s1) /\ ext s1 st /\ sim e S0).

  Lemma Inv2_ext st st' u : Inv2 st u -> ext st st' -> (forall n, lookup n st' <> None -> In n (fst u)) -> Inv2 st' u.
  Proof.
    intros [_ H2] He H1. split; [exact H1|]. intros S0 Hs. destruct (H2 S0 Hs) as (e & s0 & s1 & Hp & Hx & Hsim).
    exists e, s0, s1. split; [exact Hp|split; [eapply ext_trans; eauto|exact Hsim]].
  Qed.

  Lemma dedupe_fresh2 cls st e st' u : Inv2 st u -> ~ In (obj_name cls) (fst u) ->
    dedupe cls st = POk (e, st') -> e = cls /\ Inv2 st' (obj_name cls :: fst u, snd u).
  Proof.
    intros Hi Hn H. pose proof (proj1 (R_dedupe cls st e st' H)) as Hext.
    destruct Hi as [Hi1 Hi2].
    destruct (dedupe_fresh cls st e st' (fst u) Hi1 Hn H) as [-> Hi1'].
    split; [reflexivity|]. split; [exact Hi1'|].
    intros S0 Hs. destruct (Hi2 S0 Hs) as (e & s0 & s1 & Hp & Hx & Hsim).
    exists e, s0, s1. split; [exact Hp|split; [eapply ext_trans; eauto|exact Hsim]].
  Qed.

  Definition IHt2 (S0 : json) : Prop :=
    forall u u' st e st', walk2 cfg u S0 u' -> Inv2 st u -> P S0 st = POk (e, st') -> refl_state st' ->
    sim e S0 /\ Inv2 st' u'.

  Lemma walks_nil_inv u u' : walks2 cfg u [] u' -> u' = u.
  Proof. apply walks2_nil_inv. Qed.
  Lemma walks_one_inv u x u' : walks2 cfg u [x] u' -> walk2 cfg u x u'.
  Proof. apply walks2_one_inv. Qed.
  Lemma walk_leaf_inv u S0 u' : (match S0 with JObj _ => False | _ => True end) -> walk2 cfg u S0 u' -> u' = u.
  Proof. apply walk2_leaf_inv. Qed.

  Lemma parse_list_thr l : Forall IHt2 l -> forall u u' st es st',
    walks2 cfg u l u' -> Inv2 st u -> parse_list P l st = POk (es, st') -> refl_state st' ->
    Forall2 sim es l /\ Inv2 st' u'.
  Proof.
    induction 1 as [|x r Hx Hr IH]; intros u u' st es st' Hw Hi H Hrf; cbn [parse_list] in H.
    - apply ret_inv in H as [<- <-]. apply walks_nil_inv in Hw. subst. split; [constructor|exact Hi].
    - inversion Hw as [|? ? u1 ? ? Hwx Hwr]; subst.
      apply bind_inv in H as (e & s1 & He & H). apply bind_inv in H as (es' & s2 & Hes & H).
      apply ret_inv in H as [<- <-].
      assert (Hr1 : refl_state s1).
      { eapply refl_down; [|exact Hrf]. exact (proj1 (R_parse_list P r (proj2 (Forall_forall _ _) (fun y _ => RP y)) _ _ _ Hes)). }
      destruct (Hx _ _ _ _ _ Hwx Hi He Hr1) as [Hs Hi1].
      destruct (IH _ _ _ _ _ Hwr Hi1 Hes Hrf) as [Hss Hi2]. split; [constructor; auto|exact Hi2].
  Qed.

  Definition arel (ke : str * elem) (kv : str * json) : Prop :=
    fst ke = fst kv /\ sim (snd ke) (snd kv) /\ exists s1 s2, P (snd kv) s1 = POk (snd ke, s2).

  Lemma parse_assoc_thr kvs : Forall (fun kv => is_schema (snd kv) = true -> IHt2 (snd kv)) kvs ->
    forall u u' st es st',
    walks2 cfg u (filter is_schema (map snd kvs)) u' -> Inv2 st u ->
    parse_assoc P kvs st = POk (es, st') -> refl_state st' ->
    Forall2 arel es (filter (fun kv => is_schema (snd kv)) kvs) /\ Inv2 st' u'.
  Proof.
    induction 1 as [|[k v] r Hx Hr IH]; intros u u' st es st' Hw Hi H Hrf; cbn [parse_assoc] in H.
    - apply ret_inv in H as [<- <-]. apply walks_nil_inv in Hw. subst. split; [constructor|exact Hi].
    - cbn [map filter snd] in *. destruct (is_schema v) eqn:Es.
      + inversion Hw as [|? ? u1 ? ? Hwx Hwr]; subst.
        apply bind_inv in H as (e & s1 & He & H). apply bind_inv in H as (es' & s2 & Hes & H).
        apply ret_inv in H as [<- <-].
        assert (Hr1 : refl_state s1).
        { eapply refl_down; [|exact Hrf].
          exact (proj1 (R_parse_assoc P r (proj2 (Forall_forall _ _) (fun y _ => RP (snd y))) _ _ _ Hes)). }
        destruct (Hx eq_refl _ _ _ _ _ Hwx Hi He Hr1) as [Hs Hi1].
        destruct (IH _ _ _ _ _ Hwr Hi1 Hes Hrf) as [Hss Hi2].
        split; [constructor; [repeat split; eauto|exact Hss]|exact Hi2].
      + eauto.
  Qed.

  Lemma arel_sim_assoc es kvs : Forall2 arel es kvs -> sim_assoc O WCode es kvs.
  Proof. induction 1 as [|? ? ? ? (E & Hs & _) _ IH]; constructor; auto. Qed.
  (* ---- one lemma per keyword position ---- *)
  Lemma items_thr kvs u u' st it st' :
    Forall IHt2 (match lookup (s_ "items") kvs with Some (JArr l) => l | Some s => [s] | None => [] end) ->
    walks2 cfg u (match lookup (s_ "items") kvs with Some (JArr l) => l | Some s => [s] | None => [] end) u' ->
    Inv2 st u ->
    with_key (parse_items P) (s_ "items") kvs (ret None) st = POk (it, st') -> refl_state st' ->
    sim_items O WCode it (lookup (s_ "items") kvs) /\ Inv2 st' u'.
  Proof.
    intros HI Hw Hi H Hrf. rewrite with_key_lookup in H. unfold sim_items.
    destruct (lookup (s_ "items") kvs) as [Si|].
    2:{ apply ret_inv in H as [<- <-]. apply walks_nil_inv in Hw. subst. split; [reflexivity|exact Hi]. }
    unfold parse_items in H.
    destruct Si as [| | | | |l|];
      try (apply bind_inv in H as (e & s1 & He & H); apply ret_inv in H as [<- <-];
           inversion HI as [|? ? Hx _]; subst; apply walks_one_inv in Hw;
           destruct (Hx _ _ _ _ _ Hw Hi He Hrf) as [Hs Hi1]; split; [eexists; split; [reflexivity|exact Hs]|exact Hi1]).
    apply bind_inv in H as (es & s1 & Hes & H). apply ret_inv in H as [<- <-].
    destruct (parse_list_thr l HI _ _ _ _ _ Hw Hi Hes Hrf) as [Hs Hi1].
    split; [eexists; split; [reflexivity|exact Hs]|exact Hi1].
  Qed.

  Lemma addl_thr key kvs u u' st a st' :
    Forall IHt2 (opt_list (lookup key kvs)) -> walks2 cfg u (opt_list (lookup key kvs)) u' -> Inv2 st u ->
    with_key (parse_addl P) key kvs (ret (AddBool true)) st = POk (a, st') -> refl_state st' ->
    sim_addl O WCode a (lookup key kvs) /\ Inv2 st' u'.
  Proof.
    intros HI Hw Hi H Hrf. rewrite with_key_lookup in H. unfold sim_addl.
    destruct (lookup key kvs) as [Sa|].
    2:{ apply ret_inv in H as [<- <-]. apply walks_nil_inv in Hw. subst. split; [reflexivity|exact Hi]. }
    unfold parse_addl in H. cbn [opt_list] in *. inversion HI as [|? ? Hx _]; subst. apply walks_one_inv in Hw.
    destruct Sa as [|b| | | | |];
      try (apply bind_inv in H as (e & s1 & He & H); apply ret_inv in H as [<- <-];
           destruct (Hx _ _ _ _ _ Hw Hi He Hrf) as [Hs Hi1]; split; [eexists; split; [reflexivity|exact Hs]|exact Hi1]).
    apply ret_inv in H as [<- <-]. apply walk_leaf_inv in Hw; [|exact I]. subst. split; [now left|exact Hi].
  Qed.

  Lemma some_thr key kvs u u' st oe st' :
    Forall IHt2 (opt_list (lookup key kvs)) -> walks2 cfg u (opt_list (lookup key kvs)) u' -> Inv2 st u ->
    with_key (parse_some P) key kvs (ret None) st = POk (oe, st') -> refl_state st' ->
    sim_opt O WCode oe (lookup key kvs) /\ Inv2 st' u'.
  Proof.
    intros HI Hw Hi H Hrf. rewrite with_key_lookup in H. unfold sim_opt.
    destruct (lookup key kvs) as [Sa|].
    2:{ apply ret_inv in H as [<- <-]. apply walks_nil_inv in Hw. subst. split; [reflexivity|exact Hi]. }
    unfold parse_some in H. cbn [opt_list] in *. inversion HI as [|? ? Hx _]; subst. apply walks_one_inv in Hw.
    apply bind_inv in H as (e & s1 & He & H). apply ret_inv in H as [<- <-].
    destruct (Hx _ _ _ _ _ Hw Hi He Hrf) as [Hs Hi1]. split; [eexists; split; [reflexivity|exact Hs]|exact Hi1].
  Qed.

  Lemma filter_schema_vals (p : list (str * json)) : Forall (fun kv => is_schema (snd kv) = true) p ->
    filter is_schema (map snd p) = map snd p /\ filter (fun kv => is_schema (snd kv)) p = p.
  Proof.
    induction 1 as [|[k v] r Hx Hr [IH1 IH2]]; [split; reflexivity|]. cbn [map filter snd] in *.
    rewrite Hx, IH1, IH2. split; reflexivity.
  Qed.

  Lemma pats_thr kvs u u' st pats st' :
    dict_ok true (lookup (s_ "patternProperties") kvs) ->
    Forall IHt2 (obj_vals (lookup (s_ "patternProperties") kvs)) ->
    walks2 cfg u (obj_vals (lookup (s_ "patternProperties") kvs)) u' -> Inv2 st u ->
    with_key (parse_pats P) (s_ "patternProperties") kvs (ret None) st = POk (pats, st') -> refl_state st' ->
    pats_rel O WCode kvs pats /\ Inv2 st' u'.
  Proof.
    intros Hok HI Hw Hi H Hrf. rewrite with_key_lookup in H. unfold pats_rel.
    destruct (lookup (s_ "patternProperties") kvs) as [Sp|].
    2:{ apply ret_inv in H as [<- <-]. apply walks_nil_inv in Hw. subst. split; [reflexivity|exact Hi]. }
    unfold parse_pats in H. destruct Sp as [| | | | | |pp]; try (exfalso; eapply fail_inv; exact H).
    apply bind_inv in H as (es & s1 & Hes & H). apply ret_inv in H as [<- <-].
    cbn [dict_ok obj_vals] in *. destruct Hok as [Hnd Hall].
    destruct (filter_schema_vals pp (Hall eq_refl)) as [E1 E2].
    rewrite <- E1 in Hw.
    destruct (parse_assoc_thr pp (Forall_obj_vals _ _ HI) _ _ _ _ _ Hw Hi Hes Hrf) as [Hs Hi1].
    rewrite E2 in Hs. apply arel_sim_assoc in Hs.
    split; [|exact Hi1]. exists es. split; [|exact Hs]. f_equal. unfold dict_of_pairs. apply dict_of_nodup.
    rewrite (sim_assoc_keys O WCode _ _ Hs). exact Hnd.
  Qed.

  Lemma deps_thr kvs u u' st deps st' :
    dict_ok false (lookup (s_ "dependencies") kvs) ->
    Forall IHt2 (filter is_schema (obj_vals (lookup (s_ "dependencies") kvs))) ->
    walks2 cfg u (filter is_schema (obj_vals (lookup (s_ "dependencies") kvs))) u' -> Inv2 st u ->
    with_key (parse_deps P) (s_ "dependencies") kvs (ret None) st = POk (deps, st') -> refl_state st' ->
    deps_rel O WCode kvs deps /\ Inv2 st' u'.
  Proof.
    intros Hok HI Hw Hi H Hrf.
    cut (deps_parsed O WCode kvs deps /\ Inv2 st' u'); [intros [Hd Hi']; split; [now apply deps_parsed_rel|exact Hi']|].
    rewrite with_key_lookup in H. unfold deps_parsed.
    destruct (lookup (s_ "dependencies") kvs) as [Sp|].
    2:{ apply ret_inv in H as [<- <-]. apply walks_nil_inv in Hw. subst. split; [reflexivity|exact Hi]. }
    unfold parse_deps in H. destruct Sp as [| | | | | |dd]; try (exfalso; eapply fail_inv; exact H).
    apply bind_inv in H as (es & s1 & Hes & H). apply ret_inv in H as [<- <-].
    cbn [dict_ok obj_vals] in *. destruct Hok as [Hnd _].
    destruct (parse_assoc_thr dd (Forall_filter_vals _ _ HI) _ _ _ _ _ Hw Hi Hes Hrf) as [Hs Hi1].
    apply arel_sim_assoc in Hs.
    split; [|exact Hi1]. split; [exact Hnd|]. exists es. split; [reflexivity|exact Hs].
  Qed.

  (* properties: also the concrete shape of the parsed _PropertyDict and, for schemas without
     composition keywords, whether the property's element has a default *)
  Definition props_struct0 (kvs : list (str * json)) (props : option (list (str * prop elem))) : Prop :=
    match lookup (s_ "properties") kvs with
    | None => props = None
    | Some (JObj pkvs) =>
      NoDup (keys pkvs) /\
      exists es, props = Some (map (fun ke : str * elem =>
                                     (attr cfg (fst ke), mkProp (snd ke) (mem_str (fst ke) (req_names kvs)) (fst ke))) es) /\
                 Forall2 (fun (ke : str * elem) (kv : str * json) =>
                            fst ke = fst kv /\
                            (nocomp (snd kv) -> (elem_default (snd ke) = None <-> schema_has_default (snd kv) = false)))
                         es pkvs
    | Some _ => False
    end.

  Lemma props_thr kvs u u' st props st' :
    dict_ok true (lookup (s_ "properties") kvs) ->
    (match lookup (s_ "properties") kvs with Some (JObj p) => NoDup (map (attr cfg) (keys p)) | _ => True end) ->
    Forall IHt2 (obj_vals (lookup (s_ "properties") kvs)) ->
    walks2 cfg u (obj_vals (lookup (s_ "properties") kvs)) u' -> Inv2 st u ->
    with_key (parse_props P (attr cfg) (req_names kvs)) (s_ "properties") kvs (ret None) st = POk (props, st') -> refl_state st' ->
    props_rel O WCode kvs props /\
    (forall r, In r (match props with Some ps => props_required ps | None => [] end) -> In r (req_names kvs)) /\
    props_struct0 kvs props /\ Inv2 st' u'.
  Proof.
    intros Hok Hattr HI Hw Hi H Hrf. rewrite with_key_lookup in H. unfold props_rel, props_struct0.
    destruct (lookup (s_ "properties") kvs) as [Sp|].
    2:{ apply ret_inv in H as [<- <-]. apply walks_nil_inv in Hw. subst.
        split; [intros key; reflexivity|split; [intros r []|split; [reflexivity|exact Hi]]]. }
    unfold parse_props in H. destruct Sp as [| | | | | |pkvs]; try (exfalso; eapply fail_inv; exact H).
    apply bind_inv in H as (es & s1 & Hes & H). apply ret_inv in H as [<- <-].
    cbn [dict_ok obj_vals] in *. destruct Hok as [Hnd Hall].
    destruct (filter_schema_vals pkvs (Hall eq_refl)) as [E1 E2].
    rewrite <- E1 in Hw.
    destruct (parse_assoc_thr pkvs (Forall_obj_vals _ _ HI) _ _ _ _ _ Hw Hi Hes Hrf) as [Ha Hi1].
    rewrite E2 in Ha. pose proof (arel_sim_assoc _ _ Ha) as Hs.
    set (reqs := req_names kvs) in *.
    set (ps := map (fun ke : str * elem => (attr cfg (fst ke), mkProp (snd ke) (mem_str (fst ke) reqs) (fst ke))) es).
    assert (Ekeys : keys ps = map (attr cfg) (keys pkvs)).
    { rewrite <- (sim_assoc_keys O WCode _ _ Hs). unfold ps, keys. rewrite !map_map. reflexivity. }
    assert (Esrc : map (fun np : str * prop elem => p_source (snd np)) ps = keys pkvs).
    { rewrite <- (sim_assoc_keys O WCode _ _ Hs). unfold ps, keys. rewrite !map_map. reflexivity. }
    assert (Edict : dict_of_pairs ps = ps).
    { unfold dict_of_pairs. apply dict_of_nodup. now rewrite Ekeys. }
    rewrite Edict. split; [|split; [|split; [split|]]].
    - intros key. cbn [find_by_source_o].
      destruct (lookup key pkvs) as [Sx|] eqn:El.
      + apply lookup_In in El.
        destruct (Forall2_In_r _ _ _ _ Hs El) as ([k' e] & Hin & Ek & He). cbn [fst snd] in *. subst k'.
        exists (attr cfg key), (mem_str key reqs), e. split; [|exact He].
        assert (Hp : In (attr cfg key, mkProp e (mem_str key reqs) key) ps).
        { unfold ps. apply in_map_iff. exists (key, e). auto. }
        apply (find_by_source_unique (fun e => e) ps (eq_ind_r (fun l => NoDup l) Hnd Esrc) _ _ None Hp).
      + apply find_by_source_skip. rewrite Esrc. now apply lookup_None.
    - intros r Hr. unfold props_required in Hr. apply in_map_iff in Hr as ([n p] & <- & Hf).
      apply filter_In in Hf as [Hin Hc]. cbn [snd] in *. apply andb_true_iff in Hc as [Hc _].
      unfold ps in Hin. apply in_map_iff in Hin as ([k' e] & E & _). inversion E; subst. cbn [p_source p_required] in *.
      now apply mem_str_In.
    - exact Hnd.
    - exists es. split; [reflexivity|].
      clear - Ha. induction Ha as [|ke kv es pk (E & _ & s1 & s2 & Hp) _ IH]; constructor; [|exact IH].
      split; [exact E|]. intros Hn. eapply parse_default_status; eauto.
    - exact Hi1.
  Qed.

  (* ---- every stage of parse_element only extends the state (ParseReplay, with no size bound) ---- *)
  Definition big (j : json) : json := JArr [j; j].
  Lemma jsize_big j : jsize j < jsize (big j).
  Proof. unfold big. cbn [jsize]. pose proof (jsize_pos j). lia. Qed.
  Lemma Rw {A} (f : json -> M A) key kvs (d : M A) : (forall v, R (f v)) -> R d -> R (with_key f key kvs d).
  Proof. intros Hf Hd. apply R_with_key; auto. Qed.
  Lemma Rf_props a r j : R (parse_props P a r j).
  Proof. exact (R_props P (big j) (fun x _ => RP x) a r j (jsize_big j)). Qed.
  Lemma Rf_items j : R (parse_items P j).
  Proof. exact (R_items P (big j) (fun x _ => RP x) j (jsize_big j)). Qed.
  Lemma Rf_pats j : R (parse_pats P j).
  Proof. exact (R_pats P (big j) (fun x _ => RP x) j (jsize_big j)). Qed.
  Lemma Rf_some j : R (parse_some P j).
  Proof. exact (R_some P (big j) (fun x _ => RP x) j (jsize_big j)). Qed.
  Lemma Rf_deps j : R (parse_deps P j).
  Proof. exact (R_deps P (big j) (fun x _ => RP x) j (jsize_big j)). Qed.
  Lemma Rf_addl j : R (parse_addl P j).
  Proof. exact (R_addl P (big j) (fun x _ => RP x) j (jsize_big j)). Qed.
  Lemma Rf_comp j : R (parse_comp_list P j).
  Proof. exact (R_comp_list P (big j) (fun x _ => RP x) j (jsize_big j)). Qed.
  Lemma Rf_not j : R (parse_not P j).
  Proof. exact (R_not P (big j) (fun x _ => RP x) j (jsize_big j)). Qed.

  Lemma parse_keys_thr kvs ks :
    (forall key, In key ks -> Forall IHt2 (arr_list (lookup key kvs))) ->
    forall u u' st parsed st',
    walks2 cfg u (flat_map (fun key => arr_list (lookup key kvs)) ks) u' -> Inv2 st u ->
    parse_keys (fun key => with_key (parse_comp_list P) key kvs (ret [])) ks st = POk (parsed, st') -> refl_state st' ->
    Inv2 st' u' /\ forall key, In key ks -> comp_rel O WCode kvs key parsed.
  Proof.
    induction ks as [|k0 r IH]; intros HI u u' st parsed st' Hw Hi H Hrf; cbn [parse_keys flat_map] in *.
    - apply ret_inv in H as [<- <-]. apply walks_nil_inv in Hw. subst. split; [exact Hi|intros key []].
    - apply (walks2_app cfg) in Hw as (u1 & Hw1 & Hw2).
      apply bind_inv in H as (es & s1 & Hsub & H). apply bind_inv in H as (rest & s2 & Hrest & H).
      apply ret_inv in H as [<- <-].
      assert (Hr1 : refl_state s1).
      { eapply refl_down; [|exact Hrf]. refine (proj1 (R_parse_keys _ r _ _ _ _ Hrest)).
        intros key. apply Rw; [intros v; apply Rf_comp|apply R_ret]. }
      assert (Hstep : Inv2 s1 u1 /\ match lookup k0 kvs with
                                    | None => es = []
                                    | Some (JArr l) => Forall2 sim es l
                                    | Some _ => False end).
      { rewrite with_key_lookup in Hsub. pose proof (HI k0 (or_introl eq_refl)) as HI0.
        destruct (lookup k0 kvs) as [Sl|].
        - unfold parse_comp_list in Hsub. destruct Sl; try (exfalso; eapply fail_inv; exact Hsub).
          cbn [arr_list] in *. destruct (parse_list_thr _ HI0 _ _ _ _ _ Hw1 Hi Hsub Hr1) as [Hs Hi1]. split; auto.
        - apply ret_inv in Hsub as [<- <-]. cbn [arr_list] in Hw1. apply walks_nil_inv in Hw1. subst. split; auto. }
      destruct Hstep as [Hi1 Hrel0].
      destruct (IH (fun key Hk => HI key (or_intror Hk)) _ _ _ _ _ Hw2 Hi1 Hrest Hrf) as [Hi2 Hrel].
      split; [exact Hi2|]. intros key Hin. unfold comp_rel, ofk. cbn [lookup].
      destruct (str_eqb_spec key k0) as [->|Hne]; [exact Hrel0|].
      destruct Hin as [E|Hin]; [congruence|]. exact (Hrel key Hin).
  Qed.

  Hypothesis Hcfg : comp_exact cfg.

  Theorem parse_sim_obj2 : forall S0, plain cfg true S0 -> IHt2 S0.
  Proof.
    apply (plain_ind' cfg true IHt2).
    - (* booleans *)
      intros b u u' st e st' Hw Hi H Hrf. apply walk_leaf_inv in Hw; [|exact I]. subst u'.
      destruct b; cbn [parse_element] in H; apply ret_inv in H as [<- <-]; (split; [|exact Hi]).
      + apply sim_element. reflexivity.
      + intros v _. reflexivity.
    - intros kvs Hnode _ IH u u' st e st' Hw Hi H Hrf.
      pose proof (parse_extends cfg _ _ _ _ H) as Xall.
      (* a schema object met again: the parser returns the element it built the first time *)
      assert (Hcases : (In (JObj kvs) (snd u) /\ u' = u) \/
                exists u1 u2 uend, walks2 cfg u (pre_list kvs) u1 /\ own_step2 kvs u1 u2 /\
                  (if has_comp kvs
                   then exists u3, walks2 cfg u2 (comp_lists cfg kvs) u3 /\ walks2 cfg u3 (opt_list (lookup (s_ "not") kvs)) uend
                   else uend = u2) /\ u' = record kvs uend).
      { inversion Hw as [? ? Hl|? ? Hin|? ? u1 u2 Hc Hpre Hown|? ? u1 u2 u3 u4 Hc Hpre Hown Hcl Hnot]; subst; [contradiction| | |].
        - left. auto.
        - right. exists u1, u2, u2. rewrite Hc. split; [exact Hpre|split; [exact Hown|split; reflexivity]].
        - right. exists u1, u2, u4. rewrite Hc.
          split; [exact Hpre|split; [exact Hown|split; [exists u3; split; assumption|reflexivity]]]. }
      destruct Hcases as [[Hin ->]|(u1 & u2 & uend & Hpre & Hown & Hrest & ->)].
      { destruct Hi as [Hi1 Hi2]. destruct (Hi2 _ Hin) as (e0 & s0 & s1 & Hp0 & Hx0 & Hsim0).
        pose proof (proj2 (replay cfg _ _ _ _ Hp0) st Hx0 (refl_down _ _ Xall Hrf)) as Hre.
        rewrite Hre in H. inversion H; subst. split; [exact Hsim0|split; assumption]. }
      cut (sim e (JObj kvs) /\ Inv2 st' uend).
      { intros [Hs0 [Hn1 Hn2]]. split; [exact Hs0|]. split; [exact Hn1|].
        intros S1 [<-|Hs1]; [|exact (Hn2 S1 Hs1)].
        exists e, st, st'. split; [exact H|split; [apply ext_refl|exact Hs0]]. }
      clear Hw.
      destruct Hnode as (Hnd & Htc & Hconst & Henum & Hpok & Hattr & Hppok & Hdok & Hany & Hone).
      unfold subschemas in IH.
      repeat match type of IH with Forall _ (_ ++ _) => let I1 := fresh "I" in apply Forall_app in IH as [I1 IH] end.
      cbn [parse_element] in H.
      destruct (existsb (fun kv => mem_str (fst kv) (c_unsupported cfg)) kvs); [exfalso; eapply fail_inv; exact H|].
      apply bind_inv in H as (props & s1 & Hp1 & H). apply bind_inv in H as (items & s2 & Hp2 & H).
      apply bind_inv in H as (pats & s3 & Hp3 & H). apply bind_inv in H as (pnames & s4 & Hp4 & H).
      apply bind_inv in H as (contains & s5 & Hp5 & H). apply bind_inv in H as (deps & s6 & Hp6 & H).
      apply bind_inv in H as (addp & s7 & Hp7 & H). apply bind_inv in H as (addi & s8 & Hp8 & H).
      pose proof (proj1 (Rw _ _ _ _ (fun v => Rf_items v) (R_ret _) _ _ _ Hp2)) as X2.
      pose proof (proj1 (Rw _ _ _ _ (fun v => Rf_pats v) (R_ret _) _ _ _ Hp3)) as X3.
      pose proof (proj1 (Rw _ _ _ _ (fun v => Rf_some v) (R_ret _) _ _ _ Hp4)) as X4.
      pose proof (proj1 (Rw _ _ _ _ (fun v => Rf_some v) (R_ret _) _ _ _ Hp5)) as X5.
      pose proof (proj1 (Rw _ _ _ _ (fun v => Rf_deps v) (R_ret _) _ _ _ Hp6)) as X6.
      pose proof (proj1 (Rw _ _ _ _ (fun v => Rf_addl v) (R_ret _) _ _ _ Hp7)) as X7.
      pose proof (proj1 (Rw _ _ _ _ (fun v => Rf_addl v) (R_ret _) _ _ _ Hp8)) as X8.
      assert (X9 : ext s8 st').
      { revert H. match goal with |- ?m s8 = _ -> _ => assert (Rm : R m) end.
        { match goal with |- R (if ?b then _ else _) => destruct b end; [apply R_finish_plain|].
          apply R_bind; [apply R_finish_plain|]. intros base0.
          apply R_bind; [apply R_parse_keys; intros key; apply Rw; [intros v; apply Rf_comp|apply R_ret]|]. intros parsed0.
          apply R_bind; [apply Rw; [intros v; apply Rf_not|apply R_ret]|]. intros nots0.
          match goal with |- R (if ?b then _ else _) => destruct b end; apply R_ret. }
        intros H. exact (proj1 (Rm _ _ _ H)). }
      assert (F8 : refl_state s8) by (eapply refl_down; eauto).
      assert (F7 : refl_state s7) by (eapply refl_down; eauto).
      assert (F6 : refl_state s6) by (eapply refl_down; eauto).
      assert (F5 : refl_state s5) by (eapply refl_down; eauto).
      assert (F4 : refl_state s4) by (eapply refl_down; eauto).
      assert (F3 : refl_state s3) by (eapply refl_down; eauto).
      assert (F2 : refl_state s2) by (eapply refl_down; eauto).
      assert (F1 : refl_state s1) by (eapply refl_down; eauto).
      unfold pre_list in Hpre.
      apply (walks2_app cfg) in Hpre as (a1 & W1 & Hpre). apply (walks2_app cfg) in Hpre as (a2 & W2 & Hpre).
      apply (walks2_app cfg) in Hpre as (a3 & W3 & Hpre). apply (walks2_app cfg) in Hpre as (a4 & W4 & Hpre).
      apply (walks2_app cfg) in Hpre as (a5 & W5 & Hpre). apply (walks2_app cfg) in Hpre as (a6 & W6 & Hpre).
      apply (walks2_app cfg) in Hpre as (a7 & W7 & W8).
      destruct (props_thr kvs _ _ _ _ _ Hpok Hattr I5 W1 Hi Hp1 F1) as (Rprops & Rreq & Rstruct & J1).
      destruct (items_thr kvs _ _ _ _ _ I W2 J1 Hp2 F2) as (Ritems & J2).
      destruct (pats_thr kvs _ _ _ _ _ Hppok I6 W3 J2 Hp3 F3) as (Rpats & J3).
      destruct (some_thr _ kvs _ _ _ _ _ I2 W4 J3 Hp4 F4) as (Rpnames & J4).
      destruct (some_thr _ kvs _ _ _ _ _ I1 W5 J4 Hp5 F5) as (Rcontains & J5).
      destruct (deps_thr kvs _ _ _ _ _ Hdok I7 W6 J5 Hp6 F6) as (Rdeps & J6).
      destruct (addl_thr _ kvs _ _ _ _ _ I3 W7 J6 Hp7 F7) as (Raddp & J7).
      destruct (addl_thr _ kvs _ _ _ _ _ I0 W8 J7 Hp8 F8) as (Raddi & J8).
      set (K := kw_record kvs props items pats pnames contains deps addp addi) in *.
      (* the node itself: Element / typed element / class *)
      assert (Hstep : forall S0 K' s9 e9 s10,
                (S0 = kvs /\ K' = K) \/ (S0 = other_of kvs /\ K' = set_default K None) ->
                finish_plain cfg S0 K' s9 = POk (e9, s10) -> Inv2 s9 u1 ->
                (forall v, jwf v -> om (B e9 (Some v)) (cl_type kvs v && rest_b O WCode kvs v)) /\ Inv2 s10 u2).
      { intros S0 K' s9 e9 s10 HS Hfp Hi9.
        assert (Et : lookup (s_ "type") S0 = lookup (s_ "type") kvs).
        { destruct HS as [[-> _]|[-> _]]; [reflexivity|]. apply other_keep. vm_compute. intuition discriminate. }
        assert (HKv : Kvariant kvs props items pats pnames contains deps addp addi K').
        { destruct HS as [[_ ->]|[_ ->]]; [now left|right; eexists; reflexivity]. }
        destruct Hown as [Hown Hsnd]. unfold own_step in Hown.
        destruct (is_object_node kvs) eqn:Eobj.
        - (* a class *)
          pose proof (object_node_type kvs Eobj) as Ety.
          assert (Hobj : obj_node_ok kvs).
          { red in Htc. rewrite Ety in Htc. now destruct (Htc eq_refl). }
          unfold finish_plain in Hfp. rewrite Et, Ety in Hfp. unfold typed_single in Hfp.
          rewrite str_eqb_refl in Hfp. unfold parse_object in Hfp.
          assert (Eti : obj_title S0 = obj_title kvs).
          { destruct HS as [[-> _]|[-> _]]; [reflexivity|apply obj_title_other]. }
          rewrite Eti in Hfp.
          destruct (obj_title kvs) as [[| | | |[|c t]| |]|];
            try (exfalso; revert Hfp; unfold fail; try destruct (py_truthy _); discriminate).
          destruct Hown as [Hfresh Hfst].
          destruct (dedupe_fresh2 (EObj (title_format (c :: t)) [s_ "Object"] (obj_record cfg S0 K')) _ _ _ _ Hi9 Hfresh Hfp)
            as [-> Hi10].
          split; [|destruct u2 as [n2 q2]; cbn [fst snd obj_name] in *; subst; exact Hi10].
          intros v Hv.
          assert (Eb : B (EObj (title_format (c :: t)) [s_ "Object"] (obj_record cfg S0 K')) (Some v) =
                       B (EObj (title_format (c :: t)) [s_ "Object"] (obj_record cfg kvs K)) (Some v)).
          { destruct HS as [[-> ->]|[-> ->]]; [reflexivity|]. rewrite obj_record_other. apply build_obj_set_default. }
          rewrite Eb. unfold cl_type. rewrite Ety.
          (* the hypotheses of object_om *)
          assert (Hrd : reqs_declared kvs).
          { intros r Hr. specialize (Hobj r Hr).
            destruct (lookup (s_ "properties") kvs) as [[| | | | | |pkvs]|]; try contradiction.
            destruct Hobj as (Sp & Hl & _). unfold has_key. now rewrite Hl. }
          assert (Hst : props_struct kvs props cfg).
          { red. red in Rstruct. destruct (lookup (s_ "properties") kvs) as [[| | | | | |pkvs]|] eqn:Ep; auto.
            destruct Rstruct as (Hndp & es & Eprops & Hes). split; [exact Hndp|]. exists es. split; [exact Eprops|].
            eapply Forall2_impl_In; [exact Hes|]. intros ke [k0 S1] Hin (E & Hd). split; [exact E|]. intros Hr. apply Hd.
            cbn [fst snd] in *. specialize (Hobj _ Hr). rewrite Ep in Hobj. destruct Hobj as (Sp & Hl & Hnc).
            rewrite (In_lookup _ _ _ Hndp Hin) in Hl. now inversion Hl. }
          assert (Hra : forall r, In r (reqs kvs) -> has_key (attr cfg r) (props0 props) = true).
          { intros r Hr. pose proof (Hobj r Hr) as Ho. red in Rstruct.
            destruct (lookup (s_ "properties") kvs) as [[| | | | | |pkvs]|]; try contradiction.
            destruct Ho as (Sp & Hl & _). destruct Rstruct as (Hndp & es & -> & Hes).
            apply lookup_In in Hl. destruct (Forall2_In_r _ _ _ _ Hes Hl) as ([k0 e0] & Hin & E & _).
            cbn [fst] in E. subst k0. unfold props0.
            apply (In_has_key _ (mkProp e0 (mem_str r (req_names kvs)) r)).
            apply in_map_iff. exists (r, e0). auto. }
          assert (Htyp : typed_object kvs = true).
          { unfold typed_object. rewrite Ety. apply str_eqb_refl. }
          exact (object_om O WCode kvs props items pats pnames contains deps addp addi
                           Hconst Henum Ritems Raddi Rcontains Rpnames Rprops Rpats Raddp Rdeps Rreq cfg Hra
                           _ _ v eq_refl Htyp Hst Hrd Hv).
        - (* Element / typed element *)
          pose proof (not_object_node kvs Eobj Htc) as Hno.
          assert (Eu : u2 = u1) by (destruct u1, u2; cbn [fst snd] in *; congruence). subst u2.
          pose proof (finish_plain_state cfg kvs S0 K' _ _ _ Hno Et Hfp) as ->.
          split; [|exact Hi9]. intros v Hv.
          refine (finish_plain_om O WCode kvs props items pats pnames contains deps addp addi
                    Hconst Henum Ritems Raddi Rcontains Rpnames Rprops Rpats Raddp Rdeps Rreq cfg
                    (fun name => waived_false WCode ltac:(discriminate) kvs name Hno) S0 K' _ _ _ HKv Et Hno Hfp v Hv). }
      destruct Hcfg as [Hcfg1 Hcfg2].
      change (existsb (fun kv => mem_str (fst kv) composition_keywords) kvs) with (has_comp kvs) in H.
      destruct (has_comp kvs) eqn:Ecomp; cbn [negb] in H.
      + (* composition *)
        change (filter (fun kv => negb (mem_str (fst kv) (s_ "default" :: composition_keywords))) kvs)
          with (other_of kvs) in H.
        apply bind_inv in H as (base & s9 & Hbase & H). apply bind_inv in H as (parsed & s10 & Hparsed & H).
        apply bind_inv in H as (nots & s11 & Hnots & H).
        destruct Hrest as (u3 & Wc & Wn).
        assert (Est : st' = s11).
        { match type of H with (if ?c then _ else _) _ = _ => destruct c end; now apply ret_inv in H as [_ <-]. }
        subst st'.
        assert (F10 : refl_state s10).
        { eapply refl_down; [|exact Hrf]. exact (proj1 (Rw _ _ _ _ (fun v => Rf_not v) (R_ret _) _ _ _ Hnots)). }
        assert (F9 : refl_state s9).
        { eapply refl_down; [|exact F10]. refine (proj1 (R_parse_keys _ _ _ _ _ _ Hparsed)).
          intros key. apply Rw; [intros v; apply Rf_comp|apply R_ret]. }
        destruct (Hstep _ _ _ _ _ (or_intror (conj eq_refl eq_refl)) Hbase J8) as [Hb0 J9].
        assert (HIc : forall key, In key (c_comp_order cfg) -> Forall IHt2 (arr_list (lookup key kvs))).
        { intros key Hk. specialize (Hcfg2 key Hk). cbn [map In] in Hcfg2.
          destruct Hcfg2 as [<-|[<-|[<-|[]]]]; assumption. }
        destruct (parse_keys_thr kvs (c_comp_order cfg) HIc _ _ _ _ _ Wc J9 Hparsed F10) as [J10 Hrel].
        assert (Hn : nots_rel O WCode kvs nots /\ Inv2 s11 uend).
        { unfold nots_rel. rewrite with_key_lookup in Hnots.
          destruct (lookup (s_ "not") kvs) as [Sn|].
          - unfold parse_not in Hnots. apply bind_inv in Hnots as (en & t1 & Hen & Hnots).
            apply ret_inv in Hnots as [<- <-]. cbn [opt_list] in *. inversion I4 as [|? ? Hi4 _]; subst.
            apply walks_one_inv in Wn. destruct (Hi4 _ _ _ _ _ Wn J10 Hen Hrf) as [Hs J11].
            split; [exists en; auto|exact J11].
          - apply ret_inv in Hnots as [<- <-]. cbn [opt_list] in Wn. apply walks_nil_inv in Wn. subst. auto. }
        destruct Hn as [Hn J11].
        split; [|exact J11].
        intros v Hv.
        refine (comp_assemble O WCode kvs v base parsed nots e s11 s11 Hv Hany Hone (Hb0 v Hv) _ _ _ Hn H).
        * apply Hrel, Hcfg1. now left.
        * apply Hrel, Hcfg1. right; now left.
        * apply Hrel, Hcfg1. right; right; now left.
      + (* no composition keyword *)
        subst uend. destruct (Hstep _ _ _ _ _ (or_introl (conj eq_refl eq_refl)) H J8) as [Hb0 J9].
        split; [|exact J9]. intros v Hv. apply nocomp_assemble; [exact Ecomp|]. apply Hb0, Hv.
  Qed.
End Thr2.

(* ---- the statements used by Properties/C01.v ---- *)
Theorem validity_classes_revisits cfg O S0 u' e st' :
  comp_exact cfg -> plain cfg true S0 -> walk2 cfg ([], []) S0 u' ->
  parse_element cfg S0 [] = POk (e, st') -> refl_state st' ->
  forall v, jwf v -> om (build O e (Some v)) (valid6 O S0 v).
Proof.
  intros Hc Hp Hw H Hrf v Hv.
  assert (Hi : Inv2 cfg O [] ([], [])).
  { split; [intros n Hn; now destruct Hn|intros S1 []]. }
  destruct (parse_sim_obj2 cfg O Hc S0 Hp _ _ _ _ _ Hw Hi H Hrf) as [Hs _]. exact (Hs v Hv).
Qed.
