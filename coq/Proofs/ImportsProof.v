(* ImportsProof.v — C02: the substring triggers of serializers/python.py (_get_standard_imports)
   never miss a typing name that an annotation uses. *)
From Coq Require Import String.
From Statham.Model Require Import Str Json Elem PyNum Validate Annot.
From Statham.Proofs Require Import StrFacts AnnotProof.
Local Open Scope string_scope.
Local Open Scope list_scope.

Fixpoint is_prefix (p s : str) : bool :=
  match p, s with
  | [], _ => true
  | x :: p', y :: s' => N.eqb x y && is_prefix p' s'
  | _ :: _, [] => false
  end.
(* `p in s` *)
Fixpoint has_sub (p s : str) : bool :=
  is_prefix p s || match s with [] => false | _ :: s' => has_sub p s' end.

Lemma is_prefix_app p s : is_prefix p (p ++ s) = true.
Proof. induction p; simpl; auto. now rewrite N.eqb_refl. Qed.
Lemma is_prefix_app_r p a b : is_prefix p a = true -> is_prefix p (a ++ b) = true.
Proof.
  revert a. induction p as [|x p IH]; intros a H; [reflexivity|].
  destruct a as [|y a]; simpl in *; [discriminate|]. apply andb_prop in H as [H1 H2]. now rewrite H1, IH.
Qed.
Lemma has_sub_app_l p a b : has_sub p a = true -> has_sub p (a ++ b) = true.
Proof.
  induction a as [|y a IH]; simpl; intros H.
  - rewrite orb_false_r in H. destruct p; [destruct b; reflexivity|discriminate].
  - apply orb_prop in H as [H|H].
    + change (y :: a ++ b) with ((y :: a) ++ b). now rewrite (is_prefix_app_r p (y :: a) b H).
    + rewrite (IH H). apply orb_true_r.
Qed.
Lemma has_sub_app_r p a b : has_sub p b = true -> has_sub p (a ++ b) = true.
Proof.
  induction a as [|y a IH]; simpl; intros H; [exact H|]. rewrite (IH H). apply orb_true_r.
Qed.
Lemma has_sub_prefix p s : has_sub p (p ++ s) = true.
Proof. destruct (p ++ s) eqn:E; simpl; rewrite <- E, is_prefix_app; reflexivity. Qed.

(* which typing names an annotation mentions *)
Fixpoint uses (name : nat) (t : ty) {struct t} : bool :=   (* 0 = Any, 1 = List, 2 = Union, 3 = Maybe *)
  match t with
  | TAny => Nat.eqb name 0
  | TList None => Nat.eqb name 1
  | TList (Some t') => Nat.eqb name 1 || uses name t'
  | TUnion ts => Nat.eqb name 2 || (fix any (l : list ty) : bool := match l with [] => false | x :: r => uses name x || any r end) ts
  | TMaybe t' => Nat.eqb name 3 || uses name t'
  | _ => false
  end.
Definition trigger (name : nat) : str :=
  s_ match name with 0%nat => "Any" | 1%nat => "List" | 2%nat => "Union" | _ => "Maybe" end.

Lemma join_sub p (ts : list ty) (f : ty -> str) sep t :
  In t ts -> has_sub p (f t) = true ->
  has_sub p ((fix join (l : list ty) : str := match l with [] => [] | [x] => f x | x :: r => f x ++ sep ++ join r end) ts) = true.
Proof.
  induction ts as [|x r IH]; intros Hin H; [destruct Hin|].
  destruct Hin as [<-|Hin].
  - destruct r; [exact H|]. now apply has_sub_app_l.
  - destruct r as [|y r']; [destruct Hin|]. apply has_sub_app_r, has_sub_app_r. apply IH; auto.
Qed.

Theorem trigger_covers : forall name t, (name <= 3)%nat -> uses name t = true -> has_sub (trigger name) (ty_text t) = true.
Proof.
  intros name t Hn. induction t using ty_ind'; intros Hu; simpl in Hu; try discriminate.
  - apply Nat.eqb_eq in Hu. subst. reflexivity.
  - apply Nat.eqb_eq in Hu. subst. reflexivity.
  - apply orb_prop in Hu as [Hu|Hu].
    + apply Nat.eqb_eq in Hu. subst. reflexivity.
    + cbn [ty_text]. apply has_sub_app_r, has_sub_app_l. auto.
  - apply orb_prop in Hu as [Hu|Hu].
    + apply Nat.eqb_eq in Hu. subst. reflexivity.
    + cbn [ty_text]. apply has_sub_app_r, has_sub_app_l.
      assert (Hex : exists x, In x l /\ uses name x = true).
      { clear - Hu. induction l as [|x r IH]; [discriminate|]. apply orb_prop in Hu as [Hu|Hu]; [exists x; simpl; auto|].
        destruct (IH Hu) as (y & Hy & Hy'). exists y. simpl. auto. }
      destruct Hex as (x & Hin & Hx). rewrite Forall_forall in H.
      eapply join_sub; eauto.
  - apply orb_prop in Hu as [Hu|Hu].
    + apply Nat.eqb_eq in Hu. subst. reflexivity.
    + cbn [ty_text]. apply has_sub_app_r, has_sub_app_l. auto.
Qed.
